"""Shared machinery of the operator-language checks C01 (adjoints), C02 (linearity / purity),
C03 (algebra, shapes, rejection) and C04 (normal operators).

Tie: coq/model/Linop.v is a hand model of sigpy/linop.py; every run serialises the object graphs the
implementation builds (A, A.H, A.N) and compares them EXACTLY with `adj` / `normal` / `shapes`
evaluated in Coq, and compares `den` on values: exact on Gaussian integers when the tree has only
rearrangement / multiply / matmul leaves (and when its only library-backed leaves are convolutions);
PrimFloat with tolerance when it contains other library-backed leaves.  Library-backed leaves (FFT, NUFFT,
interpolation, wavelets, convolution) are denoted by the STANDARD ORACLE `orc_std` (coq/model/OpaqueStd.v: the
function models of C05-C08, C10 with the classes' own argument passing — the oracle the theorems of Prop_C01 /
C03 / C04 are about), instantiated on floats from literal oracle tables (props/opaque_std.py,
coq/run/RunOpaqueStd.v).  A dense matrix measured on the implementation is used ONLY for a leaf the validity
predicate of the theorems rejects (counted as `opaque_leaves_via_dense_fallback`).
"""
import json
import numpy as np
from vlib import core, coqlit as L, linser, lingen
from props import opaque_std

HEADER = opaque_std.HEADER          # run/RunLinop.v + run/RunOpaqueStd.v


def chain(e):
    import traceback
    out = []
    while e is not None:
        tb = traceback.extract_tb(e.__traceback__)
        out.append("%s @ %s" % (repr(e)[:300], ["%s:%d" % (f.name, f.lineno) for f in tb[-3:]]))
        e = e.__cause__
    return out


def cvec(rng, shape, cplx=True):
    return lingen.gint(rng, shape, cplx, -4, 4).astype(np.complex128 if cplx else np.float64)


def apply_case(S, T, A, x, y, exact, sp=None, stats=None, rng=None):
    """Coq expression: den T x == y.  Trees with library-backed leaves go through the standard oracle (function models);
    `stats` collects how many trees / leaves did, and how many leaves needed the dense fallback."""
    has_opaque = bool(opaque_std.walk_leaves(A))
    if has_opaque and sp is not None:
        expr, info = opaque_std.tree_expr(S, sp, T, A, x, y, rng)
        if stats is not None:
            stats["trees"] += 1
            stats["leaves"] += info["n_leaves"]
            stats["fallback"] += info["n_fallback"]
            stats[{"exact-conv": "exact", "split": "split"}.get(info["mode"], "float")] += 1
        return expr
    if exact and not has_opaque:
        arrs, scals = S.env_G()
        return "chk_apply_G %s %s %s [] %s %s" % (T, arrs, scals, linser.gz_list(x), linser.gz_list(y))
    arrs, scals = S.env_F()
    return "chk_apply_F 0x1p-30 0x1p-30 %s %s %s %s %s %s" % (T, arrs, scals, S.mats_F(), L.cflist(np.ravel(x)), L.cflist(np.ravel(y)))


def is_exact(S, n_opaque_before=0):
    return len(S.opaque) == n_opaque_before and S.all_integer()


# ------------------------------------------------------------------ numpy reference for the combinators (C03 oracle)
def ref_matrix(sp, A):
    n = type(A).__name__
    if n == "Compose":
        M = None
        for a in A.linops:
            Ma = ref_matrix(sp, a)
            M = Ma if M is None else M @ Ma
        return M
    if n == "Add":
        return sum(ref_matrix(sp, a) for a in A.linops)
    if n == "Conj":
        return np.conj(ref_matrix(sp, A.A))
    if n in ("Hstack", "Vstack", "Diag"):
        ni, no = int(np.prod(A.ishape)), int(np.prod(A.oshape))
        M = np.zeros((no, ni), dtype=np.complex128)
        iidx = np.arange(ni).reshape(A.ishape)
        oidx = np.arange(no).reshape(A.oshape)
        ipos = opos = 0
        for a in A.linops:
            Ma = ref_matrix(sp, a)
            if n in ("Hstack", "Diag"):
                ax = A.axis if n == "Hstack" else A.iaxis
                if ax is None:
                    cols = np.arange(ipos, ipos + int(np.prod(a.ishape)))
                    ipos += int(np.prod(a.ishape))
                else:
                    axn = ax % len(a.ishape)
                    cols = np.take(iidx, range(ipos, ipos + a.ishape[axn]), axis=axn).ravel()
                    ipos += a.ishape[axn]
            else:
                cols = np.arange(ni)
            if n in ("Vstack", "Diag"):
                ax = A.axis if n == "Vstack" else A.oaxis
                if ax is None:
                    rows = np.arange(opos, opos + int(np.prod(a.oshape)))
                    opos += int(np.prod(a.oshape))
                else:
                    axn = ax % len(a.oshape)
                    rows = np.take(oidx, range(opos, opos + a.oshape[axn]), axis=axn).ravel()
                    opos += a.oshape[axn]
            else:
                rows = np.arange(no)
            M[np.ix_(rows, cols)] += Ma
        return M
    return linser.dense(A)


# ------------------------------------------------------------------ one generated operator, all its facts
class Case:
    pass


def build_case(sp, rng, depth, kinds, cplx=True):
    c = Case()
    c.log = []
    c.A = lingen.gen_tree(sp, rng, depth, None, kinds, cplx, c.log)
    return c


def tree_key(S, T):
    return T


def run_linop(ctx, prop, prop_file, n_quick, n_thorough, want):
    """want: set of facets in {'adj','normal','shapes','apply','applyH','applyN','reject','dot','linear','pure','dense'}"""
    from tools import translate_all
    # "interp": the generated interpolation kernels are in the proof cone of the library-backed leaves (model/Interp.v, Nufft.v)
    tr_err = translate_all.run(strict=False, only=["linop_table", "block", "shapes", "interp"])
    ctx.obligation("translate:sigpy/linop.py adjoint/normal table", not tr_err)
    if tr_err:
        ctx.notes.append("translator failed closed: %s" % tr_err)
    # tie by translation of the DENOTATION: gen/Gen_linop_apply.v is regenerated from every `_apply` (and Linop.apply / __call__ /
    # the overloads) of the tree under test and compiled; its `_ok` lemmas state generated == the clauses of `den`
    from tools import translate_linop_apply
    tie_broken = translate_linop_apply.tie(ctx)
    proof_ok = ctx.prove(prop_file) and not tr_err and not tie_broken
    sp = core.import_sigpy()
    rng = ctx.rng
    ctx.source_hash("sigpy/linop.py", "sigpy/util.py", "sigpy/block.py")
    n = ctx.n(n_quick, n_thorough)
    cases, meta = [], []
    oracle_fail = {}
    std_stats = {"trees": 0, "leaves": 0, "fallback": 0, "exact": 0, "float": 0, "split": 0}
    std_idx = []                      # indices of the value cases whose library-backed leaves went through the function models

    def add(expr, cls, info):
        cases.append({"expr": expr})
        meta.append((cls, info))

    def add_apply(cls, info, S, T, A, xin, yout):
        before = std_stats["trees"]
        try:
            expr = apply_case(S, T, A, xin, yout, S.all_integer() and not S.opaque, sp, std_stats, rng)
        except Exception as e:          # the oracle tables could not be measured: fail closed as a correspondence failure
            msg = "".join(ch if ch.isalnum() or ch in " _-.,:[]<>=" else " " for ch in repr(e))[:200]
            expr = "false (* environment of the library-backed leaves could not be built: %s *)" % msg
            info = dict(info, env_error=chain(e))
            std_stats["trees"] += 1
        if std_stats["trees"] > before:
            std_idx.append(len(cases))
        add(expr, cls, info)

    def note_fail(cls, what, replay):
        if cls not in oracle_fail:
            oracle_fail[cls] = (what, replay)

    made = 0
    attempts = 0
    # structured part: a seeded sample (thorough: all) of the systematic combinator x operand-kind x storage-dtype grid
    try:
        grid = [(A, log, real) for A, log in lingen.structured_trees(sp, rng) for real in (False, True, "f4")]
    except Exception as e:
        grid = []
        if "reject" in want:
            note_fail("gen-exception", "valid construction raised %r" % e, {"kind": "impl-exception", "error": repr(e), "chain": chain(e)})
    rng.shuffle(grid)
    # the rank-changing stacks are few: always all of them (complex storage), the rest sampled
    always = [g for g in grid if "rank" in g[1][0] and g[2] is False]
    grid = always + [g for g in grid if g not in always][:ctx.n(120, len(grid))]
    n += len(grid)
    while made < n and attempts < 6 * n:
        attempts += 1
        depth = rng.choice([0, 0, 1, 1, 2, 2, 3])
        with_opaque = rng.random() < 0.3
        kinds = lingen.EXACT_LEAVES + (lingen.OPAQUE_LEAVES if with_opaque else [])
        if depth == 0 and with_opaque:
            kinds = lingen.OPAQUE_LEAVES
        cplx = rng.random() < 0.85
        force_real = None
        try:
            if grid:
                c = Case()
                c.A, c.log, force_real = grid.pop()
            else:
                c = build_case(sp, rng, depth, kinds, cplx)
        except Exception as e:       # the generator only builds valid operators: a raise here is a finding for C03
            if "reject" in want:
                note_fail("gen-exception", "valid construction raised %r" % e, {"kind": "impl-exception", "error": repr(e), "chain": chain(e)})
            continue
        A = c.A
        if int(np.prod(A.ishape)) > 64 or int(np.prod(A.oshape)) > 96:
            continue
        S = linser.Serializer()
        try:
            T = S.term(A)
        except linser.Unsupported:
            continue
        except RecursionError:
            # the object graph contains itself: an overload (+, -, *) altered one of its operands while building the expression
            note_fail("cyclic-operator", "the operator built by the expression %s contains itself (an overload altered its operand)" % " ".join(map(str, c.log[:6])),
                      {"kind": "oracle", "expression": [str(e) for e in c.log[:12]]})
            continue
        made += 1
        top = type(A).__name__
        desc = {"tree": repr(A)[:200], "kinds": c.log[:12], "ishape": list(map(int, A.ishape)), "oshape": list(map(int, A.oshape))}
        nontriv = not (top == "Identity")
        expect = [e for e in c.log if isinstance(e, tuple) and e and e[0] == "expect"]
        c.log = [e for e in c.log if not isinstance(e, tuple)]
        desc["kinds"] = c.log[:12]
        if expect and (list(map(int, A.oshape)) != list(expect[0][1]) or list(map(int, A.ishape)) != list(expect[0][2])):
            note_fail("advertised-shape:" + c.log[0], "the stack advertises oshape %s / ishape %s, the definition gives %s / %s (%s)"
                      % (list(A.oshape), list(A.ishape), expect[0][1], expect[0][2], " ".join(c.log)),
                      {"kind": "oracle", "tree": desc, "term": T, "expected_oshape": expect[0][1], "expected_ishape": expect[0][2]})
        ctx.count(prop + ":" + (c.log[0] if c.log else top), key=T, nontrivial=nontriv, sample=desc)
        info = {"term": T, "desc": desc}
        x = cvec(rng, A.ishape, True)
        # input stored in a REAL dtype (the operator may still be complex).  Only for trees without library-backed leaves:
        # fft/nufft of a real array is computed in complex64 by design and scipy-based convolution rejects mixed dtypes
        # trees with library-backed leaves: scipy-based convolution rejects mixed dtypes (never real-dtype there);
        # fft / nufft of a real array is computed in complex64 BY DESIGN, so for those trees a real-dtype input is
        # judged by the numpy oracles at single-precision tolerance only (no Coq value comparison)
        has_conv = any(type(o).__name__.startswith("Convolve") for _, o in S.opaque)
        real_ok = not has_conv
        single = False
        if force_real == "f4" or (real_ok and force_real is None and rng.random() < 0.3):
            # single-precision storage (float32 / complex64) of the same small integers: judged by the numpy oracles at single
            # precision, not compared inside Coq
            x = np.ascontiguousarray(x.real).astype(np.float32) if (force_real == "f4" or rng.random() < 0.6) else x.astype(np.complex64)
            single = True
        elif (real_ok and rng.random() < (0.4 if not S.opaque else 0.25) and force_real is None) or force_real is True:
            x = np.ascontiguousarray(x.real)
            single = bool(S.opaque)
        yv = cvec(rng, A.oshape, True)
        if real_ok and rng.random() < 0.25:
            yv = np.ascontiguousarray(yv.real)
            single = single or bool(S.opaque)
        ctx.coverage["histogram"]["input-storage:" + str(x.dtype)] = ctx.coverage["histogram"].get("input-storage:" + str(x.dtype), 0) + 1
        x0, yv0 = x.copy(), yv.copy()
        snaps = [(a, a.copy()) for _, a in S.arrays.values()]
        try:
            if not has_conv and np.iscomplexobj(x) and rng.random() < 0.5:
                # the same operator OBJECT is first applied to the real part stored in a real dtype (and so are its .H / .N when they
                # are judged below): nothing an object remembers from an earlier input may change what it does to the next one
                _ = A(np.ascontiguousarray(x.real))
                if want & {"normal", "applyN"}:
                    _ = A.N(np.ascontiguousarray(x.real))
                ctx.coverage["histogram"]["warm-up:real-dtype-first"] = ctx.coverage["histogram"].get("warm-up:real-dtype-first", 0) + 1
            y = np.asarray(A(x))
            if "shapes" in want:
                add("chk_shapes %s %s" % (T, S.shapes_lit(A)), "shapes", info)
                if list(y.shape) != list(A.oshape):
                    note_fail("oshape", "output shape %s differs from the advertised %s" % (list(y.shape), list(A.oshape)),
                              {"kind": "oracle", "tree": desc, "observed_shape": list(y.shape)})
            nop = len(S.opaque)
            if "apply" in want and not single:
                add_apply("apply", info, S, T, A, x, y)
            if "dense" in want and int(np.prod(A.ishape)) <= 40:
                M = linser.dense(A)
                R = ref_matrix(sp, A)
                if not np.allclose(M, R, rtol=1e-9, atol=1e-9):
                    note_fail("algebra:" + top, "operator does not act as the matrix expression of its parts",
                              {"kind": "oracle", "tree": desc, "term": T, "max_abs_diff": float(np.abs(M - R).max())})
                # ... and on the generated input itself, in the dtype it is stored in (a real-dtype x sees casts that the
                # complex basis vectors of `dense` do not)
                yr = (R @ np.ravel(x0)).reshape(y.shape) if y.size == R.shape[0] else None
                ta = 3e-4 if single else 1e-9
                if yr is None or not np.allclose(y, yr, rtol=ta, atol=ta * (1 + np.abs(yr).max())):
                    note_fail("algebra-apply:" + top, "A(x) differs from the matrix expression of its parts applied to x (x stored as %s)" % x0.dtype,
                              {"kind": "oracle", "tree": desc, "term": T, "x": np.ravel(x0).tolist().__repr__(), "x_dtype": str(x0.dtype),
                               "observed": np.ravel(y).tolist().__repr__(), "expected": None if yr is None else np.ravel(yr).tolist().__repr__()})
            if want & {"adj", "applyH", "dot"}:
                AH = A.H
                TH = S.term(AH)
                if "adj" in want:
                    add("chk_adj %s %s" % (T, TH), "adj", info)
                    add("chk_shapes %s %s" % (TH, S.shapes_lit(AH)), "shapesH", info)
                if list(AH.ishape) != list(A.oshape) or list(AH.oshape) != list(A.ishape):
                    note_fail("adj-shapes", "adjoint shapes are not the swapped shapes",
                              {"kind": "oracle", "tree": desc, "H": [list(AH.oshape), list(AH.ishape)]})
                else:
                    z = np.asarray(AH(yv))
                    if "applyH" in want and not single:
                        add_apply("applyH", info, S, TH, AH, yv, z)
                    if "dot" in want:
                        lhs, rhs = np.vdot(yv, y), np.vdot(z, x)     # <Ax,y> = sum Ax conj y = vdot(y, Ax)
                        scale = np.linalg.norm(y) * np.linalg.norm(yv) + np.linalg.norm(z) * np.linalg.norm(x) + 1e-30
                        tol = 1e-5 if any(k in ("fft", "ifft", "nufft", "nufft_adj") for k in c.log) else 1e-9
                        if single:
                            tol = 3e-4
                        if abs(lhs - rhs) > tol * scale:
                            note_fail("dot:" + top, "<A x, y> != <x, A^H y>",
                                      {"kind": "oracle", "tree": desc, "term": T, "lhs": str(lhs), "rhs": str(rhs),
                                       "x": np.ravel(x).tolist().__repr__(), "y": np.ravel(yv).tolist().__repr__()})
                        AHH = AH.H
                        y2 = np.asarray(AHH(x))
                        th = 3e-4 if single else 1e-8
                        if y2.shape != y.shape or not np.allclose(y2, y, rtol=th, atol=0.1 * th * (1 + np.abs(y).max())):
                            note_fail("adjadj:" + top, "A.H.H does not act like A", {"kind": "oracle", "tree": desc, "term": T})
            if want & {"normal", "applyN"}:
                AN = A.N
                TN = S.term(AN)
                if "normal" in want:
                    add("chk_normal %s %s" % (T, TN), "normal", info)
                w = np.asarray(AN(x))
                w2 = np.asarray(A.H(A(x)))
                toep = any(k in ("nufft",) for k in c.log)
                tn = 3e-4 if single else 1e-7
                if w.shape != w2.shape or not np.allclose(w, w2, rtol=tn, atol=0.1 * tn * (1 + np.abs(w2).max())):
                    note_fail("normal:" + top, "A.N x != A.H(A x)", {"kind": "oracle", "tree": desc, "term": T,
                                                                      "max_abs_diff": float(np.abs(w - w2).max()) if w.shape == w2.shape else None})
                if "applyN" in want and not single:
                    add_apply("applyN", info, S, TN, AN, x, w)
            if "linear" in want:
                a = complex(rng.randint(-3, 3), rng.randint(-3, 3))
                x2 = cvec(rng, A.ishape, True)
                l = np.asarray(A(a * x + x2))
                r = a * y + np.asarray(A(x2))
                tl = 3e-4 if single else 1e-8
                if not np.allclose(l, r, rtol=tl, atol=0.1 * tl * (1 + np.abs(r).max())):
                    note_fail("linear:" + top, "A(a x + y) != a A x + A y (complex a)",
                              {"kind": "oracle", "tree": desc, "term": T, "a": str(a)})
                _ = A.H, A.N                      # fill the caches, then apply again
                y_again = np.asarray(A(x))
                if not np.array_equal(y_again, y):
                    note_fail("determinism:" + top, "second application differs", {"kind": "oracle", "tree": desc, "term": T})
            if "pure" in want:
                if not np.array_equal(x, x0) or not np.array_equal(yv, yv0):
                    note_fail("mutation-input:" + top, "operator modified its input array", {"kind": "oracle", "tree": desc, "term": T})
                for a, a0 in snaps:
                    if not np.array_equal(a, a0):
                        note_fail("mutation-captured:" + top, "operator modified an array it was built from",
                                  {"kind": "oracle", "tree": desc, "term": T})
        except Exception as e:
            note_fail("exception:" + top, "valid operator raised %s: %s" % (type(e).__name__, str(e)[:200]),
                      {"kind": "impl-exception", "tree": desc, "term": T, "error": repr(e), "chain": chain(e)})
    # ---- expression-level overloads (C03): a*A, A*a, -A, A+B, A-B, A*B are the matrix expressions of their OPERANDS ----
    # (the object graph the overload builds is compared with the model elsewhere; here the expression itself is the reference,
    #  so an overload that builds a consistent but different operator -- e.g. folding a scalar through a Conj -- is seen)
    if "dense" in want:
        for k in range(ctx.n(40, 600)):
            try:
                T1 = lingen.gen_tree(sp, rng, rng.choice([0, 0, 1]), None, lingen.EXACT_LEAVES, True, [])
                if int(np.prod(T1.ishape)) > 24 or int(np.prod(T1.oshape)) > 36:
                    continue
                wrap = rng.choice(["plain", "conj", "conj", "H", "scaledH", "scaledH", "conjmult"])
                c0 = complex(rng.randint(1, 3), rng.randint(1, 3) * rng.choice([-1, 1]))
                # scaledH: the adjoint of a complex multiple ends in a scalar Multiply with conj=True; conjmult: such a Multiply used directly
                T1 = {"plain": lambda: T1, "conj": lambda: sp.linop.Conj(T1), "H": lambda: T1.H, "scaledH": lambda: (c0 * T1).H,
                      "conjmult": lambda: T1 * sp.linop.Multiply(T1.ishape, c0, conj=True)}[wrap]()
                a = complex(rng.randint(-3, 3) or 2, rng.randint(1, 3) * rng.choice([-1, 1]))
                D1 = linser.dense(T1)
                T2 = sp.linop.Conj(T1) if rng.random() < 0.5 else (2 - 1j) * T1
                D2 = linser.dense(T2)
                T3 = lingen.shape_preserving(sp, rng, list(T1.ishape), True)[0]
                D3 = linser.dense(T3)
                exprs = [("a*A", a * T1, a * D1), ("A*a", T1 * a, a * D1), ("-A", -T1, -D1), ("A+B", T1 + T2, D1 + D2),
                         ("A-B", T1 - T2, D1 - D2), ("A*B", T1 * T3, D1 @ D3), ("a*(A+B)", a * (T1 + T2), a * (D1 + D2)),
                         ("(a*A)*B", (a * T1) * T3, a * (D1 @ D3)), ("A-a*B", T1 - a * T2, D1 - a * D2),
                         ("A*(a*B)", T1 * (a * T3), a * (D1 @ D3)), ("(A*a)*a", (T1 * a) * a, a * a * D1)]
                # an operator that has been an OPERAND of +, -, * is unchanged by that (S = A + B kept, then S + C, S - C, a*S built)
                Ssum = T1 + T2
                Dsum = linser.dense(Ssum)
                nlin = len(getattr(Ssum, "linops", []))
                _ = [Ssum + T1, Ssum - T2, a * Ssum, Ssum * T3, Ssum + (T1 + T2)]
                if linser.dense(Ssum).shape != Dsum.shape or not np.allclose(linser.dense(Ssum), Dsum, rtol=1e-12, atol=1e-12) \
                        or len(getattr(Ssum, "linops", [])) != nlin:
                    note_fail("overload:operand-mutated", "a sum operator S = A + B changed after S + C, S - C, a*S, S*C were built from it",
                              {"kind": "oracle", "A": repr(T1)[:200], "terms_before": nlin, "terms_after": len(getattr(Ssum, "linops", []))})
                for nm, op, ref in exprs:
                    ctx.count(prop + ":overload:" + nm, key=(repr(T1)[:80], nm, k), nontrivial=True)
                    M = linser.dense(op)
                    if M.shape != ref.shape or not np.allclose(M, ref, rtol=1e-9, atol=1e-9):
                        note_fail("overload:" + nm, "the operator built by %s does not act as the matrix expression of its operands (A = %s%s)"
                                  % (nm, "Conj of " if wrap == "conj" else "", repr(T1)[:100]),
                                  {"kind": "oracle", "expression": nm, "A": repr(T1)[:200], "a": str(a),
                                   "max_abs_diff": float(np.abs(M - ref).max()) if M.shape == ref.shape else None})
            except Exception as e:
                note_fail("overload-exception", "an overload raised %s: %s" % (type(e).__name__, str(e)[:160]),
                          {"kind": "impl-exception", "error": repr(e), "chain": chain(e)})
    # ---- operands are inputs too (C02): building S + C, S - C, a*S, S*C from a kept operator S leaves S as it was ----
    if "pure" in want and "dense" not in want:
        for k in range(ctx.n(20, 300)):
            try:
                T1 = lingen.gen_tree(sp, rng, rng.choice([0, 1]), None, lingen.EXACT_LEAVES, True, [])
                if int(np.prod(T1.ishape)) > 24 or int(np.prod(T1.oshape)) > 36:
                    continue
                a = complex(rng.randint(1, 3), rng.randint(1, 3))
                Ssum = T1 + a * T1
                xk = cvec(rng, Ssum.ishape, True)
                before, nlin = np.asarray(Ssum(xk)).copy(), len(getattr(Ssum, "linops", []))
                T3 = lingen.shape_preserving(sp, rng, list(T1.ishape), True)[0]
                _ = [Ssum + T1, Ssum - T1, a * Ssum, Ssum * T3, Ssum + (T1 + T1)]
                after = np.asarray(Ssum(xk))
                ctx.count(prop + ":operand-kept", key=(repr(T1)[:80], k), nontrivial=True)
                if len(getattr(Ssum, "linops", [])) != nlin or after.shape != before.shape or not np.array_equal(after, before):
                    note_fail("operand-mutated", "a kept sum operator S gives a different S(x) after S + C, S - C, a*S, S*C were built from it",
                              {"kind": "oracle", "A": repr(T1)[:200], "terms_before": nlin, "terms_after": len(getattr(Ssum, "linops", [])),
                               "x": np.ravel(xk).tolist().__repr__()})
            except RecursionError:
                note_fail("operand-mutated", "building expressions from a kept sum operator made it refer to itself (RecursionError)", {"kind": "oracle"})
            except Exception as e:
                note_fail("overload-exception", "an overload raised %s: %s" % (type(e).__name__, str(e)[:160]), {"kind": "impl-exception", "error": repr(e)})
    # ---- malformed stream ----
    if "reject" in want:
        for _ in range(ctx.n(60, 600)):
            k, thunk, term = lingen.gen_malformed(sp, rng)
            raised = False
            try:
                thunk()
            except Exception:
                raised = True
            ctx.count(prop + ":malformed:" + k, key=term, sample={"malformed": term})
            if not raised:
                note_fail("accepted:" + k, "ill-shaped operands were combined instead of rejected", {"kind": "oracle", "term": term})
            add("chk_rejected %s" % term, "reject", {"term": term, "desc": k})
    # ---- run the Coq side ----
    failing, corr_ok = [], True
    try:
        if not ctx.make(["run/RunLinop.vo"] + opaque_std.MAKE_TARGETS):
            raise RuntimeError("run/RunLinop.vo / run/RunOpaqueStd.vo do not build")
        failing = L.run_bool_cases(ctx, prop.lower(), HEADER, cases, per_file=40, timeout=1500)
    except RuntimeError as e:
        corr_ok = False
        ctx.notes.append("correspondence could not run: %s" % str(e)[:800])
    by_cls = {}
    for cls, _ in meta:
        by_cls[cls] = by_cls.get(cls, 0) + 1
    fail_cls = {}
    for i in failing:
        fail_cls.setdefault(meta[i][0], []).append(i)
    for cls, cnt in sorted(by_cls.items()):
        ctx.obligation("corr:%s (%d cases)" % (cls, cnt), corr_ok and cls not in fail_cls)
    if std_idx:
        fs = set(failing)
        ctx.obligation("corr:library-backed leaves through their function models (%d trees)" % len(std_idx),
                       corr_ok and not any(i in fs for i in std_idx))
    ctx.coverage["opaque_trees_via_function_models"] = std_stats["trees"]
    ctx.coverage["opaque_trees_exact_gaussian_integer"] = std_stats["exact"]
    ctx.coverage["opaque_trees_split_for_cost"] = std_stats["split"]     # leaves vs function models + tree with dense leaves
    ctx.coverage["opaque_leaves_via_function_models"] = std_stats["leaves"] - std_stats["fallback"]
    ctx.coverage["opaque_leaves_via_dense_fallback"] = std_stats["fallback"]
    ctx.obligation("oracle:implementation satisfies %s on %d operators" % (prop, made), not oracle_fail)
    ctx.coverage["disagreements_model_vs_impl"] = len(failing)
    ctx.coverage["oracle_failures"] = len(oracle_fail)
    ctx.coverage["rule"] = ("seeded random operator expressions (depth 0-3) over the built-in classes with Gaussian-integer data: "
                            "compose/add/sub/scale/neg/conj/.H/Hstack/Vstack/Diag over leaves with odd/size-1 axes, negative axes, "
                            "shifts, strides, overlaps, broadcast patterns; 30% of trees also contain library-backed leaves "
                            "(FFT, NUFFT, interpolation, wavelet, convolution); a tree is non-trivial unless it is a bare Identity; "
                            "distinct = distinct serialised terms")
    for cls, (what, replay) in oracle_fail.items():
        ctx.violation("%s: %s" % (prop, what), dict(replay, facet=cls), signature="%s:%s" % (prop, cls.split(":")[0]))
    for cls, idxs in fail_cls.items():
        i = idxs[0]
        ctx.violation("%s: model and implementation disagree (%s), e.g. %s" % (prop, cls, meta[i][1].get("desc")),
                      {"kind": "correspondence", "broken": "corr:" + cls, "case": meta[i][1], "coq_expr": cases[i]["expr"][:4000],
                       "n_disagreements": len(idxs)},
                      found_input=False, signature="%s:corr:%s" % (prop, cls))
    if (not proof_ok or not corr_ok) and not ctx.violations:
        broken = getattr(ctx, "broken_proof", tie_broken or {"theorem": "corr:coq-run"})
        ctx.violation("proof obligation no longer checks: %s" % broken.get("theorem"), {"kind": "proof", "broken": broken},
                      found_input=False, signature=prop + ":proof")
    ctx.trusted += [
        "Coq 8.16.1 kernel + vm_compute (PrimFloat primitives only for running models)",
        "hand model coq/model/Linop.v of sigpy/linop.py, tied by this run's exact structural comparison (adj/normal/shapes) and value comparison; "
        "its denotation `den` also by translation of every `_apply` (gen/Gen_linop_apply.v, lemmas gen_apply_<Class>_ok): trusted there are the "
        "numpy readings of the generated PRELUDE (notes/translate_linop_apply.md)",
        "library-backed leaves (FFT, NUFFT, interpolation, wavelets, convolution) enter `den` through the standard oracle orc_std "
        "(coq/model/OpaqueStd.v: the function models of C05-C08 / C10 with the classes' argument passing), run on floats from oracle "
        "tables: DFT twiddle factors (validated in Coq), Kaiser-Bessel values and numpy.sinh at the bit-exact arguments, numpy.pi, "
        "PyWavelets' analysis / synthesis matrices measured on PyWavelets; a dense matrix measured on the implementation only for a "
        "leaf the validity predicate rejects (coverage.opaque_leaves_via_dense_fallback)",
        "vlib/linser.py serialiser",
    ]
