"""C10 — the orthogonal wavelet transform is norm-preserving and perfectly invertible.

Proof: coq/props/Prop_C10.v, a section over PyWavelets' analysis/synthesis pair W, Wr on the padded box
(oracles with the hypotheses Wr(W z) = z, <W a, W b> = <a, b>, <W a, c> = <a, Wr c>): iwt(fwt x) = x on
the box (needs crop . pad = id for the centred even padding, from the C09 window lemma), ||fwt x|| = ||x||,
iwt is the adjoint of fwt, advertised shape = shape of W on the padded shape.
Tie: hand model coq/model/Wavelet.v.  sigpy calls PyWavelets with mode='zero' on the input zero-padded
about its centre to even lengths on every axis.  The wrapper (padding, cropping, packing, dtype) is
compared EXACTLY (floats relabelled injectively by their IEEE bit patterns) with the model evaluated in Coq, where the results of the
implementation's own pywt.wavedecn / waverecn calls (recorded by wrapping those two functions inside this
process) are passed in as the data of W and Wr.
Oracle hypotheses: validated on the implementation for EVERY orthogonal wavelet PyWavelets lists
(haar, db1-38, sym2-20, coif1-17), shapes 1-3-D incl. odd lengths and lengths shorter than the filter,
axes subsets, levels None/1/2/3, real and complex input: iwt(fwt x) == x, norm preserved,
<fwt x, c> == <x, iwt c> for arbitrary c, linop Wavelet oshape == fwt(x).shape (1e-7 relative in double
precision, 1e-4 in single).
"""
import itertools
import json
import re
import time
import numpy as np
from vlib import core, coqlit as L

HEADER = """From Coq Require Import ZArith List Bool.
From SV Require Import lib.Scalar lib.NdArray model.Wavelet run.RunC10.
Import ListNotations.
Local Open Scope Z_scope.
"""

DCODE = {"float32": 0, "float64": 1, "complex64": 2, "complex128": 3}
EXPECTED_FAMILIES = (["haar"] + ["db%d" % k for k in range(1, 39)] + ["sym%d" % k for k in range(2, 21)]
                     + ["coif%d" % k for k in range(1, 18)])


def orthogonal_wavelets():
    import pywt
    names = [w for w in pywt.wavelist(kind="discrete") if pywt.Wavelet(w).orthogonal]
    # 'dmey' is a finite-length APPROXIMATION of the Meyer wavelet: flagged orthogonal by PyWavelets but not an
    # exactly orthogonal filter bank; the property is about haar/dbN/symN/coifN.
    return [w for w in names if re.fullmatch(r"haar|db\d+|sym\d+|coif\d+", w)], names


def tol_of(dt):
    return 1e-7 if dt in ("float64", "complex128") else 1e-4


# ---------------------------------------------------------------- recording the implementation's pywt calls
class Recorder:
    def __init__(self):
        import pywt
        self.pywt = pywt
        self.o_dec, self.o_rec = pywt.wavedecn, pywt.waverecn
        self.dec = self.rec = None

    def __enter__(self):
        def wavedecn(data, *a, **k):
            out = self.o_dec(data, *a, **k)
            self.dec = dict(arg=np.array(data), args=a, kw=k, out=out)
            return out

        def waverecn(coeffs, *a, **k):
            out = self.o_rec(coeffs, *a, **k)
            self.rec = dict(coeffs=coeffs, args=a, kw=k, out=np.array(out))
            return out
        self.pywt.wavedecn, self.pywt.waverecn = wavedecn, waverecn
        return self

    def __exit__(self, *a):
        self.pywt.wavedecn, self.pywt.waverecn = self.o_dec, self.o_rec


# ---------------------------------------------------------------- generators
def gen_case(rng, wname, maxlen):
    nd = rng.choice([1, 1, 2, 2, 3])
    cap = {1: maxlen, 2: max(6, maxlen // 2 + 2), 3: 5}[nd]
    shape = [rng.choice([rng.randint(1, cap), rng.randint(1, 4), 2 * rng.randint(1, max(1, cap // 2)) - rng.choice([0, 1])])
             for _ in range(nd)]
    shape = [max(1, n) for n in shape]
    if rng.random() < 0.3:
        axes = None
    else:
        sub = rng.sample(range(nd), rng.randint(1, nd))
        axes = [a if rng.random() < 0.6 else a - nd for a in sorted(sub)]
    level = rng.choice([None, None, 1, 2, 3])
    dtype = rng.choice(["float64", "complex128", "complex128", "float64", "float32", "complex64"])
    return dict(wave=wname, shape=shape, axes=axes, level=level, dtype=dtype, seed=rng.randrange(2 ** 31))


def corpus_cases():
    return [
        dict(wave="db4", shape=[5], axes=None, level=None, dtype="complex128"),
        dict(wave="db4", shape=[3, 5], axes=[1], level=2, dtype="float64"),
        dict(wave="haar", shape=[1], axes=None, level=None, dtype="float64"),
        dict(wave="haar", shape=[7, 1, 3], axes=[-1, 0], level=3, dtype="complex128"),
        dict(wave="db38", shape=[3], axes=[-1], level=1, dtype="complex128"),        # far shorter than the filter
        dict(wave="sym20", shape=[9, 2], axes=[0], level=None, dtype="complex64"),
        dict(wave="coif17", shape=[4, 5], axes=None, level=2, dtype="float32"),
    ]


def rand_array(r, shape, dtype):
    if dtype.startswith("complex"):
        return (r.randn(*shape) + 1j * r.randn(*shape)).astype(dtype)
    return r.randn(*shape).astype(dtype)


class Labeler:
    """Exact, compact encoding of float arrays for the data-movement model: every distinct IEEE-754 binary64 bit
    pattern occurring in one case gets a small integer label, +0.0 (pattern 0) is label 0 (the model's zero).
    The relabelling is injective, so exact equality of labels == bitwise equality of the floats."""

    def __init__(self):
        self.ids = {0: 0}

    def _lab(self, v):
        i = self.ids.get(v)
        if i is None:
            i = self.ids[v] = len(self.ids)
        return i

    def __call__(self, a):
        a = np.asarray(a)
        re_ = np.ascontiguousarray(np.real(a), dtype=np.float64).ravel().view(np.int64).tolist()
        if np.iscomplexobj(a):
            im_ = np.ascontiguousarray(np.imag(a), dtype=np.float64).ravel().view(np.int64).tolist()
        else:
            im_ = [0] * len(re_)
        return [(self._lab(u), self._lab(v)) for u, v in zip(re_, im_)]


def relerr(a, b):
    a = np.asarray(a); b = np.asarray(b)
    if a.shape != b.shape:
        return float("inf")
    sc = max(float(np.max(np.abs(a), initial=0.0)), float(np.max(np.abs(b), initial=0.0)), 1e-300)
    return float(np.max(np.abs(a - b), initial=0.0)) / sc


def run_case(sp, rng, c, want_coq=True):
    """Runs fwt / iwt / linop on one configuration.  Returns dict with oracle failures and Coq expressions."""
    import pywt
    from sigpy import wavelet as WV
    r = np.random.RandomState(c["seed"] if c.get("seed") is not None else rng.randrange(2 ** 31))
    shape, wave, level = c["shape"], c["wave"], c["level"]
    axes = None if c["axes"] is None else tuple(c["axes"])
    x = rand_array(r, shape, c["dtype"])
    tol = tol_of(c["dtype"])
    bad, exprs = [], []
    with Recorder() as rec:
        y = sp.fwt(x, wave_name=wave, axes=axes, level=level)
        dec = rec.dec
    adv, slices = WV.get_wavelet_shape(shape, wave_name=wave, axes=axes, level=level)
    A = sp.linop.Wavelet(shape, axes=axes, wave_name=wave, level=level)
    packed, _ = pywt.coeffs_to_array(dec["out"], axes=axes)
    cc = rand_array(r, y.shape, c["dtype"])
    with Recorder() as rec:
        z = sp.iwt(cc, shape, slices, wave_name=wave, axes=axes, level=level)
        rc = rec.rec
    seen, _ = pywt.coeffs_to_array(rc["coeffs"], axes=axes)
    xr = sp.iwt(y, shape, slices, wave_name=wave, axes=axes, level=level)
    # ---- oracle hypotheses / the property itself, on the implementation
    if dec["kw"].get("mode") != "zero" or rc["kw"].get("mode") != "zero":
        bad.append(("mode", "zero", str(dec["kw"].get("mode")), 1.0))
    e = relerr(x, xr)
    if not e <= tol:
        bad.append(("perfect-reconstruction", x, xr, e))
    nx, ny = float(np.linalg.norm(x.astype(complex))), float(np.linalg.norm(np.asarray(y).astype(complex)))
    if not abs(nx - ny) <= tol * max(nx, ny, 1e-300):
        bad.append(("norm", nx, ny, abs(nx - ny) / max(nx, 1e-300)))
    lhs, rhs = np.vdot(cc.astype(complex), np.asarray(y).astype(complex)), np.vdot(np.asarray(z).astype(complex), x.astype(complex))
    sc = max(float(np.linalg.norm(cc.astype(complex))) * nx, 1e-300)
    if not abs(lhs - rhs) <= tol * sc:
        bad.append(("adjoint", complex(lhs), complex(rhs), abs(lhs - rhs) / sc))
    if list(A.oshape) != list(y.shape) or list(adv) != list(y.shape) or list(A.ishape) != list(shape) \
            or list(A.H.oshape) != list(shape) or list(A.H.ishape) != list(y.shape):
        bad.append(("advertised-shape", list(y.shape), [list(A.oshape), list(adv), list(A.H.oshape)], 1.0))
    else:
        ya, za = A(x), A.H(cc)
        if not (np.array_equal(ya, y) and np.array_equal(za, z)):
            bad.append(("linop-apply", "fwt/iwt outputs", "linop outputs differ", max(relerr(ya, y), relerr(za, z))))
    if str(y.dtype) != c["dtype"] or str(z.dtype) != c["dtype"]:
        bad.append(("dtype", c["dtype"], [str(y.dtype), str(z.dtype)], 1.0))
    if want_coq and (x.size + 2 * dec["arg"].size + 4 * y.size + 2 * z.size + rc["out"].size) <= 1600:
        dc = DCODE[c["dtype"]]
        bits = Labeler()
        exprs.append("chk_fwt %s %s %s %s %s %s %s %s %s %s %s" % (
            L.zlist(shape), L.zzlist(bits(x)), L.zlist(dec["arg"].shape), L.zzlist(bits(dec["arg"])),
            L.zlist(packed.shape), L.zzlist(bits(packed)), L.zlist(y.shape), L.zzlist(bits(y)),
            L.zlist(A.oshape), L.z(dc), L.z(DCODE.get(str(y.dtype), 9))))
        exprs.append("chk_iwt %s %s %s %s %s %s %s %s %s %s" % (
            L.zlist(cc.shape), L.zzlist(bits(cc)), L.zzlist(bits(seen)) if seen.shape == cc.shape else "[]",
            L.zlist(rc["out"].shape), L.zzlist(bits(rc["out"])), L.zlist(shape), L.zlist(z.shape), L.zzlist(bits(z)),
            L.z(dc), L.z(DCODE.get(str(z.dtype), 9))))
    return dict(case=c, x=x, y=y, cc=cc, z=z, xr=xr, bad=bad, exprs=exprs, zshape=list(dec["arg"].shape))


def classify(c):
    fam = re.match(r"[a-z]+", c["wave"]).group(0)
    return "%s:%dD:%s:%s:%s" % (fam, len(c["shape"]), "axes" if c["axes"] is not None else "all",
                                "level%s" % c["level"], "complex" if c["dtype"].startswith("complex") else "real")


def tolist(a):
    a = np.asarray(a)
    if a.size > 4000:
        return "array of shape %s omitted (regenerated from case['seed'] by --replay)" % (list(a.shape),)
    if np.iscomplexobj(a):
        return [[float(v.real), float(v.imag)] for v in a.ravel()]
    return [float(v) for v in a.ravel()]


def run(ctx):
    ctx.source_hash("sigpy/wavelet.py", "sigpy/util.py", "sigpy/linop.py")
    # tie by translation (DESIGN 2.8): gen/Gen_wavelet.v is regenerated from wavelet.py / linop.py (translate_all job "wavelet") and
    # compiled; its lemmas gen_*_ok state generated == hand model (model/Wavelet.v, model/OpaqueWavelet.v).  notes/translate_wavelet.md
    from tools import translate_wavelet
    tie_broken = translate_wavelet.tie(ctx)  # obligations "translate:sigpy/wavelet.py (...); sigpy/linop.py (...)", "tie:generated == hand model (...)"
    t0 = time.time()
    proof_ok = ctx.prove("Prop_C10.v")
    t1 = time.time()
    sp = core.import_sigpy()
    rng = ctx.rng
    names, flagged = orthogonal_wavelets()
    ctx.obligation("wavelet list == haar, db1-38, sym2-20, coif1-17 (%d)" % len(names), sorted(names) == sorted(EXPECTED_FAMILIES))
    ctx.notes.append("PyWavelets flags %d discrete wavelets as orthogonal; not covered by the property: %s"
                     % (len(flagged), sorted(set(flagged) - set(names))))
    maxlen = ctx.n(12, 24)
    per_wave = ctx.n(9, 60)
    ncoq = ctx.n(320, 2500)
    cases = list(corpus_cases())
    for w in names:
        for _ in range(per_wave):
            cases.append(gen_case(rng, w, maxlen))
    order = list(range(len(cases)))
    coq_idx = set(range(len(corpus_cases()))) | set(rng.sample(order, min(ncoq, len(order))))
    done, oracle_bad, seen_exc = [], [], set()
    coq_cases = []
    for i, c in enumerate(cases):
        small = int(np.prod(c["shape"])) <= 220
        try:
            d = run_case(sp, rng, c, want_coq=(i in coq_idx and small))
        except Exception as e:
            ctx.count("exception", key=json.dumps(c, sort_keys=True), sample=c)
            if classify(c) not in seen_exc:
                seen_exc.add(classify(c))
                ctx.violation("fwt/iwt raised %s on a valid input" % type(e).__name__,
                              {"kind": "impl-exception", "case": c, "error": repr(e)}, signature="C10:exception:" + classify(c))
            continue
        odd = any(n % 2 for n in c["shape"])
        ctx.count(classify(c), key=json.dumps(c, sort_keys=True), nontrivial=int(np.prod(c["shape"])) > 1,
                  sample={"params": c, "padded_shape": d["zshape"], "coeff_shape": list(d["y"].shape), "odd": odd})
        done.append(d)
        for b in d["bad"]:
            oracle_bad.append((d, b))
        for k, e in enumerate(d["exprs"]):
            coq_cases.append(dict(expr=e, d=d, which="fwt" if k == 0 else "iwt"))
    t2 = time.time()
    failing, corr_ok = [], True
    try:
        if not ctx.make(["run/RunC10.vo"]):
            raise RuntimeError("run/RunC10.vo does not build")
        failing = L.run_bool_cases(ctx, "c10", HEADER, coq_cases, per_file=ctx.n(45, 200))
    except RuntimeError as e:
        corr_ok = False
        ctx.notes.append("correspondence could not run: %s" % str(e)[:500])
    ctx.notes.append("timing: prove %.0fs, implementation+oracle %.0fs, coq correspondence %.0fs" % (t1 - t0, t2 - t1, time.time() - t2))
    ctx.obligation("corr:wrapper model==impl exactly (pad, crop, packing, shapes, dtype; %d checks)" % len(coq_cases),
                   corr_ok and not failing)
    ctx.obligation("oracle:iwt(fwt x)==x, norm, adjoint, advertised shape, mode (%d configurations, %d wavelets)"
                   % (len(done), len(names)), not oracle_bad)
    ctx.coverage["rule"] = ("corpus + %d seeded configurations for each of the %d orthogonal wavelets: shapes 1-3-D, lengths 1-%d "
                            "(odd, even, shorter than the filter), axes None or a subset with negative indices, level None/1/2/3, "
                            "float64/complex128/float32/complex64 random data; wrapper correspondence on a random sub-sample; "
                            "non-trivial = more than one element; distinct = distinct parameter tuples" % (per_wave, len(names), maxlen))
    ctx.coverage["disagreements_model_vs_impl"] = len(failing)
    ctx.coverage["disagreements_oracle_vs_impl"] = len(oracle_bad)
    ctx.coverage["wavelets"] = len(names)
    reported = set()
    for d, b in oracle_bad:
        c = d["case"]
        cls = "%s:%s" % (b[0], classify(c))
        if cls in reported:
            continue
        reported.add(cls)
        ctx.violation("wavelet %s: %s fails (error %.3g)" % (c["wave"], b[0], b[3]),
                      {"kind": "oracle", "check": b[0], "case": c, "input": tolist(d["x"]), "coeff_input": tolist(d["cc"]),
                       "expected": tolist(b[1]) if isinstance(b[1], np.ndarray) else str(b[1]),
                       "observed": tolist(b[2]) if isinstance(b[2], np.ndarray) else str(b[2])},
                      signature="C10:" + cls)
    for i in failing:
        cc = coq_cases[i]
        d, c = cc["d"], cc["d"]["case"]
        cls = "corr:%s:%s" % (cc["which"], classify(c))
        if cls in reported:
            continue
        reported.add(cls)
        ctx.violation("wrapper model and implementation disagree on %s (%s)" % (cc["which"], classify(c)),
                      {"kind": "correspondence", "broken": cls, "case": c, "input": tolist(d["x"]), "coeff_input": tolist(d["cc"]),
                       "observed": tolist(d["y"] if cc["which"] == "fwt" else d["z"]),
                       "expected": "model/Wavelet.v: centred even zero-padding, pywt result passed through, centred crop"},
                      found_input=bool(d["bad"]), signature="C10:" + cls)
    if (not proof_ok or not corr_ok or tie_broken) and not ctx.violations:
        broken = getattr(ctx, "broken_proof", tie_broken or {"theorem": "corr:coq-run", "log": "; ".join(ctx.notes)[-1500:]})
        ctx.violation("proof obligation no longer checks: %s" % broken.get("theorem"),
                      {"kind": "proof", "broken": broken}, found_input=False, signature="C10:proof")
    ctx.trusted += TRUSTED
    ctx.proved += PROVED
    ctx.validated_only += VALIDATED


def replay(obj):
    sp = core.import_sigpy()
    import random
    c = obj["case"]
    d = run_case(sp, random.Random(0), c, want_coq=False)
    if isinstance(obj.get("input"), list):       # re-run on the recorded input
        from sigpy import wavelet as WV
        cplx = c["dtype"].startswith("complex")
        raw = obj["input"]
        x = np.array([complex(v[0], v[1]) for v in raw] if cplx else raw).reshape(c["shape"]).astype(c["dtype"])
        axes = None if c["axes"] is None else tuple(c["axes"])
        y = sp.fwt(x, wave_name=c["wave"], axes=axes, level=c["level"])
        _, sl = WV.get_wavelet_shape(c["shape"], wave_name=c["wave"], axes=axes, level=c["level"])
        xr = sp.iwt(y, c["shape"], sl, wave_name=c["wave"], axes=axes, level=c["level"])
        e = relerr(x, xr)
        nx, ny = float(np.linalg.norm(x)), float(np.linalg.norm(y))
        print("recorded input: reconstruction error", e, "norms", nx, ny)
        if not e <= tol_of(c["dtype"]) or not abs(nx - ny) <= tol_of(c["dtype"]) * max(nx, ny, 1e-300):
            d["bad"].append(("recorded-input", x, xr, e))
    print("case", c, "\ncoefficient shape", d["y"].shape)
    for b in d["bad"]:
        print("FAILED", b[0], "error", b[3], "\nexpected", b[1], "\nobserved", b[2])
    print("agree:", not d["bad"])
    return 1 if d["bad"] else 0


TRUSTED = [
    "Coq 8.16.1 kernel + vm_compute (no native_compute, no extraction)",
    "PyWavelets wavedecn/waverecn(mode='zero') + coeffs_to_array/array_to_coeffs for haar/dbN/symN/coifN on even-length boxes: "
    "Wr(W z) = z, <W a, W b> = <a, b>, <W a, c> = <a, Wr c> (oracle hypotheses; validated numerically by this run on every wavelet)",
    "hand model coq/model/Wavelet.v (+ model/Rearrange.v resize), tied by this run's exact correspondence; the recorder wraps "
    "pywt.wavedecn/waverecn inside the check process only (no source hook) AND by translation: tools/translate_wavelet.py regenerates "
    "get_wavelet_shape / fwt / iwt and Wavelet / InverseWavelet __init__ / _apply from the source text on every run (gen/Gen_wavelet.v) with "
    "lemmas generated == hand model at the call-by-call PyWavelets environment of model/WaveletPywt.v; trusted there: the translator's "
    "reading of the accepted Python fragment (notes/translate_wavelet.md: arrays = (shape, data), coefficient structure independent of "
    "the values, PyWavelets signatures and defaults, device transfers dropped, input.shape == ishape inside _apply)",
]
PROVED = ["see coq/props/Prop_C10.v (theorem list in obligation_list)"]
VALIDATED = ["the orthogonality / perfect-reconstruction of PyWavelets' filter banks in mode='zero' (oracle): tolerance 1e-7 (double), 1e-4 (single)",
             "get_wavelet_shape == shape of coeffs_to_array(wavedecn(.)) on the padded shape: by correspondence",
             "'dmey' (flagged orthogonal by PyWavelets, an FIR approximation) is outside the property and not checked"]
