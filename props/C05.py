"""C05 — fft / ifft are the centred unitary DFT and mutually inverse.

Proof: coq/props/Prop_C05.v over an abstract commutative *-ring with a root of unity w
(w^n = 1, sum_k w^(k m) = 0 for 0 < m < n, conj w * w = 1) and a scaling s with s*s*n = 1:
fftshift(dft(ifftshift x))[k] = sum_j x[j] w^((j - n/2)(k - n/2)) for every n >= 1 (odd and even in
one statement), ifft(fft x) = x, FFT^H = IFFT, Parseval, all lifted to any list of distinct axes of
an N-D array, axes order/sign irrelevance, centred pad/crop first (C09 window lemma), dtype table.
Tie: hand model coq/model/Fourier.v (numpy.fft = the explicit DFT sum, an oracle) evaluated inside
Coq on binary64 complex pairs with the twiddle tables supplied as data (and sanity-checked inside
Coq), compared with the implementation: values to 1e-9 (1e-4 on the complex64 paths) relative to the
largest entry, shapes and dtypes exactly.
Oracle / search on the implementation: explicit DFT matrices exp(-+2 pi i (j-n//2)(k-n//2)/n) in
numpy, ifft(fft(x)) == x, norm preservation, linop FFT/IFFT dot test and .N == Identity.
"""
import itertools
import json
import math
import numpy as np
from vlib import core, coqlit as L

HEADER = """From Coq Require Import ZArith List Bool PrimFloat.
From SV Require Import lib.Scalar lib.NdArray lib.FloatRun model.Fourier run.RunC05.
Import ListNotations.
Local Open Scope Z_scope.
"""

DTYPES = ["float32", "float64", "complex64", "complex128"]
DCODE = {"float32": 0, "float64": 1, "complex64": 2, "complex128": 3}


def out_dtype(d):
    return d if d in ("complex64", "complex128") else "complex64"


def tol_of(d):
    return 1e-9 if d == "complex128" else 1e-4


# ---------------------------------------------------------------- reference (the mathematical definition)
def ref_resize_center(x, oshape):
    out = np.zeros(oshape, dtype=x.dtype)
    for k in itertools.product(*[range(n) for n in oshape]):
        src = tuple(kk - o // 2 + i // 2 for kk, i, o in zip(k, x.shape, oshape))
        if all(0 <= s < i for s, i in zip(src, x.shape)):
            out[k] = x[src]
    return out


def dft_matrix(n, inverse, ortho, center):
    h = n // 2 if center else 0
    j = np.arange(n) - h
    e = np.outer(j, j) % n                       # exponent reduced exactly in integers
    M = np.exp((2j if inverse else -2j) * np.pi * e / n)
    if ortho:
        M = M / math.sqrt(n)
    elif inverse:
        M = M / n
    return M


def apply_axis(x, M, a):
    return np.moveaxis(np.tensordot(M, x, axes=([1], [a])), 0, a)


def end_resize(x, a, n):
    sh = list(x.shape)
    sh[a] = n
    out = np.zeros(sh, dtype=x.dtype)
    c = min(n, x.shape[a])
    sl = [slice(None)] * x.ndim
    sl[a] = slice(0, c)
    out[tuple(sl)] = x[tuple(sl)]
    return out


def ref_fft(x, inverse, center, ortho, oshape, axes):
    x = np.asarray(x).astype(np.complex128)
    nd = x.ndim
    if center:
        if oshape is not None:
            x = ref_resize_center(x, list(oshape))
        axs = range(nd) if axes is None else sorted(set(a % nd for a in axes))
        for a in axs:
            x = apply_axis(x, dft_matrix(x.shape[a], inverse, ortho, True), a)
        return x
    if axes is None:
        axl = list(range(nd - len(oshape), nd)) if oshape is not None else list(range(nd))
    else:
        axl = [a % nd for a in axes]
    sl = list(oshape) if oshape is not None else [x.shape[a] for a in axl]
    for a, n in zip(axl, sl):
        x = end_resize(x, a, n)
        x = apply_axis(x, dft_matrix(n, inverse, ortho, False), a)
    return x


# ---------------------------------------------------------------- generators
def gen_axes(rng, nd, subset=None):
    """a list of distinct axes (mod nd), random signs and order"""
    if subset is None:
        subset = rng.sample(range(nd), rng.choice([0] + list(range(1, nd + 1)) * 3))
    ax = [a if rng.random() < 0.5 else a - nd for a in subset]
    rng.shuffle(ax)
    return ax


def gen_case(rng, maxlen, maxsize, nd=None, subset="random"):
    while True:
        n_d = nd or rng.choice([1, 2, 2, 3, 3, 4])
        ish = [rng.choice([rng.randint(1, 7), rng.randint(1, maxlen)]) for _ in range(n_d)]
        center = rng.random() < 0.65
        if subset == "random":
            axes = None if rng.random() < 0.2 else gen_axes(rng, n_d)
        else:
            axes = None if subset is None else gen_axes(rng, n_d, list(subset))
        oshape = None
        if rng.random() < 0.45:
            if center:
                oshape = [rng.choice([n, n, n + 1, n + rng.randint(1, 3), max(1, n - 1), max(1, n - rng.randint(1, 3))])
                          for n in ish]
            else:
                k = n_d if axes is None else len(axes)
                base = ish if axes is None else [ish[a % n_d] for a in axes]
                oshape = [rng.choice([n, n + 1, n + 2, max(1, n - 1), max(1, n - 2)]) for n in base]
        osz = int(np.prod(oshape)) if (oshape is not None and center) else int(np.prod(ish)) * 2
        if max(int(np.prod(ish)), osz) <= maxsize:
            break
    return dict(inverse=rng.random() < 0.45, center=center, ortho=rng.random() < 0.6, ish=ish, osh=oshape, axes=axes,
                dtype=rng.choice(DTYPES + ["complex128"]))


def corpus_cases():
    c = []
    # odd length on a subset of axes: the order of the two shifts matters exactly here
    for inv in (False, True):
        c.append(dict(inverse=inv, center=True, ortho=True, ish=[3], osh=None, axes=None, dtype="complex128"))
        c.append(dict(inverse=inv, center=True, ortho=True, ish=[5, 4], osh=None, axes=[-2], dtype="complex128"))
        c.append(dict(inverse=inv, center=True, ortho=False, ish=[3, 5, 2], osh=None, axes=[2, -3], dtype="complex64"))
        c.append(dict(inverse=inv, center=True, ortho=True, ish=[3, 4], osh=[5, 3], axes=[1], dtype="float64"))
        c.append(dict(inverse=inv, center=False, ortho=True, ish=[3, 4], osh=[5, 3], axes=[1, 0], dtype="complex128"))
        c.append(dict(inverse=inv, center=False, ortho=False, ish=[7], osh=None, axes=[-1], dtype="float32"))
        c.append(dict(inverse=inv, center=True, ortho=True, ish=[1], osh=None, axes=None, dtype="complex128"))
        # the empty subset of axes: nothing is transformed (after the centre resize)
        c.append(dict(inverse=inv, center=True, ortho=True, ish=[3, 2], osh=None, axes=[], dtype="complex128"))
        c.append(dict(inverse=inv, center=True, ortho=False, ish=[4], osh=[6], axes=[], dtype="complex64"))
        c.append(dict(inverse=inv, center=False, ortho=True, ish=[2, 3], osh=None, axes=[], dtype="complex128"))
        c.append(dict(inverse=inv, center=True, ortho=True, ish=[1, 6], osh=[2, 7], axes=None, dtype="complex128"))
    return c


def make_input(rng, c):
    seed = rng.randrange(2 ** 31)
    r = np.random.RandomState(seed)
    sh = c["ish"]
    kind = rng.random()
    if c["dtype"].startswith("complex"):
        x = r.randn(*sh) + 1j * r.randn(*sh)
        if kind < 0.12:          # a delta away from the centre
            x = np.zeros(sh, dtype=complex)
            x[tuple(rng.randrange(n) for n in sh)] = 1 + 0.5j
    else:
        x = r.randn(*sh)
        if kind < 0.12:
            x = np.zeros(sh)
            x[tuple(rng.randrange(n) for n in sh)] = 1.0
    return x.astype(c["dtype"])


ARG_MUTATED = []      # (case, what) when a call rewrote a list the caller passed


def call_impl(sp, c, x):
    f = sp.ifft if c["inverse"] else sp.fft
    # axes / oshape are handed over as tuples or (every other call) as LISTS the caller keeps: they must come back unchanged
    as_list = (len(c["ish"]) + int(c["center"]) + int(c["inverse"])) % 2 == 0
    conv = list if as_list else tuple
    osh = None if c["osh"] is None else conv(c["osh"])
    axes = None if c["axes"] is None else conv(c["axes"])
    out = f(x, oshape=osh, axes=axes, center=c["center"], norm="ortho" if c["ortho"] else None)
    if as_list and ((axes is not None and list(axes) != list(c["axes"])) or (osh is not None and list(osh) != list(c["osh"]))):
        ARG_MUTATED.append((dict(c), "axes %r -> %r, oshape %r -> %r" % (c["axes"], axes, c["osh"], osh)))
    return out


def tw_table(lengths):
    rows = []
    for n in sorted(set(int(v) for v in lengths)):
        tws = "[" + "; ".join("(%s, %s)" % (L.flt(math.cos(2 * math.pi * m / n)), L.flt(-math.sin(2 * math.pi * m / n)))
                              for m in range(n)) + "]"
        rows.append("(%s, (%s, (%s, %s)))" % (L.z(n), tws, L.flt(1.0 / math.sqrt(n)), L.flt(1.0 / n)))
    return "[" + "; ".join(rows) + "]"


def coq_expr(c, x, y):
    lengths = list(c["ish"]) + (list(c["osh"]) if c["osh"] is not None else [])
    return "chk_fft %s %s %s %s %s %s %s %s %s %s %s %s %s" % (
        L.boolean(c["inverse"]), L.boolean(c["center"]), L.boolean(c["ortho"]), L.zlist(c["ish"]),
        L.zlist_opt(c["osh"]), L.zlist_opt(c["axes"]), tw_table(lengths), L.flt(tol_of(c["dtype"])),
        L.z(DCODE[c["dtype"]]), L.z(DCODE.get(str(y.dtype), 4)), L.cflist(np.asarray(x).ravel()),
        L.zlist(y.shape), L.cflist(np.asarray(y).ravel()))


def relerr(a, b):
    a = np.asarray(a); b = np.asarray(b)
    if a.shape != b.shape:
        return float("inf")
    sc = max(float(np.max(np.abs(a), initial=0.0)), float(np.max(np.abs(b), initial=0.0)), 1e-300)
    return float(np.max(np.abs(a - b), initial=0.0)) / sc


def classify(c):
    return "%s:%s:%s:%s:%s" % ("ifft" if c["inverse"] else "fft", "center" if c["center"] else "plain",
                               "ortho" if c["ortho"] else "none", "oshape" if c["osh"] is not None else "same",
                               "axes" if c["axes"] is not None else "all")


def oracle_checks(sp, c, x, y):
    """Returns a list of (kind, expected, observed, err) for failed oracle checks on one case."""
    bad = []
    tol = tol_of(c["dtype"])
    ref = ref_fft(x, c["inverse"], c["center"], c["ortho"], c["osh"], c["axes"])
    e = relerr(ref, y)
    if not e <= tol:
        bad.append(("dft-matrix", ref, y, e))
    if str(y.dtype) != out_dtype(c["dtype"]):
        bad.append(("dtype", out_dtype(c["dtype"]), str(y.dtype), 1.0))
    if c["osh"] is None:
        c2 = dict(c, inverse=not c["inverse"])
        back = call_impl(sp, c2, y)
        xe = x.astype(out_dtype(c["dtype"]))
        e = relerr(xe, back)
        if not e <= 10 * tol:
            bad.append(("round-trip", xe, back, e))
        if c["ortho"]:
            nx, ny = float(np.linalg.norm(xe.astype(complex))), float(np.linalg.norm(np.asarray(y).astype(complex)))
            if not abs(nx - ny) <= 10 * tol * max(nx, ny, 1e-300):
                bad.append(("norm", nx, ny, abs(nx - ny)))
    return bad


def linop_checks(sp, rng, c):
    """dot test FFT.H == IFFT, FFT.N == Identity on the shape/axes/center of the case (complex128 data)."""
    r = np.random.RandomState(rng.randrange(2 ** 31))
    sh = c["ish"]
    cls = sp.linop.IFFT if c["inverse"] else sp.linop.FFT
    A = cls(sh, axes=None if c["axes"] is None else tuple(c["axes"]), center=c["center"])
    x = r.randn(*sh) + 1j * r.randn(*sh)
    y = r.randn(*sh) + 1j * r.randn(*sh)
    bad = []
    lhs = np.vdot(y, A(x))
    rhs = np.vdot(A.H(y), x)
    sc = max(abs(lhs), abs(rhs), float(np.linalg.norm(x) * np.linalg.norm(y)), 1e-300)
    if not abs(lhs - rhs) <= 1e-9 * sc:
        bad.append(("linop-adjoint", complex(lhs), complex(rhs), abs(lhs - rhs) / sc, x, y))
    for nm, z in (("linop-normal", A.N(x)), ("linop-AHA", A.H(A(x)))):
        e = relerr(x, z)
        if not e <= 1e-9:
            bad.append((nm, x, z, e, x, y))
    if list(A.oshape) != list(sh) or list(A.H.oshape) != list(sh):
        bad.append(("linop-shape", list(sh), list(A.oshape), 1.0, x, y))
    return bad


def tolist(a):
    a = np.asarray(a)
    if np.iscomplexobj(a):
        return [[float(v.real), float(v.imag)] for v in a.ravel()]
    return [float(v) for v in a.ravel()]


def run(ctx):
    ctx.source_hash("sigpy/fourier.py", "sigpy/util.py", "sigpy/linop.py")
    proof_ok = ctx.prove("Prop_C05.v")
    # tie by translation (DESIGN 2.8): gen/Gen_fourier.v is regenerated from fourier.py (translate_all job "fourier") and compiled;
    # the lemmas gen__fftc_ok, gen__ifftc_ok, gen_fft_ok, gen_ifft_ok, gen_fft_dtype_ok, gen_ifft_dtype_ok state generated == hand model
    from tools import translate_fourier
    tie_broken = translate_fourier.tie(ctx, "fft")    # obligations "translate:sigpy/fourier.py (...)", "tie:generated == hand model (...)"
    sp = core.import_sigpy()
    rng = ctx.rng
    maxlen = ctx.n(7, 16)
    maxsize = ctx.n(400, 2500)
    cases = list(corpus_cases())
    # systematic part: every axes subset of every rank 1..4, both centre modes
    for nd in (1, 2, 3, 4):
        subsets = [None] + [s for k in range(0, nd + 1) for s in itertools.combinations(range(nd), k)]
        for s in subsets:
            for _ in range(ctx.n(2, 6)):
                cases.append(gen_case(rng, maxlen, ctx.n(200, 1200), nd=nd, subset=s))
    # call SEQUENCES: consecutive centred calls with the same oshape, dtype and mode but different input shapes (the cases are
    # run in list order in one process, so anything one call leaves behind for the next shows up as a wrong value)
    for _ in range(ctx.n(14, 150)):
        nd = rng.choice([1, 1, 2, 2, 3])
        osh = [rng.randint(2, 8) for _ in range(nd)]
        base = dict(inverse=rng.random() < 0.5, center=True, ortho=rng.random() < 0.6, osh=osh,
                    axes=None if rng.random() < 0.5 else gen_axes(rng, nd), dtype=rng.choice(["complex128", "complex64", "float64"]))
        shapes = [[rng.randint(max(1, o - 3), o) for o in osh] for _ in range(3)]
        shapes.sort(key=lambda s_: -int(np.prod(s_)))           # larger first, then smaller ones
        if rng.random() < 0.3:
            shapes.append([o + rng.randint(0, 2) for o in osh])
        for ish in shapes:
            cases.append(dict(base, ish=ish))
    # large arrays (>= 65536 elements) with even lengths n whose n/2 is odd or even: any size-dependent code path is judged by the
    # closed form too (numpy reference only; not sent through Coq)
    big_cases = []
    # (lengths n with n/2 odd and with n/2 even, so that the sum of the half-lengths over the transformed axes is odd for some and
    #  even for others)
    for shape, inv in (([258, 256], False), ([2, 33000], True), ([66, 1024], False), ([258, 258], True), ([130, 512], True), ([256, 256], False),
                       ([130, 514], False), ([66, 1026], True)):
        big_cases.append(dict(inverse=inv, center=True, ortho=bool(len(big_cases) % 2), ish=shape, osh=None,
                              axes=None if len(big_cases) % 3 else [-1, -2], dtype="complex128"))
    n = max(ctx.n(360, 6000), len(cases) + 100)
    while len(cases) < n:
        cases.append(gen_case(rng, maxlen, maxsize))
    done, oracle_bad, linop_bad = [], [], []
    exc_seen = set()
    for c in cases:
        x = make_input(rng, c)
        try:
            y = np.asarray(call_impl(sp, c, x))
        except Exception as e:
            ctx.count("exception", key=json.dumps(c, sort_keys=True), sample=c)
            if classify(c) in exc_seen:
                continue
            exc_seen.add(classify(c))
            ctx.violation("%s raised %s on a valid input" % ("ifft" if c["inverse"] else "fft", type(e).__name__),
                          {"kind": "impl-exception", "case": c, "input": tolist(x), "error": repr(e)},
                          signature="C05:exception:" + classify(c))
            continue
        nontriv = x.size > 1 and any((n_ > 1) for n_ in y.shape)
        ctx.count(classify(c), key=json.dumps(c, sort_keys=True), nontrivial=nontriv,
                  sample={"params": c, "input": tolist(x)[:6], "output": tolist(y)[:6], "out_dtype": str(y.dtype)})
        d = dict(case=c, x=x, y=y, expr=coq_expr(c, x, y))
        done.append(d)
        for b in oracle_checks(sp, c, x, y):
            oracle_bad.append((d, b))
        # the same values in another memory layout: same transform
        if len(done) % 3 == 0:
            from vlib import layouts
            for tag, xv in layouts.variants(x, rng, k=1):
                try:
                    yv = np.asarray(call_impl(sp, c, xv))
                except Exception as e:
                    oracle_bad.append((d, ("layout-exception:" + tag, "no exception", repr(e), 1.0)))
                    continue
                ctx.count("layout:" + tag, key=json.dumps(c, sort_keys=True) + tag, nontrivial=nontriv)
                e = relerr(y, yv) if yv.shape == y.shape else 1.0
                if not e <= 10 * tol_of(c["dtype"]):
                    oracle_bad.append((d, ("layout:" + tag, y, yv, e)))
    for c in big_cases[:ctx.n(6, 10)]:
        r_ = np.random.RandomState(len(c["ish"]) + c["ish"][0])
        xb = r_.randn(*c["ish"]) + 1j * r_.randn(*c["ish"])
        ax = tuple(range(xb.ndim)) if c["axes"] is None else tuple(c["axes"])
        nf = np.fft.ifftn if c["inverse"] else np.fft.fftn
        refb = np.fft.fftshift(nf(np.fft.ifftshift(xb, axes=ax), axes=ax, norm="ortho" if c["ortho"] else None), axes=ax)
        yb = np.asarray(call_impl(sp, c, xb))
        ctx.count("large:%s" % ("ifft" if c["inverse"] else "fft"), key=json.dumps(c), nontrivial=True)
        e = relerr(refb, yb) if yb.shape == refb.shape else 1.0
        if not e <= 1e-9:
            oracle_bad.append((dict(case=c, x=xb[:2, :2], y=yb[:2, :2], expr=None), ("large-array", "centred DFT of a %s array" % (c["ish"],), "relative error %.3g" % e, e)))
    for cm, what in ARG_MUTATED[:3]:
        oracle_bad.append((dict(case=cm, x=np.zeros(1), y=np.zeros(1), expr=None), ("argument-rewritten", "axes / oshape lists unchanged by the call", what, 1.0)))
    del ARG_MUTATED[:]
    # linop FFT/IFFT: adjoint dot test and normal operator, on the shapes/axes of a sub-sample
    nl = 0
    for d in done:
        c = d["case"]
        if c["osh"] is None and nl < ctx.n(150, 1500):
            nl += 1
            ctx.count("linop:" + ("IFFT" if c["inverse"] else "FFT"), key=json.dumps([c["ish"], c["axes"], c["center"]]),
                      nontrivial=int(np.prod(c["ish"])) > 1)
            for b in linop_checks(sp, rng, c):
                linop_bad.append((d, b))
    # implementation vs the Coq model
    failing, corr_ok = [], True
    try:
        if not ctx.make(["run/RunC05.vo"]):
            raise RuntimeError("run/RunC05.vo does not build")
        failing = L.run_bool_cases(ctx, "c05", HEADER, done, per_file=ctx.n(30, 150))
    except RuntimeError as e:
        corr_ok = False
        ctx.notes.append("correspondence could not run: %s" % str(e)[:500])
    ctx.obligation("corr:model==impl values+shape+dtype (%d cases)" % len(done), corr_ok and not failing)
    ctx.obligation("oracle:impl==explicit DFT matrix, round trip, norm, dtype (%d cases)" % len(done), not oracle_bad)
    ctx.obligation("oracle:linop FFT/IFFT adjoint dot test, N==Identity (%d operators)" % nl, not linop_bad)
    ctx.coverage["rule"] = ("corpus + every axes subset (random signs/order) of every rank 1-4 in both centre modes + seeded random "
                            "cases: lengths 1-%d, fft/ifft, center True/False, norm ortho/None, oshape larger/smaller/equal per axis "
                            "(centred: any axis; plain: numpy's s along the axes), dtypes float32/float64/complex64/complex128, "
                            "random and delta inputs; non-trivial = more than one element and some output axis longer than 1; "
                            "distinct = distinct parameter tuples" % maxlen)
    ctx.coverage["disagreements_model_vs_impl"] = len(failing)
    ctx.coverage["disagreements_oracle_vs_impl"] = len(oracle_bad) + len(linop_bad)
    reported = set()
    for d, b in oracle_bad:
        c = d["case"]
        cls = "%s:%s" % (b[0], classify(c))
        if cls in reported:
            continue
        reported.add(cls)
        ctx.violation("%s differs from the definition (%s), rel. error %.3g" % ("ifft" if c["inverse"] else "fft", b[0], b[3]),
                      {"kind": "oracle", "check": b[0], "case": c, "input": tolist(d["x"]),
                       "observed": tolist(b[2]) if isinstance(b[2], np.ndarray) else b[2],
                       "expected": tolist(b[1]) if isinstance(b[1], np.ndarray) else b[1]},
                      signature="C05:" + cls)
    for d, b in linop_bad:
        c = d["case"]
        cls = "%s:%s" % (b[0], "center" if c["center"] else "plain")
        if cls in reported:
            continue
        reported.add(cls)
        ctx.violation("linop %s fails %s" % ("IFFT" if c["inverse"] else "FFT", b[0]),
                      {"kind": "linop", "check": b[0], "case": c, "input": tolist(b[4]), "input_y": tolist(b[5]),
                       "expected": str(b[1]) if not isinstance(b[1], np.ndarray) else tolist(b[1]),
                       "observed": str(b[2]) if not isinstance(b[2], np.ndarray) else tolist(b[2])},
                      signature="C05:" + cls)
    for i in failing:
        d = done[i]
        c = d["case"]
        cls = "corr:" + classify(c)
        if cls in reported:
            continue
        reported.add(cls)
        ob = oracle_checks(sp, c, d["x"], d["y"])
        ctx.violation("model and implementation disagree on %s" % classify(c),
                      {"kind": "correspondence", "broken": cls, "case": c, "input": tolist(d["x"]),
                       "observed": tolist(d["y"]), "observed_shape": list(d["y"].shape), "observed_dtype": str(d["y"].dtype),
                       "expected": tolist(ref_fft(d["x"], c["inverse"], c["center"], c["ortho"], c["osh"], c["axes"]))},
                      found_input=bool(ob), signature="C05:" + cls)
    if (not proof_ok or not corr_ok or tie_broken) and not any(v["found_input"] for v in ctx.violations):
        broken = getattr(ctx, "broken_proof", tie_broken or {"theorem": "corr:coq-run", "log": "; ".join(ctx.notes)[-1500:]})
        ctx.violation("proof obligation no longer checks: %s" % broken.get("theorem"),
                      {"kind": "proof", "broken": broken}, found_input=False, signature="C05:proof")
    ctx.trusted += TRUSTED
    ctx.proved += PROVED
    ctx.validated_only += VALIDATED


def replay(obj):
    sp = core.import_sigpy()
    import random
    c = obj["case"]
    cplx = c["dtype"].startswith("complex")
    raw = obj.get("input")
    if raw is None:
        x = make_input(random.Random(0), c)
    else:
        x = np.array([complex(v[0], v[1]) for v in raw] if cplx else raw).reshape(c["ish"]).astype(c["dtype"])
    rc = 0
    try:
        y = np.asarray(call_impl(sp, c, x))
    except Exception as e:
        print("case", c, "raised", repr(e))
        return 1
    bad = oracle_checks(sp, c, x, y)
    if obj.get("kind") == "linop":
        bad += [(b[0], b[1], b[2], b[3]) for b in linop_checks(sp, random.Random(0), c)]
    print("case", c, "\noutput shape", y.shape, "dtype", y.dtype)
    for b in bad:
        print("FAILED", b[0], "error", b[3], "\nexpected", b[1], "\nobserved", b[2])
        rc = 1
    print("agree:", rc == 0)
    return rc


TRUSTED = [
    "Coq 8.16.1 kernel + vm_compute on PrimFloat (no native_compute, no extraction)",
    "numpy.fft.fftn/ifftn compute the explicit DFT sum with the documented scalings, fftshift/ifftshift = roll by n//2 / -(n//2) "
    "(oracle; exercised by this run's correspondence and by the explicit DFT-matrix comparison)",
    "hand model coq/model/Fourier.v (+ model/Rearrange.v resize), tied by this run's correspondence and, as the reading of fft / ifft / "
    "_fftc / _ifftc, by tools/translate_fourier.py (fail-closed ast translator, readings in notes/translate_fourier.md) + the lemmas of "
    "gen/Gen_fourier.v (part fft)",
    "twiddle tables cos/sin(2 pi m/n) computed in Python, validated inside Coq (group law, unit modulus, orientation)",
    "the abstract ring theorems apply to C with w = exp(-2 pi i/n) (root-of-unity hypotheses are the section hypotheses)",
]
PROVED = ["see coq/props/Prop_C05.v (theorem list in obligation_list)"]
VALIDATED = ["numpy's FFT equals the DFT sum (oracle): correspondence + DFT-matrix oracle only",
             "center=False with an explicit oshape (numpy end pad/crop): model == implementation by correspondence only",
             "floating-point accuracy (1e-9 / 1e-4 relative to the largest entry) is validated, not proved"]
