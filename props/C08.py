"""C08 — convolve matches the convolution definition; convolve_data_adjoint / convolve_filter_adjoint are exact adjoints.

Proof: coq/props/Prop_C08.v over an arbitrary commutative *-ring, about the hand model coq/model/Conv.v of
sigpy.conv (_convolve, _convolve_data_adjoint, _convolve_filter_adjoint, with _get_convolve_params from
model/Linop.v), scipy.signal.convolve/correlate being oracles with recorded specifications.
Tie: exact correspondence on Gaussian integers (model evaluated in Coq by vm_compute) for D = 1..3, both modes,
strides, batch shapes, channels, real and complex; the scipy specifications themselves are compared with the
real scipy; malformed stream: implementation raises iff the model returns Err.
Oracle on the implementation: brute-force definition in numpy, complex dot tests, bilinearity.
"""
import itertools
import json
import numpy as np
from vlib import core, coqlit as L

HEADER = """From Coq Require Import ZArith List Bool.
From SV Require Import lib.Scalar lib.NdArray model.Block run.RunC08.
Import ListNotations.
Local Open Scope Z_scope.
"""


# ---------------------------------------------------------------- the documented definition (numpy, brute force)
def params_doc(dshape, fshape, mode, strides, mc):
    D = len(fshape) - 2 * mc
    m = list(dshape[len(dshape) - D:])
    n = list(fshape[len(fshape) - D:])
    b = list(dshape[:len(dshape) - D - mc])
    ci = fshape[-D - 1] if mc else 1
    co = fshape[-D - 2] if mc else 1
    s = [1] * D if strides is None else list(strides)
    if mode == "full":
        Lf = [a + c - 1 for a, c in zip(m, n)]
        off = [0] * D
    else:
        Lf = [a - c + 1 for a, c in zip(m, n)]
        off = [c - 1 for c in n]
    p = [-(-l // sd) for l, sd in zip(Lf, s)]
    return D, b, m, n, s, ci, co, p, off


def ref_convolve(data, filt, mode, strides, mc):
    D, b, m, n, s, ci, co, p, off = params_doc(data.shape, filt.shape, mode, strides, mc)
    d2 = data.reshape([int(np.prod(b))] + [ci] + m)
    f2 = filt.reshape([co, ci] + n)
    out = np.zeros([d2.shape[0], co] + p, dtype=np.result_type(data.dtype, filt.dtype))
    for x in np.ndindex(*p):
        for t in np.ndindex(*n):
            u = tuple(sd * xx - tt + oo for sd, xx, tt, oo in zip(s, x, t, off))
            if all(0 <= uu < mm for uu, mm in zip(u, m)):
                # out[:, co, x] += sum_ci data[:, ci, u] * filt[co, ci, t]
                out[(slice(None), slice(None)) + x] += d2[(slice(None), slice(None)) + u] @ f2[(slice(None), slice(None)) + t].T
    return out.reshape(b + ([co] if mc else []) + p)


def ref_data_adjoint(y, filt, dshape, mode, strides, mc):
    D, b, m, n, s, ci, co, p, off = params_doc(dshape, filt.shape, mode, strides, mc)
    y2 = y.reshape([int(np.prod(b)), co] + p)
    f2 = filt.reshape([co, ci] + n)
    out = np.zeros([y2.shape[0], ci] + m, dtype=np.result_type(y.dtype, filt.dtype))
    for x in np.ndindex(*p):
        for t in np.ndindex(*n):
            u = tuple(sd * xx - tt + oo for sd, xx, tt, oo in zip(s, x, t, off))
            if all(0 <= uu < mm for uu, mm in zip(u, m)):
                out[(slice(None), slice(None)) + u] += y2[(slice(None), slice(None)) + x] @ np.conj(f2[(slice(None), slice(None)) + t])
    return out.reshape(dshape)


def ref_filter_adjoint(y, data, fshape, mode, strides, mc):
    D, b, m, n, s, ci, co, p, off = params_doc(data.shape, fshape, mode, strides, mc)
    y2 = y.reshape([int(np.prod(b)), co] + p)
    d2 = data.reshape([int(np.prod(b)), ci] + m)
    out = np.zeros([co, ci] + n, dtype=np.result_type(y.dtype, data.dtype))
    for x in np.ndindex(*p):
        for t in np.ndindex(*n):
            u = tuple(sd * xx - tt + oo for sd, xx, tt, oo in zip(s, x, t, off))
            if all(0 <= uu < mm for uu, mm in zip(u, m)):
                out[(slice(None), slice(None)) + t] += y2[(slice(None), slice(None)) + x].T @ np.conj(d2[(slice(None), slice(None)) + u])
    return out.reshape(fshape)


# ---------------------------------------------------------------- generators
def gen_shapes(rng, force_rel=None):
    D = rng.choice([1, 1, 1, 2, 2, 3])
    maxm = {1: 7, 2: 4, 3: 3}[D]
    mode = rng.choice(["full", "valid"])
    rel = force_rel or rng.choice(["shorter", "shorter", "equal", "longer", "any"])
    m, n = [], []
    for _ in range(D):
        a = rng.randint(1, maxm)
        if rel == "shorter":
            c = rng.randint(1, a)
        elif rel == "equal":
            c = a
        elif rel == "longer":
            c = rng.randint(a, maxm + 1)
        else:
            c = rng.randint(1, maxm)
        m.append(a); n.append(c)
    mc = rng.random() < 0.6
    ci = rng.randint(1, 3) if mc else 1
    co = rng.randint(1, 3) if mc else 1
    b = [rng.randint(1, 3) for _ in range(rng.choice([0, 0, 1, 1, 2]))]
    if D == 3 and len(b) == 2:
        b = b[:1]
    strides = None if rng.random() < 0.3 else [rng.randint(1, 4) for _ in range(D)]
    dshape = b + ([ci] if mc else []) + m
    fshape = ([co, ci] if mc else []) + n
    return dict(D=D, mode=mode, mc=mc, strides=strides, dshape=dshape, fshape=fshape, rel=rel)


def relation(c):
    D = c["D"]
    m = c["dshape"][len(c["dshape"]) - D:]
    n = c["fshape"][len(c["fshape"]) - D:]
    ge = [a >= b for a, b in zip(m, n)]
    lt = [a < b for a, b in zip(m, n)]
    if any(ge) and any(lt):
        return "mixed"
    if all(ge):
        return "m>=n"
    return "n>m"


def gen_case(rng):
    while True:
        c = gen_shapes(rng)
        r = relation(c)
        if c["mode"] == "valid" and r == "mixed":
            continue          # belongs to the malformed stream
        break
    c["op"] = rng.choice(["convolve", "convolve", "data_adjoint", "filter_adjoint"])
    c["cplx"] = rng.choice(["rr", "cc", "cc", "cr"])       # dtype of (first array, captured array)
    return c


def intarr(rng, shape, cplx):
    n = int(np.prod(shape))
    a = np.array([rng.randint(-3, 3) for _ in range(n)], dtype=np.float64).reshape(shape)
    if cplx:
        a = a + 1j * np.array([rng.randint(-3, 3) for _ in range(n)], dtype=np.float64).reshape(shape)
    return a


def gz(a):
    a = np.asarray(a).ravel()
    return L.zzlist([(int(round(complex(v).real)), int(round(complex(v).imag))) for v in a])


def is_int(a):
    a = np.asarray(a)
    return bool(np.all(np.abs(a.real - np.rint(a.real)) < 1e-9) and np.all(np.abs(np.imag(a) - np.rint(np.imag(a))) < 1e-9))


def coq_args(c):
    return "%s %s %s" % (L.boolean(c["mode"] == "full"), L.zlist_opt(c["strides"]), L.boolean(c["mc"]))


def oshape_doc(c):
    D, b, m, n, s, ci, co, p, off = params_doc(c["dshape"], c["fshape"], c["mode"], c["strides"], c["mc"])
    return b + ([co] if c["mc"] else []) + p


def run_case(sp, rng, c, arrays=None):
    """run one admissible case; returns dict(inputs, y, ref, expr)"""
    op, mode, st, mc = c["op"], c["mode"], c["strides"], c["mc"]
    osh = oshape_doc(c)
    c1, c2 = c["cplx"][0] == "c", c["cplx"][1] == "c"
    if op == "convolve":
        a = arrays[0] if arrays else intarr(rng, c["dshape"], c1)
        f = arrays[1] if arrays else intarr(rng, c["fshape"], c2 and c1)    # complex filter needs complex data (dtype of output = data.dtype)
        y = sp.convolve(a, f, mode=mode, strides=st, multi_channel=mc)
        ref = ref_convolve(a, f, mode, st, mc)
        expr = "chk_convolve %s %s %s %s %s %s %s" % (L.zlist(c["dshape"]), L.zlist(c["fshape"]), coq_args(c), gz(a), gz(f),
                                                     L.zlist(y.shape), gz(y))
    elif op == "data_adjoint":
        a = arrays[0] if arrays else intarr(rng, osh, c1)
        f = arrays[1] if arrays else intarr(rng, c["fshape"], c2 and c1)
        y = sp.convolve_data_adjoint(a, f, c["dshape"], mode=mode, strides=st, multi_channel=mc)
        ref = ref_data_adjoint(a, f, c["dshape"], mode, st, mc)
        expr = "chk_data_adjoint %s %s %s %s %s %s %s %s" % (L.zlist(osh), L.zlist(c["fshape"]), L.zlist(c["dshape"]), coq_args(c),
                                                             gz(a), gz(f), L.zlist(y.shape), gz(y))
    else:
        a = arrays[0] if arrays else intarr(rng, osh, c1)
        f = arrays[1] if arrays else intarr(rng, c["dshape"], c2 and c1)
        y = sp.convolve_filter_adjoint(a, f, c["fshape"], mode=mode, strides=st, multi_channel=mc)
        ref = ref_filter_adjoint(a, f, c["fshape"], mode, st, mc)
        expr = "chk_filter_adjoint %s %s %s %s %s %s %s %s" % (L.zlist(osh), L.zlist(c["dshape"]), L.zlist(c["fshape"]), coq_args(c),
                                                               gz(a), gz(f), L.zlist(y.shape), gz(y))
    return dict(a=a, f=f, y=np.asarray(y), ref=ref, expr=expr)


def cls_of(c):
    return "%s:%s:%dD:%s" % (c["op"], c["mode"], c["D"], "mc" if c["mc"] else "sc")


def describe(c):
    return {k: c[k] for k in ("op", "D", "mode", "mc", "strides", "dshape", "fshape", "cplx") if k in c}


# ---------------------------------------------------------------- dot tests and bilinearity (complex floats)
def dot_tests(sp, nrng, c):
    """returns list of (name, error) that exceed tolerance"""
    mode, st, mc = c["mode"], c["strides"], c["mc"]
    osh = oshape_doc(c)
    rnd = lambda sh: nrng.standard_normal(sh) + 1j * nrng.standard_normal(sh)
    d, f, y = rnd(c["dshape"]), rnd(c["fshape"]), rnd(osh)
    bad = []
    Ad = sp.convolve(d, f, mode=mode, strides=st, multi_channel=mc)
    lhs = np.vdot(y, Ad)                                            # <conv(d,f), y>
    r1 = np.vdot(sp.convolve_data_adjoint(y, f, c["dshape"], mode=mode, strides=st, multi_channel=mc), d)
    r2 = np.vdot(sp.convolve_filter_adjoint(y, d, c["fshape"], mode=mode, strides=st, multi_channel=mc), f)
    scale = 1 + abs(lhs)
    if abs(lhs - r1) > 1e-9 * scale:
        bad.append(("dot-data", float(abs(lhs - r1) / scale)))
    if abs(lhs - r2) > 1e-9 * scale:
        bad.append(("dot-filter", float(abs(lhs - r2) / scale)))
    d2, f2 = rnd(c["dshape"]), rnd(c["fshape"])
    al = complex(nrng.standard_normal(), nrng.standard_normal())
    e1 = sp.convolve(al * d + d2, f, mode=mode, strides=st, multi_channel=mc) - (al * Ad + sp.convolve(d2, f, mode=mode, strides=st, multi_channel=mc))
    e2 = sp.convolve(d, al * f + f2, mode=mode, strides=st, multi_channel=mc) - (al * Ad + sp.convolve(d, f2, mode=mode, strides=st, multi_channel=mc))
    for nm, e in (("bilinear-data", e1), ("bilinear-filter", e2)):
        if e.size and np.abs(e).max() > 1e-9 * (1 + np.abs(Ad).max()):
            bad.append((nm, float(np.abs(e).max())))
    return bad, (d, f, y)


# ---------------------------------------------------------------- scipy specification checks
def sp_spec_cases(rng, n):
    import scipy.signal as sig
    out = []
    for _ in range(n):
        D = rng.choice([1, 1, 2, 3])
        mx = {1: 6, 2: 4, 3: 3}[D]
        sa = [rng.randint(1, mx) for _ in range(D)]
        sv = [rng.randint(1, mx) for _ in range(D)]
        full = rng.random() < 0.4
        fn = rng.choice(["convolve", "correlate", "correlate"])
        cp = rng.random() < 0.6
        a, v = intarr(rng, sa, cp), intarr(rng, sv, cp)
        ge = all(x >= y for x, y in zip(sa, sv)); le = all(y >= x for x, y in zip(sa, sv))
        f = sig.convolve if fn == "convolve" else sig.correlate
        try:
            y = f(a, v, mode="full" if full else "valid")
            raised = False
        except ValueError:
            raised = True
        if raised:
            expr = "chk_sp_reject %s %s %s" % (L.boolean(full), L.zlist(sa), L.zlist(sv))
        else:
            expr = "chk_sp_%s %s %s %s %s %s %s %s" % (fn, L.boolean(full), L.zlist(sa), L.zlist(sv), gz(a), gz(v), L.zlist(y.shape), gz(y))
        out.append(dict(expr=expr, kind="sp:%s:%s:%s" % (fn, "full" if full else "valid", "raise" if raised else ("a>=v" if ge else "a<v" if le else "?")),
                        sa=sa, sv=sv, full=full, fn=fn, ok_int=raised or is_int(y)))
    return out


# ---------------------------------------------------------------- malformed stream
def gen_malformed(rng):
    kind = rng.choice(["mixed", "mixed", "channel", "strides", "out-size", "valid-n>m"])
    while True:
        c = gen_shapes(rng, force_rel="any" if kind in ("mixed", "valid-n>m") else "shorter")
        D = c["D"]
        if kind == "mixed":
            c["mode"] = "valid"
            if relation(c) != "mixed":
                continue
        elif kind == "valid-n>m":
            c["mode"] = "valid"
            if relation(c) != "n>m":
                continue
        elif kind == "channel":
            if not c["mc"]:
                continue
            k = len(c["dshape"]) - D - 1
            c["dshape"] = list(c["dshape"]); c["dshape"][k] += rng.choice([1, 2])
        elif kind == "strides":
            L0 = rng.choice([l for l in (0, 1, 2, 3, 4) if l != D])
            c["strides"] = [rng.randint(1, 3) for _ in range(L0)]
        elif kind == "out-size":
            pass
        break
    c["kind"] = kind
    c["op"] = rng.choice(["convolve", "data_adjoint", "filter_adjoint"]) if kind != "out-size" else rng.choice(["data_adjoint", "filter_adjoint"])
    return c


def run_malformed(sp, rng, c):
    """returns (raised: bool or None when the case class is exempt, coq expr for `model returns Err`, info)"""
    kind, op, mode, st, mc = c["kind"], c["op"], c["mode"], c["strides"], c["mc"]
    args = coq_args(c)
    if kind == "valid-n>m":
        # function level: exempt (documented swapped-role / empty results); operator level: the constructor must reject
        filt = np.zeros(c["fshape"]); data = np.zeros(c["dshape"])
        raised = True
        for ctor in (lambda: sp.linop.ConvolveData(c["dshape"], filt, mode=mode, strides=st, multi_channel=mc),
                     lambda: sp.linop.ConvolveFilter(c["fshape"], data, mode=mode, strides=st, multi_channel=mc)):
            try:
                ctor()
                raised = False
            except Exception:
                pass
        return raised, "chk_conv_reject %s %s %s" % (L.zlist(c["dshape"]), L.zlist(c["fshape"]), args), "linop-ctor"
    if kind == "out-size":
        osh = oshape_doc(c)
        bad = list(osh); bad[-1] += 1
        osh_used = bad
    else:
        # an output shape of plausible size for the adjoints (its value cannot matter: params raise first)
        try:
            osh_used = oshape_doc(c)
            if any(v <= 0 for v in osh_used):
                osh_used = [1]
        except Exception:
            osh_used = [1]
    try:
        if op == "convolve":
            sp.convolve(np.ones(c["dshape"]), np.ones(c["fshape"]), mode=mode, strides=st, multi_channel=mc)
        elif op == "data_adjoint":
            sp.convolve_data_adjoint(np.ones(osh_used), np.ones(c["fshape"]), c["dshape"], mode=mode, strides=st, multi_channel=mc)
        else:
            sp.convolve_filter_adjoint(np.ones(osh_used), np.ones(c["dshape"]), c["fshape"], mode=mode, strides=st, multi_channel=mc)
        raised = False
    except Exception:
        raised = True
    if op == "convolve":
        expr = "chk_conv_reject %s %s %s" % (L.zlist(c["dshape"]), L.zlist(c["fshape"]), args)
    elif op == "data_adjoint":
        expr = "chk_data_adjoint_reject %s %s %s %s" % (L.zlist(osh_used), L.zlist(c["fshape"]), L.zlist(c["dshape"]), args)
    else:
        expr = "chk_filter_adjoint_reject %s %s %s %s" % (L.zlist(osh_used), L.zlist(c["dshape"]), L.zlist(c["fshape"]), args)
    return raised, expr, op


def corpus():
    mk = lambda **k: dict(dict(cplx="cc", rel="corpus"), **k)
    return [
        mk(op="convolve", D=1, mode="full", mc=False, strides=None, dshape=[3], fshape=[2]),
        mk(op="convolve", D=1, mode="valid", mc=False, strides=[2], dshape=[6], fshape=[3]),
        mk(op="convolve", D=1, mode="full", mc=False, strides=[3], dshape=[2], fshape=[5]),          # filter longer than data
        mk(op="convolve", D=1, mode="valid", mc=True, strides=[4], dshape=[2, 2, 7], fshape=[3, 2, 2]),
        mk(op="data_adjoint", D=1, mode="valid", mc=True, strides=[2], dshape=[2, 2, 6], fshape=[3, 2, 3]),
        mk(op="filter_adjoint", D=1, mode="valid", mc=True, strides=[2], dshape=[2, 2, 6], fshape=[3, 2, 3]),
        mk(op="data_adjoint", D=1, mode="full", mc=True, strides=[3], dshape=[2, 5], fshape=[1, 2, 4]),
        mk(op="filter_adjoint", D=1, mode="full", mc=False, strides=[2], dshape=[3, 4], fshape=[6]),
        mk(op="convolve", D=2, mode="valid", mc=True, strides=[2, 1], dshape=[2, 2, 4, 3], fshape=[2, 2, 2, 3]),
        mk(op="data_adjoint", D=2, mode="valid", mc=False, strides=[1, 3], dshape=[4, 4], fshape=[2, 1]),
        mk(op="filter_adjoint", D=2, mode="valid", mc=False, strides=[2, 2], dshape=[2, 4, 4], fshape=[3, 2]),
        mk(op="convolve", D=3, mode="full", mc=False, strides=[1, 2, 3], dshape=[2, 3, 2], fshape=[2, 2, 3]),
        mk(op="filter_adjoint", D=3, mode="valid", mc=True, strides=None, dshape=[1, 3, 3, 2], fshape=[2, 1, 2, 3, 1]),
    ]


def run(ctx):
    ctx.source_hash("sigpy/conv.py", "sigpy/linop.py")
    proof_ok = ctx.prove("Prop_C08.v")
    # tie by translation (DESIGN 2.8): gen/Gen_conv.v is regenerated from conv.py (translate_all job "conv") and compiled;
    # its lemmas state generated == hand model (model/Conv.v) -- notes/translate_conv.md
    from tools import translate_conv
    tie_broken = translate_conv.tie(ctx)    # obligations "translate:sigpy/conv.py (...)", "tie:generated == hand model (...)"
    sp = core.import_sigpy()
    rng = ctx.rng
    nrng = np.random.default_rng(rng.randrange(2 ** 31))
    n_main = ctx.n(330, 6000)
    cases = corpus()
    while len(cases) < n_main:
        cases.append(gen_case(rng))
    done, bad = [], {}
    n_exempt = 0
    for c in cases:
        cls = cls_of(c)
        if c["mode"] == "valid" and relation(c) == "n>m":
            # valid mode with a longer filter: outside the admitted domain of the functions (operator constructors reject it);
            # the function either raises or returns an empty / swapped-role array.  Not demanded, not alarmed.
            n_exempt += 1
            ctx.count("exempt:valid:n>m", key=json.dumps(describe(c), sort_keys=True), nontrivial=False)
            continue
        try:
            r = run_case(sp, rng, c)
        except Exception as e:
            bad.setdefault("exception:" + c["op"], ("%s raised %r on an admissible input" % (c["op"], e),
                                                    {"kind": "impl-exception", "case": describe(c), "error": repr(e)}))
            continue
        y, ref = r["y"], r["ref"]
        ctx.count(cls, key=json.dumps(describe(c), sort_keys=True), nontrivial=bool(y.size > 1 and np.any(y != 0)),
                  sample={"case": describe(c), "in1": np.asarray(r["a"]).ravel()[:8].tolist().__repr__(), "out": y.ravel()[:8].tolist().__repr__()})
        if list(y.shape) != list(ref.shape) or not np.allclose(y, ref, rtol=0, atol=1e-9):
            bad.setdefault("oracle:" + c["op"] + ":" + c["mode"],
                           ("%s differs from the convolution definition (%s)" % (c["op"], cls),
                            {"kind": "oracle", "case": describe(c), "in1": repr(np.asarray(r["a"]).tolist()), "in2": repr(np.asarray(r["f"]).tolist()),
                             "observed": repr(y.tolist()), "expected": repr(ref.tolist())}))
        if not is_int(y):
            bad.setdefault("nonint:" + c["op"], ("%s returns non-integers on integer data" % c["op"], {"kind": "oracle", "case": describe(c)}))
        done.append(dict(expr=r["expr"], case=c, cls=cls, kind="main"))
    # mixed dtypes: a REAL first array with a COMPLEX second one.  The result is complex; the library's buffers take the dtype
    # of the first array, so it rejects the call (numpy casting error) -- "computed correctly or rejected": a returned array must
    # equal the definition
    n_mixed = {"rejected": 0, "computed": 0}
    for k in range(ctx.n(40, 600)):
        c = gen_case(rng)
        if c["mode"] == "valid" and relation(c) == "n>m":
            continue
        osh = oshape_doc(c)
        sh1 = c["dshape"] if c["op"] == "convolve" else osh
        sh2 = c["fshape"] if c["op"] in ("convolve", "data_adjoint") else c["dshape"]
        a, f = intarr(rng, sh1, False), intarr(rng, sh2, True)
        if not np.any(np.imag(f) != 0):
            continue
        try:
            r = run_case(sp, rng, dict(c, cplx="rc"), arrays=(a, f))
        except Exception:
            n_mixed["rejected"] += 1
            ctx.count("mixed-dtype:%s:rejected" % c["op"], key=json.dumps(describe(c), sort_keys=True) + str(k), nontrivial=False)
            continue
        n_mixed["computed"] += 1
        y, ref = r["y"], r["ref"]
        ctx.count("mixed-dtype:%s:computed" % c["op"], key=json.dumps(describe(c), sort_keys=True) + str(k), nontrivial=True)
        if list(y.shape) != list(ref.shape) or not np.allclose(y, ref, rtol=0, atol=1e-9):
            bad.setdefault("oracle:mixed-dtype:" + c["op"],
                           ("%s of a real array with a complex one returns values that differ from the convolution definition instead of "
                            "rejecting the call (%s)" % (c["op"], cls_of(c)),
                            {"kind": "oracle", "case": dict(describe(c), cplx="rc"), "in1": repr(a.tolist()), "in2": repr(f.tolist()),
                             "observed": repr(y.tolist()), "expected": repr(ref.tolist())}))
    ctx.coverage["mixed_dtype_calls"] = n_mixed
    # the same values in non-C-contiguous memory layouts (numpy-generated arrays are always C-contiguous)
    from vlib import layouts
    for k, c in enumerate(cases):
        if k % 3 or (c["mode"] == "valid" and relation(c) == "n>m"):
            continue
        osh = oshape_doc(c)
        sh1 = c["dshape"] if c["op"] == "convolve" else osh
        sh2 = c["fshape"] if c["op"] in ("convolve", "data_adjoint") else c["dshape"]
        cpl = c["cplx"][0] == "c"
        a, f = intarr(rng, sh1, cpl), intarr(rng, sh2, cpl and c["cplx"][1] == "c")
        va, vf = layouts.variants(a, rng, k=1), layouts.variants(f, rng, k=1)
        a2, f2 = (va[0][1] if va else a), (vf[0][1] if vf and k % 2 else f)
        tag = "%s/%s" % (va[0][0] if va else "C", vf[0][0] if vf and k % 2 else "C")
        try:
            r = run_case(sp, rng, c, arrays=(a2, f2))
        except Exception as e:
            bad.setdefault("exception-layout:" + c["op"], ("%s raised %r on non-contiguous inputs (%s)" % (c["op"], e, tag),
                                                           {"kind": "impl-exception", "case": describe(c), "layout": tag, "error": repr(e)}))
            continue
        ctx.count("layout:%s" % c["op"], key=json.dumps(describe(c), sort_keys=True) + tag, nontrivial=True)
        y, ref = r["y"], r["ref"]
        if list(y.shape) != list(ref.shape) or not np.allclose(y, ref, rtol=0, atol=1e-9):
            bad.setdefault("oracle:layout:" + c["op"],
                           ("%s differs from the convolution definition when its arrays are stored in layout %s (%s)" % (c["op"], tag, cls_of(c)),
                            {"kind": "oracle", "case": describe(c), "layout": tag, "in1": repr(np.asarray(a).tolist()), "in2": repr(np.asarray(f).tolist()),
                             "in1_strides": list(a2.strides), "in2_strides": list(f2.strides), "observed": repr(y.tolist()), "expected": repr(ref.tolist())}))
    # LARGE blocks (thousands of samples, dozens of batch signals): any size-dependent code path must still be the definition and its
    # exact adjoints (numpy dot tests + comparison with the direct scipy.signal computation; not sent through Coq)
    import scipy.signal as _sig
    nrl = np.random.RandomState(rng.randrange(2 ** 31))
    crand = lambda sh: nrl.standard_normal(sh) + 1j * nrl.standard_normal(sh)     # noqa: E731
    for dsh, fsh, mc in (([6000], [9], False), ([40, 300], [5], False), ([2, 96, 80], [3, 2, 3, 3], True), ([4500], [33], False)):
        for mode in ("full", "valid"):
            try:
                d_, f_ = crand(dsh), crand(fsh)
                y_ = np.asarray(sp.convolve(d_, f_, mode=mode, multi_channel=mc))
                w_ = crand(y_.shape)
                lhs = np.vdot(w_, y_)
                r1 = np.vdot(sp.convolve_data_adjoint(w_, f_, dsh, mode=mode, multi_channel=mc), d_)
                r2 = np.vdot(sp.convolve_filter_adjoint(w_, d_, fsh, mode=mode, multi_channel=mc), f_)
                sc = np.linalg.norm(w_) * np.linalg.norm(y_) + 1e-300
                ctx.count("large:%s:%s" % ("mc" if mc else "sc", mode), key=(tuple(dsh), tuple(fsh), mode), nontrivial=True)
                if not mc:
                    D = len(fsh)
                    ref_ = np.stack([_sig.convolve(dd, f_, mode=mode) for dd in d_.reshape([-1] + dsh[-D:])]).reshape(y_.shape)
                    if not np.allclose(y_, ref_, rtol=1e-9, atol=1e-9 * np.abs(ref_).max()):
                        bad.setdefault("oracle:large:convolve", ("convolve differs from the convolution definition on a large block (data %s, filter %s, %s)" % (dsh, fsh, mode),
                                                                {"kind": "oracle", "case": {"dshape": dsh, "fshape": fsh, "mode": mode, "mc": mc}, "seeded": "numpy RandomState stream of this run"}))
                for nm, rr in (("data_adjoint", r1), ("filter_adjoint", r2)):
                    if abs(lhs - rr) > 1e-9 * sc:
                        bad.setdefault("oracle:large:" + nm, ("%s is not the adjoint of convolve on a large block (data %s, filter %s, %s): dot-test error %.3g"
                                                              % (nm, dsh, fsh, mode, abs(lhs - rr) / sc),
                                                              {"kind": "oracle", "case": {"dshape": dsh, "fshape": fsh, "mode": mode, "mc": mc}, "dot_error": float(abs(lhs - rr) / sc)}))
            except Exception as e:
                bad.setdefault("exception:large", ("convolution of a large block raised %r" % e, {"kind": "impl-exception", "case": {"dshape": dsh, "fshape": fsh, "mode": mode}}))
    # REGROUPED shapes right after each other: the same flat sequence of extents split differently into data and filter shapes
    # (different numbers of spatial / batch axes), each call judged by the definition
    for seq in ([4, 5, 2, 2], [3, 1, 4, 1, 2], [2, 3, 3, 2], [5, 4, 3, 2, 2], [2, 2, 6, 2, 3]):
        for cut in range(1, len(seq)):
            dsh_, fsh_ = seq[:cut], seq[cut:]
            D = len(fsh_)
            if D > 3 or D > len(dsh_) or any(f > d for f, d in zip(fsh_, dsh_[-D:])):
                continue
            for mode in ("full", "valid"):
                c_ = dict(op="convolve", D=D, mode=mode, mc=False, strides=None, dshape=dsh_, fshape=fsh_, cplx="cc")
                try:
                    a_, f_ = intarr(rng, dsh_, True), intarr(rng, fsh_, True)
                    r_ = run_case(sp, rng, c_, arrays=(a_, f_))
                except Exception as e:
                    bad.setdefault("exception:regrouped", ("convolve raised %r on an admissible shape combination (data %s, filter %s, %s) called after other "
                                                           "groupings of the same extents" % (e, dsh_, fsh_, mode), {"kind": "impl-exception", "case": describe(c_)}))
                    continue
                ctx.count("regrouped:%dD:%s" % (D, mode), key=(tuple(dsh_), tuple(fsh_), mode), nontrivial=True)
                if list(r_["y"].shape) != list(r_["ref"].shape) or not np.allclose(r_["y"], r_["ref"], rtol=0, atol=1e-9):
                    bad.setdefault("oracle:regrouped", ("convolve differs from the definition for data %s, filter %s (%s) when called after other groupings of the same extents"
                                                        % (dsh_, fsh_, mode), {"kind": "oracle", "case": describe(c_), "in1": repr(a_.tolist()), "in2": repr(f_.tolist()),
                                                                               "observed": repr(r_["y"].tolist()), "expected": repr(r_["ref"].tolist())}))
    # dot tests / bilinearity on the same shapes (complex floats)
    n_dot = 0
    seen_shapes = set()
    for c in cases:
        if c["mode"] == "valid" and relation(c) == "n>m":
            continue
        key = json.dumps({k: c[k] for k in ("mode", "mc", "strides", "dshape", "fshape")}, sort_keys=True)
        if key in seen_shapes:
            continue
        seen_shapes.add(key)
        try:
            b, (d, f, y) = dot_tests(sp, nrng, c)
        except Exception as e:
            bad.setdefault("exception:dot", ("dot test raised %r" % e, {"kind": "impl-exception", "case": describe(c), "error": repr(e)}))
            continue
        n_dot += 1
        ctx.count("dot:%s:%dD" % (c["mode"], c["D"]), key=key, nontrivial=True)
        for nm, err in b:
            bad.setdefault("oracle:" + nm + ":" + c["mode"],
                           ("%s fails: error %.3g" % (nm, err),
                            {"kind": "dot", "test": nm, "case": describe(c), "d": [[v.real, v.imag] for v in d.ravel()], "f": [[v.real, v.imag] for v in f.ravel()],
                             "y": [[v.real, v.imag] for v in y.ravel()], "error": err}))
    # scipy specification checks
    spec = sp_spec_cases(rng, ctx.n(90, 1500))
    for s in spec:
        ctx.count(s["kind"], key=s["expr"][:200], nontrivial=True)
    # malformed stream
    mal = []
    for _ in range(ctx.n(90, 1500)):
        c = gen_malformed(rng)
        try:
            raised, expr, where = run_malformed(sp, rng, c)
        except Exception as e:        # the harness itself must not fail
            raise
        ctx.count("malformed:%s:%s" % (c["kind"], where), key=expr, nontrivial=True,
                  sample={"case": describe(c), "kind": c["kind"], "impl_raised": raised})
        # model says Err  <->  implementation raised
        mal.append(dict(expr=(expr if raised else "negb (%s)" % expr), case=c, raised=raised, kind="malformed", cls="malformed:" + c["kind"]))
    allc = done + [dict(expr=s["expr"], kind="spec", cls=s["kind"], case=s) for s in spec] + mal
    failing, corr_ok = [], True
    try:
        if not ctx.make(["run/RunC08.vo"]):
            raise RuntimeError("run/RunC08.vo does not build")
        failing = L.run_bool_cases(ctx, "c08", HEADER, allc, per_file=40, timeout=1200)
    except RuntimeError as e:
        corr_ok = False
        ctx.notes.append("correspondence could not run: %s" % str(e)[:600])
    fk = lambda k: [i for i in failing if allc[i]["kind"] == k]
    ctx.obligation("corr:model == implementation == closed form, exact on Gaussian integers (%d cases)" % len(done), corr_ok and not fk("main"))
    ctx.obligation("corr:scipy.signal convolve/correlate == recorded specification (%d cases)" % len(spec),
                   corr_ok and not fk("spec") and all(s["ok_int"] for s in spec))
    ctx.obligation("corr:implementation raises iff model Err (%d malformed cases)" % len(mal), corr_ok and not fk("malformed"))
    ctx.obligation("oracle:brute-force definition, dot tests, bilinearity (%d + %d)" % (len(done), n_dot), not bad)
    ctx.coverage["rule"] = ("seeded cases over convolve / convolve_data_adjoint / convolve_filter_adjoint: D = 1..3, data lengths 1..7 (1-D) / 1..4 / 1..3, "
                            "filter shorter / equal / longer / unrelated, 0-2 batch dims, single- and multi-channel (1..3 in/out), strides None or 1..4 per axis, "
                            "full and valid, real/complex integer-valued data (exact comparison); dot tests and bilinearity on complex normal data; "
                            "scipy specification cases (1-3-D, both modes, both operand orders); malformed: mixed valid axes, channel mismatch, stride length, "
                            "wrong output size, valid with longer filter at operator level; non-trivial = output with > 1 element and a non-zero entry")
    ctx.coverage["exempt_valid_longer_filter"] = n_exempt
    ctx.coverage["disagreements_model_vs_impl"] = len(failing)
    for k, (what, rep) in bad.items():
        ctx.violation("C08: " + what, rep, signature="C08:" + ":".join(k.split(":")[:2]))
    seen = set()
    for i in failing:
        d = allc[i]
        key = d["kind"] + ":" + (d["cls"].split(":")[0] if d["kind"] != "malformed" else d["cls"])
        if key in seen:
            continue
        seen.add(key)
        if d["kind"] == "malformed":
            c = d["case"]
            ctx.violation("C08: rejection differs: implementation %s, model %s (%s)" % ("raised" if d["raised"] else "accepted", "accepts" if d["raised"] else "rejects", c["kind"]),
                          {"kind": "reject", "case": describe(c), "malformed": c["kind"], "impl_raised": d["raised"], "expected": "raise" if not d["raised"] else "accept"},
                          found_input=not d["raised"] or c["kind"] in ("mixed", "channel", "strides"), signature="C08:reject:" + c["kind"])
        elif d["kind"] == "spec":
            ctx.violation("C08: scipy.signal differs from its recorded specification (%s)" % d["cls"],
                          {"kind": "correspondence", "broken": "corr:scipy-spec", "case": {k: d["case"][k] for k in ("sa", "sv", "full", "fn")}},
                          found_input=False, signature="C08:spec:" + d["case"]["fn"])
        else:
            ctx.violation("C08: model and implementation disagree on %s" % d["cls"],
                          {"kind": "correspondence", "broken": "corr:" + d["cls"], "case": describe(d["case"])},
                          found_input=False, signature="C08:corr:" + d["case"]["op"])
    if ((not proof_ok or not corr_ok) and not ctx.violations) or (tie_broken and not any(v["found_input"] for v in ctx.violations)):
        broken = getattr(ctx, "broken_proof", tie_broken or {"theorem": "corr:coq-run", "log": ""})
        ctx.violation("proof obligation no longer checks: %s" % broken.get("theorem"), {"kind": "proof", "broken": broken},
                      found_input=False, signature="C08:proof")
    ctx.trusted += ["Coq 8.16.1 kernel + vm_compute (exact Gaussian-integer evaluation)",
                    "hand model coq/model/Conv.v of sigpy.conv (and Linop.conv_params of _get_convolve_params), tied by this run's exact correspondence "
                    "and, since tools/translate_conv.py, by gen/Gen_conv.v: the CPU paths regenerated from the source text on every run with lemmas "
                    "generated == hand model (the parameter function on a finite grid); what stays trusted is the translator's reading of the "
                    "accepted Python fragment (notes/translate_conv.md)",
                    "recorded specifications of scipy.signal.convolve / correlate (sp_shape, sp_convolve_val, sp_correlate_val), compared with the real scipy in this run",
                    "numpy reshape / basic slicing semantics as modelled (Rearrange.reshape, strided slices, zero_stuff)"]
    ctx.proved += ["see coq/props/Prop_C08.v (theorem list in obligation_list): 1-D spatial axis with arbitrary batch shape and channels (multi_channel=True)"]
    ctx.validated_only += ["D = 2, 3 and multi_channel=False: model == implementation == N-D closed form by exact correspondence only",
                           "valid mode with a filter longer than the data: function-level behaviour not demanded (operator constructors reject it)"]


def replay(obj):
    sp = core.import_sigpy()
    import random
    kind = obj.get("kind")
    c = obj["case"]
    if kind == "oracle":
        arrs = [np.array(eval(obj["in1"])), np.array(eval(obj["in2"]))]
        r = run_case(sp, random.Random(0), c, arrays=arrs)
        ok = list(r["y"].shape) == list(r["ref"].shape) and np.allclose(r["y"], r["ref"], atol=1e-9, rtol=0)
        print("case", c, "\nobserved", r["y"].tolist(), "\nexpected", r["ref"].tolist(), "\nagree:", ok)
        return 0 if ok else 1
    if kind == "dot":
        cx = lambda l, sh: np.array([complex(a, b) for a, b in l]).reshape(sh)
        d, f, y = cx(obj["d"], c["dshape"]), cx(obj["f"], c["fshape"]), cx(obj["y"], oshape_doc(c))
        kw = dict(mode=c["mode"], strides=c["strides"], multi_channel=c["mc"])
        Ad = sp.convolve(d, f, **kw)
        lhs = np.vdot(y, Ad)
        r1 = np.vdot(sp.convolve_data_adjoint(y, f, c["dshape"], **kw), d)
        r2 = np.vdot(sp.convolve_filter_adjoint(y, d, c["fshape"], **kw), f)
        ref = ref_convolve(d, f, c["mode"], c["strides"], c["mc"])
        ok = abs(lhs - r1) <= 1e-9 * (1 + abs(lhs)) and abs(lhs - r2) <= 1e-9 * (1 + abs(lhs)) and np.allclose(Ad, ref, atol=1e-9)
        print("<Ad,y>", lhs, "<d,A^H y>", r1, "<f,A_f^H y>", r2, "conv==definition", np.allclose(Ad, ref, atol=1e-9), "agree:", ok)
        return 0 if ok else 1
    if kind == "reject":
        cc = dict(c); cc["kind"] = obj["malformed"]
        raised, _, _ = run_malformed(sp, random.Random(0), cc)
        ok = raised == (obj["expected"] == "raise")
        print("case", c, "implementation raised:", raised, "expected:", obj["expected"], "agree:", ok)
        return 0 if ok else 1
    if kind == "impl-exception":
        try:
            run_case(sp, random.Random(0), c)
            print("no exception"); return 0
        except Exception as e:
            print("raised", repr(e)); return 1
    print("no concrete input recorded (proof / correspondence obligation):", obj.get("broken"))
    return 1
