"""C11 — every proximal operator returns the exact minimiser, in the input's shape.

Proof: coq/props/Prop_C11.v (soft threshold = THE minimiser, real and complex, lifted separably;
hard threshold; clip; l2 / l-infinity / l1 ball projections in variational-inequality form; L2Reg
closed form and composition with proxh; Moreau for Conj; Stack block separability; UnitaryTransform;
PSD projection over the eigh oracle).
Tie: hand model coq/model/Prox.v (one Gallina term per Python function, polymorphic in the scalar
operations), evaluated inside Coq on binary64 floats and compared with the implementation
(values: |d| <= 1e-13*scale + 1e-12*|value|, shapes exact) on every Prox class, nestings, 1-3-D
shapes, real and complex data, scalar and array alpha.  numpy.linalg.eigh is an oracle: the
decomposition the implementation obtained is recorded, checked against its specification inside
Coq on that input, and handed to the model as data.
Search / oracle on the implementation: variational inequality against random feasible
competitors, objective against 200 perturbations, shape, feasible => unchanged, idempotence;
every case is re-run on the same values in non-C-contiguous memory layouts (Fortran order, transposed /
axes-permuted / strided / negative-stride views) and must give the output of the C-contiguous run.
"""
import json
import math
import numpy as np
from vlib import core, coqlit as L

HEADER = """From Coq Require Import ZArith List Bool PrimFloat.
From SV Require Import lib.Scalar lib.FloatRun model.Prox run.RunC11.
Import ListNotations.
Local Open Scope Z_scope.
"""

PROJ = ("L2Proj", "LInfProj", "L1Proj", "PsdProj", "BoxConstraint")


# ---------------------------------------------------------------- (de)serialisation of arrays
def enc(a, cplx):
    a = np.asarray(a).ravel()
    if cplx:
        return [[float(v.real), float(v.imag)] for v in a.astype(complex)]
    return [float(v) for v in a]


def dec(l, cplx):
    if cplx:
        return np.array([complex(v[0], v[1]) for v in l], dtype=complex)
    return np.array([float(v) for v in l], dtype=float)


def dec_sv(v, cplx, n):
    """scalar-or-flat-list -> flat array of n entries"""
    if isinstance(v, list) and not (cplx and len(v) == 2 and not isinstance(v[0], list)):
        return dec(v, cplx)
    s = complex(v[0], v[1]) if (cplx and isinstance(v, list)) else v
    return np.full(n, s, dtype=complex if cplx else float)


def is_scalar_sv(v, cplx):
    return not isinstance(v, list) or (cplx and len(v) == 2 and not isinstance(v[0], list))


def py_sv(v, cplx, shape):
    """what is handed to the constructor: python scalar or array of the given shape"""
    if is_scalar_sv(v, cplx):
        return complex(v[0], v[1]) if isinstance(v, list) else v
    return dec(v, cplx).reshape(shape)


# ---------------------------------------------------------------- Coq literals
def lit_e(v, cplx):
    if cplx:
        v = complex(v)
        return "(%s, %s)" % (L.flt(v.real), L.flt(v.imag))
    return L.flt(v)


def lit_vec(a, cplx):
    return "[" + "; ".join(lit_e(v, cplx) for v in np.asarray(a).ravel()) + "]"


def lit_mat(m, cplx):
    return "[" + "; ".join(lit_vec(r, cplx) for r in np.asarray(m)) + "]"


def lit_sv(v, cplx):
    """JSON scalar-or-list value -> Coq [sv] literal"""
    if is_scalar_sv(v, cplx):
        s = complex(v[0], v[1]) if isinstance(v, list) else v
        return "(SS %s)" % lit_e(s, cplx)
    return "(SV %s)" % lit_vec(dec(v, cplx), cplx)


def lit_rsv(v):
    if isinstance(v, list):
        return "(SV %s)" % L.flist(v)
    return "(SS %s)" % L.flt(v)


def lit_opt(v, f):
    return "None" if v is None else "(Some %s)" % f(v)


def size(shape):
    return int(np.prod(shape)) if len(shape) else 1


def spec_shape(s):
    c = s["cls"]
    if c == "Conj":
        return spec_shape(s["p"])
    if c == "Stack":
        return [sum(size(spec_shape(q)) for q in s["ps"])]
    if c == "UnitaryTransform":
        return s["ishape"]
    return s["shape"]


def coq_prox(s, cplx, eigs):
    """Coq term of the model tree; [eigs] = recorded eigh answers, consumed in call order."""
    E = "FCx" if cplx else "FRe"
    c = s["cls"]
    at = lambda name: "@%s FR %s" % (name, E)
    if c == "NoOp":
        return "(%s %s)" % (at("NoOp"), L.zlist(s["shape"]))
    if c == "L1Reg":
        return "(%s %s %s)" % (at("L1Reg"), L.zlist(s["shape"]), L.flt(s["lamda"]))
    if c == "L2Reg":
        return "(%s %s %s %s %s)" % (at("L2Reg"), L.zlist(s["shape"]), L.flt(s["lamda"]),
                                     lit_opt(s.get("y"), lambda v: lit_sv(v, cplx)),
                                     lit_opt(s.get("proxh"), lambda q: coq_prox(q, cplx, eigs)))
    if c == "L2Proj":
        return "(%s %s %s %s %s)" % (at("L2Proj"), L.zlist(s["shape"]), L.flt(s["epsilon"]), lit_sv(s.get("y", 0), cplx),
                                     L.zlist_opt(s.get("axes")))
    if c == "LInfProj":
        return "(%s %s %s %s)" % (at("LInfProj"), L.zlist(s["shape"]), L.flt(s["epsilon"]),
                                  lit_opt(s.get("bias"), lambda v: lit_sv(v, cplx)))
    if c == "PsdProj":
        if not eigs:
            raise KeyError("no recorded eigendecomposition for a PsdProj node")
        w, v = eigs.pop(0)
        return "(%s %s %s %s)" % (at("PsdProj"), L.zlist(s["shape"]), L.flist(np.real(w)), lit_mat(v, cplx))
    if c == "L1Proj":
        return "(%s %s %s)" % (at("L1Proj"), L.zlist(s["shape"]), L.flt(s["epsilon"]))
    if c == "BoxConstraint":
        return "(%s %s %s %s)" % (at("BoxConstraint"), L.zlist(s["shape"]), lit_sv(s["lower"], cplx), lit_sv(s["upper"], cplx))
    if c == "Conj":
        return "(%s %s)" % (at("Conj"), coq_prox(s["p"], cplx, eigs))
    if c == "Stack":
        return "(%s [%s])" % (at("Stack"), "; ".join(coq_prox(q, cplx, eigs) for q in s["ps"]))
    if c == "UnitaryTransform":
        return "(%s %s %s %s)" % (at("UnitaryTransform"), coq_prox(s["p"], cplx, eigs), L.zlist(s["ishape"]),
                                  lit_mat(dense_of(s, cplx), cplx))
    raise ValueError(c)


# ---------------------------------------------------------------- building the implementation objects
def dense_of(s, cplx):
    return dec(s["dense"], cplx).reshape(s["dense_shape"])


def build(sp, s, cplx):
    P = sp.prox
    c = s["cls"]
    if c == "NoOp":
        return P.NoOp(s["shape"])
    if c == "L1Reg":
        return P.L1Reg(s["shape"], s["lamda"])
    if c == "L2Reg":
        y = None if s.get("y") is None else py_sv(s["y"], cplx, s["shape"])
        h = None if s.get("proxh") is None else build(sp, s["proxh"], cplx)
        return P.L2Reg(s["shape"], s["lamda"], y=y, proxh=h)
    if c == "L2Proj":
        return P.L2Proj(s["shape"], s["epsilon"], y=py_sv(s.get("y", 0), cplx, s["shape"]), axes=s.get("axes"))
    if c == "LInfProj":
        b = None if s.get("bias") is None else py_sv(s["bias"], cplx, s["shape"])
        return P.LInfProj(s["shape"], s["epsilon"], bias=b)
    if c == "PsdProj":
        return P.PsdProj(s["shape"])
    if c == "L1Proj":
        return P.L1Proj(s["shape"], s["epsilon"])
    if c == "BoxConstraint":
        return P.BoxConstraint(s["shape"], py_sv(s["lower"], cplx, s["shape"]), py_sv(s["upper"], cplx, s["shape"]))
    if c == "Conj":
        return P.Conj(build(sp, s["p"], cplx))
    if c == "Stack":
        return P.Stack([build(sp, q, cplx) for q in s["ps"]])
    if c == "UnitaryTransform":
        mat = dec(s["mat"], s["mat_cplx"]).reshape(s["mat_shape"])
        A = sp.linop.MatMul(s["ishape"], mat)
        return P.UnitaryTransform(build(sp, s["p"], cplx), A)
    raise ValueError(c)


def fill_dense(sp, s, cplx):
    """store the dense matrix of every UnitaryTransform's A (obtained by applying A to basis vectors)"""
    c = s["cls"]
    if c == "UnitaryTransform":
        mat = dec(s["mat"], s["mat_cplx"]).reshape(s["mat_shape"])
        A = sp.linop.MatMul(s["ishape"], mat)
        n = size(s["ishape"])
        cols = []
        for j in range(n):
            e = np.zeros(n, dtype=complex if cplx else float)
            e[j] = 1
            cols.append(np.asarray(A(e.reshape(s["ishape"]))).ravel())
        D = np.stack(cols, axis=1)
        s["dense"] = enc(D, cplx)
        s["dense_shape"] = list(D.shape)
        s["oshape"] = list(A.oshape)
        fill_dense(sp, s["p"], cplx)
    elif c == "Conj":
        fill_dense(sp, s["p"], cplx)
    elif c == "Stack":
        for q in s["ps"]:
            fill_dense(sp, q, cplx)
    elif c == "L2Reg" and s.get("proxh") is not None:
        fill_dense(sp, s["proxh"], cplx)


class EighRecorder:
    """records every eigendecomposition numpy hands to the implementation during one call"""

    def __init__(self):
        self.rec = []

    def __enter__(self):
        self.o_eigh, self.o_eig = np.linalg.eigh, np.linalg.eig

        def eigh(a, *k, **kw):
            r = self.o_eigh(a, *k, **kw)
            self.rec.append((np.array(r[0]), np.array(r[1])))
            return r

        def eig(a, *k, **kw):
            r = self.o_eig(a, *k, **kw)
            self.rec.append((np.array(r[0]), np.array(r[1])))
            return r
        np.linalg.eigh, np.linalg.eig = eigh, eig
        return self

    def __exit__(self, *a):
        np.linalg.eigh, np.linalg.eig = self.o_eigh, self.o_eig


def alpha_py(case):
    a = case["alpha"]
    return np.array(a, dtype=float) if isinstance(a, list) else a


# ---------------------------------------------------------------- memory layouts of the input array
# The property is about VALUES: the prox of an array does not depend on how the array is laid out in
# memory.  Every case is therefore also run on the same values held in non-C-contiguous arrays.
def layouts_for(ishape):
    nd = len(ishape)
    if nd == 0:
        return []
    if nd == 1:
        return ["strided", "reversed"]
    ls = ["F", "T-view", "strided"]
    if nd >= 3:
        ls.append("perm-view")
    return ls


def to_layout(x, layout):
    """an array with the values and shape of [x] (C-contiguous) in the named memory layout"""
    if layout in (None, "C"):
        return x
    if layout == "F":                    # x.T.copy().T : Fortran-ordered, owns its data
        return x.T.copy().T
    if layout == "T-view":               # transposed view of a C-contiguous array of the reversed shape
        base = np.ascontiguousarray(x.T)
        return base.T
    if layout == "perm-view":            # axes-permuted view (neither C nor F ordered for 3-D)
        nd = x.ndim
        perm = tuple(range(1, nd)) + (0,)
        inv = tuple(np.argsort(perm))
        base = np.ascontiguousarray(x.transpose(perm))
        return base.transpose(inv)
    if layout == "strided":              # every second entry (per axis) of a bigger array filled with junk
        big = np.full([2 * d + 1 for d in x.shape], 7.25, dtype=x.dtype)
        v = big[tuple(slice(1, 2 * d, 2) for d in x.shape)]
        v[...] = x
        return v
    if layout == "reversed":             # negative stride (1-D)
        base = np.ascontiguousarray(x[::-1])
        return base[::-1]
    raise ValueError(layout)


def layout_checks(sp, case, x, out, nr):
    """runs the case on the same VALUES in every non-C-contiguous layout; the output must equal the output
    for the C-contiguous array (1e-13*scale; bitwise in practice) and, when it is not bitwise equal,
    satisfy the same oracle.  returns (problems, layouts that were run)"""
    probs, ran = [], []
    cplx = case["cplx"]
    scale = max([1.0] + [abs(v) for v in x.ravel()] + [abs(v) for v in out.ravel() if np.isfinite(v)])
    for lay in layouts_for(case["ishape"]):
        xin = to_layout(x, lay)
        if xin.shape != x.shape or not np.array_equal(xin, x):
            raise AssertionError("layout %s changed the values (harness bug)" % lay)
        if x.ndim >= 2 and min(x.shape) > 1 and lay != "strided" and xin.flags["C_CONTIGUOUS"]:
            raise AssertionError("layout %s is C-contiguous (harness bug)" % lay)
        try:
            _, o2, _ = run_impl(sp, case, layout=lay)
        except Exception as e:   # noqa
            probs.append(("layout-exception", {"layout": lay, "error": repr(e) + " <- " + repr(e.__cause__),
                                               "expected": enc(out, cplx), "expected_shape": list(out.shape)}))
            continue
        ran.append(lay)
        same_shape = o2.shape == out.shape
        if same_shape and np.array_equal(o2, out, equal_nan=True):
            continue
        det = {"layout": lay, "layout_strides_in_items": [int(s // xin.itemsize) for s in xin.strides],
               "expected": enc(out, cplx), "expected_shape": list(out.shape),
               "observed": enc(o2, cplx), "observed_shape": list(o2.shape)}
        if not same_shape or not np.all(np.abs(o2 - out) <= 1e-13 * scale):
            # which parts of the oracle the output for this layout fails (diagnostic; equality is the demand)
            sub = oracle(case, x, o2, nr) + projection_checks(sp, case, x, o2, layout=lay) if o2.size == x.size else []
            det["oracle_failures_on_this_layout"] = [k for k, _ in sub]
            if same_shape:
                det["max_abs_difference"] = float(np.max(np.abs(o2 - out)))
            probs.append(("layout", det))
        else:
            sub = oracle(case, x, o2, nr) + projection_checks(sp, case, x, o2, layout=lay)
            if sub:
                det["oracle_failures_on_this_layout"] = [k for k, _ in sub]
                probs.append(("layout-oracle", det))
    return probs, ran


def run_impl(sp, case, layout=None):
    """returns (input array, output array, recorded eigh list); [layout] selects the memory layout in
    which the input VALUES are handed to the implementation (None = C-contiguous)"""
    cplx = case["cplx"]
    x = dec(case["input"], cplx).reshape(case["ishape"])
    x0 = x.copy()
    x = to_layout(x, layout)
    with EighRecorder() as er:
        if case["kind"] == "prox":
            Pobj = build(sp, case["spec"], cplx)
            out = Pobj(alpha_py(case), x)
        else:
            fn, T = case["fn"], sp.thresh
            if fn == "soft_thresh":
                out = T.soft_thresh(py_lam(case), x)
            elif fn == "hard_thresh":
                out = T.hard_thresh(py_lam(case), x)
            elif fn == "l1_proj":
                out = T.l1_proj(case["eps"], x)
            elif fn == "l2_proj":
                out = T.l2_proj(case["eps"], x, case.get("axes"))
            elif fn == "linf_proj":
                b = None if case.get("bias") is None else py_sv(case["bias"], cplx, case["ishape"])
                out = T.linf_proj(case["eps"], x, bias=b)
            elif fn == "psd_proj":
                out = T.psd_proj(x)
            else:
                raise ValueError(fn)
    return x0, np.asarray(out), er.rec


def py_lam(case):
    lam = case["lam"]
    return np.array(lam, dtype=float).reshape(case["ishape"]) if isinstance(lam, list) else lam


def equiv_spec(case):
    """(prox spec, alpha) whose prox the thresh function is documented to compute"""
    fn, sh = case["fn"], case["ishape"]
    if fn == "soft_thresh":
        return {"cls": "L1Reg", "shape": sh, "lamda": 1.0}, case["lam"]
    if fn == "l1_proj":
        return {"cls": "L1Proj", "shape": sh, "epsilon": case["eps"]}, 1.0
    if fn == "l2_proj":
        return {"cls": "L2Proj", "shape": sh, "epsilon": case["eps"], "y": 0, "axes": case.get("axes")}, 1.0
    if fn == "linf_proj":
        return {"cls": "LInfProj", "shape": sh, "epsilon": case["eps"], "bias": case.get("bias")}, 1.0
    if fn == "psd_proj":
        return {"cls": "PsdProj", "shape": sh}, 1.0
    return None, None


def coq_expr(case, x, out, eigs):
    cplx = case["cplx"]
    sfx = "c" if cplx else "r"
    scale = max([1.0] + [abs(v) for v in x.ravel()] + [abs(v) for v in out.ravel() if np.isfinite(v)])
    atol = L.flt(1e-13 * scale)
    xin, xout = lit_vec(x, cplx), lit_vec(out, cplx)
    ish, osh = L.zlist(case["ishape"]), L.zlist(out.shape)
    if case["kind"] == "prox":
        return "chk_prox_%s %s %s %s %s %s %s" % (sfx, coq_prox(case["spec"], cplx, list(eigs)), lit_rsv(case["alpha"]),
                                                  xin, osh, xout, atol)
    fn = case["fn"]
    if fn in ("soft_thresh", "hard_thresh"):
        return "chk_%s_%s %s %s %s %s %s %s" % (fn.split("_")[0], sfx, ish, osh, lit_rsv(case["lam"]), xin, xout, atol)
    if fn == "l1_proj":
        return "chk_l1proj_%s %s %s %s %s %s %s" % (sfx, ish, osh, L.flt(case["eps"]), xin, xout, atol)
    if fn == "l2_proj":
        return "chk_l2proj_%s %s %s %s %s %s %s %s" % (sfx, ish, osh, L.zlist_opt(case.get("axes")), L.flt(case["eps"]), xin, xout, atol)
    if fn == "linf_proj":
        return "chk_linfproj_%s %s %s %s %s %s %s %s" % (sfx, ish, osh, L.flt(case["eps"]),
                                                        lit_opt(case.get("bias"), lambda v: lit_sv(v, cplx)), xin, xout, atol)
    if fn == "psd_proj":
        if len(eigs) != 1:
            raise KeyError("psd_proj: %d recorded eigendecompositions" % len(eigs))
        w, v = eigs[0]
        return "chk_psd_%s %d%%nat %s %s %s %s %s %s %s" % (sfx, case["ishape"][0], ish, osh, xin, L.flist(np.real(w)),
                                                           lit_mat(v, cplx), xout, atol)
    raise ValueError(fn)


# ---------------------------------------------------------------- numeric oracle (definitions in numpy)
INF = float("inf")


def wsum(w, v):
    return float(np.sum(np.asarray(w) * v))


def wsplit(w, sizes):
    if np.ndim(w) == 0:
        return [w] * len(sizes)
    out, k = [], 0
    for n in sizes:
        out.append(np.asarray(w)[k:k + n]); k += n
    return out


def const_w(w):
    """weights usable by a non-separable g: a scalar, or an array that is constant"""
    if np.ndim(w) == 0:
        return float(w)
    w = np.asarray(w).ravel()
    return float(w[0]) if w.size and np.all(w == w[0]) else None


def fibre_norms(d, shape, axes):
    a = np.abs(d.reshape(shape)) ** 2
    if axes is None:
        return np.sqrt(np.array([a.sum()]))
    ax = tuple(sorted(set(int(k) % len(shape) for k in axes)))
    return np.sqrt(a.sum(axis=ax)).ravel()


def G(s, w, x, ftol, cplx):
    """sum_i w_i g_i(x_i)  (= alpha*g(x) for scalar w); inf outside dom g; None if not expressible"""
    c = s["cls"]
    n = x.size
    if c == "NoOp":
        return 0.0
    if c == "L1Reg":
        return wsum(w, s["lamda"] * np.abs(x))
    if c == "L2Reg":
        z = dec_sv(s["y"], cplx, n) if s.get("y") is not None else 0.0
        v = wsum(w, s["lamda"] / 2 * np.abs(x - z) ** 2)
        if s.get("proxh") is not None:
            h = G(s["proxh"], w, x, ftol, cplx)
            if h is None:
                return None
            v += h
        return v
    if c == "L2Proj":
        y = dec_sv(s.get("y", 0), cplx, n)
        return 0.0 if np.all(fibre_norms(x - y, s["shape"], s.get("axes")) <= s["epsilon"] + ftol) else INF
    if c == "LInfProj":
        b = dec_sv(s["bias"], cplx, n) if s.get("bias") is not None else 0.0
        return 0.0 if np.all(np.abs(x - b) <= s["epsilon"] + ftol) else INF
    if c == "L1Proj":
        return 0.0 if np.sum(np.abs(x)) <= s["epsilon"] + ftol else INF
    if c == "PsdProj":
        m = x.reshape(s["shape"])
        if np.max(np.abs(m - m.conj().T)) > ftol:
            return INF
        return 0.0 if np.min(np.linalg.eigvalsh((m + m.conj().T) / 2)) >= -ftol else INF
    if c == "BoxConstraint":
        lo, hi = dec_sv(s["lower"], cplx, n), dec_sv(s["upper"], cplx, n)
        return 0.0 if np.all(x >= lo - ftol) and np.all(x <= hi + ftol) else INF
    if c == "Stack":
        sizes = [size(spec_shape(q)) for q in s["ps"]]
        tot, k = 0.0, 0
        for q, nq, wq in zip(s["ps"], sizes, wsplit(w, sizes)):
            v = G(q, wq, x[k:k + nq], ftol, cplx)
            if v is None:
                return None
            tot += v; k += nq
        return tot
    if c == "UnitaryTransform":
        return G(s["p"], w, dense_of(s, cplx) @ x, ftol, cplx)
    if c == "Conj":
        return Gconj(s["p"], w, x, ftol, cplx)
    raise ValueError(c)


def Gconj(s, w, u, ftol, cplx):
    """sum_i w_i g_i^*(u_i) for the convex conjugate of the function of spec s"""
    c = s["cls"]
    n = u.size
    if c == "NoOp":
        return 0.0 if np.all(np.abs(u) <= ftol) else INF
    if c == "L1Reg":
        return 0.0 if np.all(np.abs(u) <= s["lamda"] + ftol) else INF
    if c == "L2Reg" and s.get("proxh") is None and s["lamda"] > 0:
        z = dec_sv(s["y"], cplx, n) if s.get("y") is not None else np.zeros(n)
        return wsum(w, np.abs(u) ** 2 / (2 * s["lamda"]) + np.real(np.conj(z) * u))
    if c == "LInfProj":
        b = dec_sv(s["bias"], cplx, n) if s.get("bias") is not None else np.zeros(n)
        return wsum(w, s["epsilon"] * np.abs(u) + np.real(np.conj(b) * u))
    if c == "BoxConstraint":
        lo, hi = dec_sv(s["lower"], cplx, n), dec_sv(s["upper"], cplx, n)
        return wsum(w, np.maximum(lo * u, hi * u))
    if c == "L1Proj":
        a = const_w(w)
        return None if a is None else a * s["epsilon"] * (np.max(np.abs(u)) if n else 0.0)
    if c == "L2Proj" and s.get("axes") is None:
        a = const_w(w)
        y = dec_sv(s.get("y", 0), cplx, n)
        return None if a is None else a * (s["epsilon"] * float(np.linalg.norm(u)) + float(np.real(np.vdot(y, u))))
    if c == "Conj":
        return G(s["p"], w, u, ftol, cplx)
    if c == "Stack":
        sizes = [size(spec_shape(q)) for q in s["ps"]]
        tot, k = 0.0, 0
        for q, nq, wq in zip(s["ps"], sizes, wsplit(w, sizes)):
            v = Gconj(q, wq, u[k:k + nq], ftol, cplx)
            if v is None:
                return None
            tot += v; k += nq
        return tot
    if c == "UnitaryTransform":
        return Gconj(s["p"], w, dense_of(s, cplx) @ u, ftol, cplx)
    return None


def rnd(nr, n, cplx, scale=1.0):
    v = nr.standard_normal(n) * scale
    if cplx:
        v = v + 1j * nr.standard_normal(n) * scale
    return v


def dom_sample(s, nr, cplx, scale, conj=False):
    """a random point of dom g (of dom g^* when conj)"""
    c = s["cls"]
    n = size(spec_shape(s))
    if c == "Conj":
        return dom_sample(s["p"], nr, cplx, scale, not conj)
    if c == "Stack":
        return np.concatenate([dom_sample(q, nr, cplx, scale, conj) for q in s["ps"]])
    if c == "UnitaryTransform":
        return dense_of(s, cplx).conj().T @ dom_sample(s["p"], nr, cplx, scale, conj)
    if conj:
        if c == "NoOp":
            return np.zeros(n, dtype=complex if cplx else float)
        if c == "L1Reg":
            v = rnd(nr, n, cplx)
            m = np.max(np.abs(v)) if n else 1.0
            r = nr.choice([1.0, nr.uniform()])
            return v / max(m, 1e-300) * s["lamda"] * r
        return rnd(nr, n, cplx, scale)
    if c in ("NoOp", "L1Reg"):
        return rnd(nr, n, cplx, scale)
    if c == "L2Reg":
        return rnd(nr, n, cplx, scale) if s.get("proxh") is None else dom_sample(s["proxh"], nr, cplx, scale)
    if c == "L2Proj":
        y = dec_sv(s.get("y", 0), cplx, n)
        v = rnd(nr, n, cplx)
        nm = fibre_norms(v, s["shape"], s.get("axes"))
        r = nr.choice([1.0, nr.uniform()])
        if s.get("axes") is None:
            v = v / max(nm[0], 1e-300)
        else:
            ax = tuple(sorted(set(int(k) % len(s["shape"]) for k in s["axes"])))
            den = np.sqrt((np.abs(v.reshape(s["shape"])) ** 2).sum(axis=ax, keepdims=True))
            v = (v.reshape(s["shape"]) / np.maximum(den, 1e-300)).ravel()
        return y + v * s["epsilon"] * r
    if c == "LInfProj":
        b = dec_sv(s["bias"], cplx, n) if s.get("bias") is not None else 0.0
        v = rnd(nr, n, cplx)
        v = v / np.maximum(np.abs(v), 1e-300) * nr.uniform(size=n) ** nr.choice([0.0, 1.0])
        return b + v * s["epsilon"]
    if c == "L1Proj":
        v = rnd(nr, n, cplx) * (nr.uniform(size=n) < 0.7)
        t = np.sum(np.abs(v))
        return v / max(t, 1e-300) * s["epsilon"] * nr.choice([1.0, nr.uniform()])
    if c == "PsdProj":
        k = s["shape"][0]
        b = rnd(nr, k * nr.randint(0, k + 1), cplx, scale).reshape(k, -1)
        return (b @ b.conj().T).ravel()
    if c == "BoxConstraint":
        lo, hi = dec_sv(s["lower"], cplx, n), dec_sv(s["upper"], cplx, n)
        t = nr.uniform(size=n)
        t = np.where(nr.uniform(size=n) < 0.2, np.round(t), t)
        return lo + (hi - lo) * t
    raise ValueError(c)


def rdot(a, b):
    return float(np.real(np.vdot(a, b)))


def oracle(case, x, out, nr, n_comp=40, n_pert=200):
    """numeric checks of the property on the implementation's output.
    returns list of (class, detail dict) problems; empty = property holds on this case."""
    cplx = case["cplx"]
    probs = []
    if list(out.shape) != list(x.shape):
        probs.append(("shape", {"expected_shape": list(x.shape), "observed_shape": list(out.shape)}))
        if out.size != x.size:
            return probs
    if not np.all(np.isfinite(out)):
        probs.append(("nonfinite", {}))
        return probs
    y, p = x.ravel().astype(complex if cplx else float), out.ravel()
    if case["kind"] == "thresh" and case["fn"] == "hard_thresh":
        lam = np.asarray(py_lam(case)).ravel() if isinstance(case["lam"], list) else case["lam"]
        ref = np.where(np.abs(y) > lam, y, 0)
        if not np.array_equal(ref, p):
            probs.append(("hard-map", {"expected": enc(ref, cplx)}))
        return probs
    if case["kind"] == "prox":
        s, alpha = case["spec"], alpha_py(case)
    else:
        s, alpha = equiv_spec(case)
        alpha = np.array(alpha, dtype=float) if isinstance(alpha, list) else alpha
    scale = max(1.0, float(np.max(np.abs(y))) if y.size else 1.0, float(np.max(np.abs(p))) if p.size else 1.0)
    ftol = 1e-9 * scale
    tol = 1e-9 * scale * scale * max(1, y.size)
    # (1) p in dom g, variational inequality against feasible competitors
    top_conj = s["cls"] == "Conj"
    Gp = G(s, alpha, p, ftol, cplx)
    if Gp is not None:
        if not math.isfinite(Gp):
            probs.append(("infeasible-output", {}))
            return probs
        worst = None
        for k in range(n_comp):
            z = dom_sample(s, nr, cplx, scale)
            if k % 3 == 1:
                t = nr.uniform()
                z = p + t * (z - p)
            Gz = G(s, alpha, z, ftol, cplx)
            if not math.isfinite(Gz):
                continue
            res = Gp + rdot(y - p, z - p) - Gz          # must be <= 0
            if res > tol and (worst is None or res > worst[0]):
                worst = (res, z)
        if worst:
            probs.append(("variational-inequality", {"residual": worst[0], "competitor": enc(worst[1], cplx)}))
        # (2) objective at p no larger than at perturbations
        Fp = 0.5 * rdot(p - y, p - y) + Gp
        worstF = None
        for k in range(n_pert):
            if k % 2 == 0:
                z = p + rnd(nr, p.size, cplx, scale * 10.0 ** (-nr.randint(0, 5)))
            else:
                f = dom_sample(s, nr, cplx, scale)
                z = p + nr.uniform() ** 2 * (f - p)
            Gz = G(s, alpha, z, ftol, cplx)
            if not math.isfinite(Gz):
                continue
            Fz = 0.5 * rdot(z - y, z - y) + Gz
            if Fp - Fz > tol and (worstF is None or Fp - Fz > worstF[0]):
                worstF = (Fp - Fz, z)
        if worstF:
            probs.append(("objective", {"gap": worstF[0], "better_point": enc(worstF[1], cplx)}))
    if top_conj:
        # Moreau in subgradient form: q = (y - p)/alpha in dom g and p in dg(q)
        inner = s["p"]
        q = (y - p) / alpha
        Gq = G(inner, 1.0, q, ftol, cplx)
        if Gq is not None:
            if not math.isfinite(Gq):
                probs.append(("conj-q-infeasible", {}))
            else:
                worst = None
                for k in range(n_comp):
                    z = dom_sample(inner, nr, cplx, scale)
                    Gz = G(inner, 1.0, z, ftol, cplx)
                    if not math.isfinite(Gz):
                        continue
                    res = Gq + rdot(p, z - q) - Gz
                    if res > tol * max(1.0, 1.0 / float(np.min(alpha))) and (worst is None or res > worst[0]):
                        worst = (res, z)
                if worst:
                    probs.append(("moreau-subgradient", {"residual": worst[0], "competitor": enc(worst[1], cplx)}))
    return probs


def projection_checks(sp, case, x, out, layout=None):
    """projections: feasible => unchanged; idempotent (the second application in the same memory layout)"""
    probs = []
    cplx = case["cplx"]
    if case["kind"] == "prox":
        s = case["spec"]
        if s["cls"] not in PROJ:
            return probs
    else:
        s, _ = equiv_spec(case)
        if s is None or s["cls"] not in PROJ:
            return probs
    if out.shape != x.shape:
        return probs
    scale = max(1.0, float(np.max(np.abs(x))) if x.size else 1.0)
    feas = G(s, 1.0, x.ravel(), 0.0, cplx) == 0.0
    if feas and not np.allclose(out, x, rtol=1e-12, atol=1e-13 * scale):
        probs.append(("feasible-changed", {}))
    c2 = dict(case)
    c2["input"] = enc(out, cplx)
    try:
        _, out2, _ = run_impl(sp, c2, layout=layout)
        if out2.shape != out.shape or not np.allclose(out2, out, rtol=1e-9, atol=1e-10 * scale):
            probs.append(("not-idempotent", {"second": enc(out2, cplx)}))
    except Exception as e:   # noqa
        probs.append(("idempotence-raised", {"error": repr(e)}))
    return probs


# ---------------------------------------------------------------- generators
GRID = [-3.0, -2.5, -2.0, -1.5, -1.0, -0.5, 0.0, 0.0, 0.5, 1.0, 1.5, 2.0, 2.5, 3.0]
TRIPLES = [(3.0, 4.0), (4.0, 3.0), (-3.0, 4.0), (0.6, 0.8), (1.5, 2.0), (-1.5, -2.0), (5.0, 12.0), (0.0, 5.0), (5.0, 0.0)]


def gen_shape(rng, maxn=24):
    while True:
        nd = rng.choice([1, 1, 2, 2, 3])
        sh = [rng.randint(1, 6) for _ in range(nd)]
        if size(sh) <= maxn:
            return sh


def gen_vals(rng, n, cplx, mode=None):
    mode = mode or rng.choice(["grid", "grid", "gauss", "gauss", "ties", "zeros", "big", "tiny", "sparse"])
    nr = np.random.RandomState(rng.randrange(2 ** 31))
    if mode == "zeros":
        v = np.zeros(n, dtype=complex if cplx else float)
    elif mode == "grid":
        v = np.array([rng.choice(GRID) for _ in range(n)], dtype=float)
        if cplx:
            v = np.array([complex(*rng.choice(TRIPLES)) * rng.choice([1, 1, 0.5, -1, 0]) if rng.random() < 0.6
                          else complex(rng.choice(GRID), rng.choice(GRID)) for _ in range(n)])
    elif mode == "ties":
        m = rng.choice([0.5, 1.0, 2.0])
        v = np.array([rng.choice([m, -m, m, 2 * m, 0.0]) for _ in range(n)], dtype=float)
        if cplx:
            v = v * np.array([rng.choice([1, 1j, -1, -1j, 0.6 + 0.8j]) for _ in range(n)])
    elif mode == "big":
        v = rnd(nr, n, cplx, 100.0)
    elif mode == "tiny":
        v = rnd(nr, n, cplx, 1e-3)
    elif mode == "sparse":
        v = rnd(nr, n, cplx) * (nr.uniform(size=n) < 0.4)
    else:
        v = rnd(nr, n, cplx)
    return v, mode


def gen_sv(rng, n, cplx, scalar_p=0.5, pos=False):
    """scalar or array parameter (bias / lower / ...)"""
    if rng.random() < scalar_p:
        v = rng.choice(GRID)
        v = abs(v) if pos else v
        return ([v, rng.choice(GRID)] if cplx and not pos else v)
    a, _ = gen_vals(rng, n, cplx and not pos, rng.choice(["grid", "gauss"]))
    a = np.abs(a) if pos else a
    return enc(a, cplx and not pos)


def gen_alpha(rng):
    return rng.choice([1.0, 1.0, 0.5, 2.0, 0.25, 3.0, round(rng.uniform(0.05, 4.0), 3), rng.uniform(0.01, 10.0)])


def leaf(rng, cls, shape, cplx):
    n = size(shape)
    lam = rng.choice([0.0, 0.5, 1.0, 1.0, 1.5, 2.0, rng.uniform(0.01, 3.0)])
    eps = rng.choice([0.5, 1.0, 2.0, 3.0, 5.0, rng.uniform(0.05, 6.0)])
    if cls == "NoOp":
        return {"cls": cls, "shape": shape}
    if cls == "L1Reg":
        return {"cls": cls, "shape": shape, "lamda": lam}
    if cls == "L2Reg":
        return {"cls": cls, "shape": shape, "lamda": lam, "y": None if rng.random() < 0.4 else gen_sv(rng, n, cplx), "proxh": None}
    if cls == "L2Proj":
        axes = None
        if len(shape) > 1 and rng.random() < 0.35:
            nd = len(shape)
            axes = sorted(set(rng.sample(range(-nd, nd), rng.randint(1, nd))), key=lambda a: a % nd)
            seen, keep = set(), []
            for a in axes:
                if a % nd not in seen:
                    seen.add(a % nd); keep.append(a)
            axes = keep
        return {"cls": cls, "shape": shape, "epsilon": eps, "y": 0 if rng.random() < 0.6 else gen_sv(rng, n, cplx), "axes": axes}
    if cls == "LInfProj":
        return {"cls": cls, "shape": shape, "epsilon": eps, "bias": None if rng.random() < 0.5 else gen_sv(rng, n, cplx)}
    if cls == "L1Proj":
        return {"cls": cls, "shape": shape, "epsilon": eps}
    if cls == "BoxConstraint":
        lo = gen_sv(rng, n, False)
        w = gen_sv(rng, n, False, pos=True)
        if isinstance(lo, list) or isinstance(w, list):
            lo_a, w_a = dec_sv(lo, False, n), dec_sv(w, False, n)
            return {"cls": cls, "shape": shape, "lower": enc(lo_a, False), "upper": enc(lo_a + w_a, False)}
        return {"cls": cls, "shape": shape, "lower": lo, "upper": lo + w}
    raise ValueError(cls)


def orth(rng, n, cplx):
    nr = np.random.RandomState(rng.randrange(2 ** 31))
    kind = rng.choice(["perm", "rot", "qr", "qr"])
    if kind == "perm":
        m = np.eye(n)[nr.permutation(n)] * nr.choice([-1.0, 1.0], size=n)[:, None]
    elif kind == "rot" and n >= 2:
        m = np.eye(n)
        m[:2, :2] = [[0.6, -0.8], [0.8, 0.6]]
    else:
        a = rnd(nr, n * n, cplx).reshape(n, n)
        m, _ = np.linalg.qr(a)
    return m


def gen_unitary(rng, inner_cls, cplx):
    n = rng.randint(1, 5)
    m = rng.choice([1, 1, 2, 3])
    ishape = [n, m]
    mat = orth(rng, n, cplx and rng.random() < 0.6)
    mc = bool(np.iscomplexobj(mat))
    inner = leaf(rng, inner_cls, ishape, cplx)
    return {"cls": "UnitaryTransform", "p": inner, "ishape": ishape, "mat": enc(mat, mc), "mat_cplx": mc, "mat_shape": [n, n]}


def gen_stack(rng, cplx, classes=("L1Reg", "L2Reg", "NoOp", "LInfProj", "L1Proj", "L2Proj")):
    k = rng.randint(1, 3)
    ps = []
    for _ in range(k):
        ps.append(leaf(rng, rng.choice(classes), gen_shape(rng, 8), cplx))
    return {"cls": "Stack", "ps": ps}


def gen_stack_alpha(rng, s, elementwise_ok):
    """array alpha for a Stack: constant per block; elementwise on separable leaves"""
    out = []
    for q in s["ps"]:
        n = size(spec_shape(q))
        if elementwise_ok and q["cls"] in ("L1Reg", "NoOp") and rng.random() < 0.4:
            out += [gen_alpha(rng) for _ in range(n)]
        else:
            out += [gen_alpha(rng)] * n
    return out


def gen_psd_input(rng, cplx):
    n = rng.randint(1, 4)
    nr = np.random.RandomState(rng.randrange(2 ** 31))
    a = rnd(nr, n * n, cplx).reshape(n, n)
    q, _ = np.linalg.qr(a)
    kind = rng.choice(["repeated", "repeated", "mixed", "psd", "negdef", "nonherm", "nonherm-psdpart", "zero", "int", "small", "small"])
    if kind == "small":      # eigenvalues just above / below / at the threshold 0
        w = np.array([rng.choice([0.05, 1e-3, -1e-3, -0.05, 0.0, 1.0, 0.3]) for _ in range(n)])
    elif kind == "repeated":
        w = np.array([rng.choice([2.0, -1.0]) for _ in range(n)])
    elif kind == "psd":
        w = np.abs(nr.standard_normal(n)) * rng.choice([1.0, 0.0, 1.0])
    elif kind == "negdef":
        w = -np.abs(nr.standard_normal(n)) - 0.1
    elif kind == "zero":
        w = np.zeros(n)
    else:
        w = nr.standard_normal(n) * 2
    if kind == "nonherm-psdpart":     # Hermitian part positive (semi)definite, plus a genuinely skew-Hermitian part
        w = np.abs(nr.standard_normal(n)) + rng.choice([0.0, 0.2])
    m = (q * w) @ q.conj().T
    if kind == "nonherm-psdpart":
        k_ = rnd(nr, n * n, cplx).reshape(n, n)
        m = m + (k_ - k_.conj().T) * 0.5 + (1j * np.eye(n) * 0.3 if cplx else 0)
    if kind == "nonherm":
        m = m + rnd(nr, n * n, cplx).reshape(n, n) * 0.5
    if kind == "int":
        m = np.round(rnd(nr, n * n, cplx).reshape(n, n) * 2)
        m = m + m.conj().T
    return m, kind


def special_input(rng, s, cplx):
    """inputs aimed at the edge classes of the top-level object: boundary / interior / exterior / zero"""
    c = s["cls"]
    n = size(spec_shape(s))
    nr = np.random.RandomState(rng.randrange(2 ** 31))
    kind = rng.choice(["boundary", "interior", "exterior", "random", "random", "zero"])
    if c in ("L2Proj", "LInfProj", "L1Proj", "BoxConstraint") and kind != "random":
        if kind == "zero":
            return np.zeros(n, dtype=complex if cplx else float), kind
        f = dom_sample(s, nr, cplx, 1.0)
        if c == "L2Proj":
            yb = dec_sv(s.get("y", 0), cplx, n)
        elif c == "LInfProj":
            yb = dec_sv(s["bias"], cplx, n) if s.get("bias") is not None else np.zeros(n)
        elif c == "BoxConstraint":
            yb = (dec_sv(s["lower"], cplx, n) + dec_sv(s["upper"], cplx, n)) / 2
        else:
            yb = np.zeros(n)
        if kind == "interior":
            return yb + (f - yb) * 0.5, kind
        if kind == "exterior":
            return yb + (f - yb) * rng.choice([1.5, 3.0, 10.0]) + rnd(nr, n, cplx, 0.3), kind
        # boundary: exact representable points on the sphere / l1 sphere / cube faces
        eps = s.get("epsilon", 1.0)
        if c == "L2Proj" and s.get("axes") is None and is_scalar_sv(s.get("y", 0), cplx) and n >= 2 and not cplx:
            v = np.zeros(n); i, j = rng.sample(range(n), 2)
            v[i], v[j] = 0.6 * eps, 0.8 * eps
            return yb + v, kind
        if c == "L2Proj" and s.get("axes") is None and cplx:
            v = np.zeros(n, dtype=complex); v[rng.randrange(n)] = (0.6 + 0.8j) * eps
            return yb + v, kind
        if c == "L1Proj":
            v = np.zeros(n, dtype=complex if cplx else float)
            k = rng.randint(1, min(n, 4))
            idx = rng.sample(range(n), k)
            for i in idx:
                v[i] = eps / k * rng.choice([1, -1]) * ((0.6 + 0.8j) if cplx and rng.random() < 0.5 else 1)
            return v, kind
        if c == "LInfProj":
            v = np.array([rng.choice([eps, -eps, eps / 2, 0.0, 2 * eps]) for _ in range(n)], dtype=complex if cplx else float)
            if cplx:
                v = v * np.array([rng.choice([1, 1j, 0.6 + 0.8j]) for _ in range(n)])
            return yb + v, kind
        return f, kind
    if c in ("L1Reg",) and kind == "boundary":
        # exactly on the threshold lamda*alpha for some entries: filled by caller (needs alpha)
        return None, "threshold"
    v, mode = gen_vals(rng, n, cplx)
    return v, mode


def gen_case(rng):
    cplx = rng.random() < 0.4
    r = rng.random()
    if r < 0.30:
        return gen_thresh_case(rng, cplx)
    top = rng.choice(["NoOp", "L1Reg", "L1Reg", "L2Reg", "L2Reg", "L2Proj", "L2Proj", "LInfProj", "LInfProj", "L1Proj", "L1Proj",
                      "L1Proj", "PsdProj", "PsdProj", "BoxConstraint", "Conj", "Conj", "Conj", "Stack", "Stack", "Stack",
                      "UnitaryTransform", "UnitaryTransform", "L2Reg+h", "L2Reg+h", "Conj(Stack)", "Stack(Conj)"])
    alpha = gen_alpha(rng)
    if top == "PsdProj":
        m, kind = gen_psd_input(rng, cplx)
        return {"kind": "prox", "cplx": cplx, "spec": {"cls": "PsdProj", "shape": list(m.shape)}, "alpha": alpha,
                "ishape": list(m.shape), "input": enc(m, cplx), "tag": "PsdProj:" + kind}
    if top == "BoxConstraint":
        cplx = False
    if top in ("NoOp", "L1Reg", "L2Reg", "L2Proj", "LInfProj", "L1Proj", "BoxConstraint"):
        s = leaf(rng, top, gen_shape(rng), cplx)
    elif top == "Conj":
        inner = rng.choice(["L1Reg", "L1Reg", "L2Reg", "L1Proj", "L2Proj", "LInfProj", "NoOp", "BoxConstraint", "ConjConj"])
        if inner == "BoxConstraint":
            cplx = False
        if inner == "ConjConj":
            s = {"cls": "Conj", "p": {"cls": "Conj", "p": leaf(rng, rng.choice(["L1Reg", "L2Proj"]), gen_shape(rng), cplx)}}
        else:
            q = leaf(rng, inner, gen_shape(rng), cplx)
            if inner == "L2Proj":
                q["axes"] = None
            s = {"cls": "Conj", "p": q}
    elif top == "Stack":
        s = gen_stack(rng, cplx)
        if rng.random() < 0.5:
            alpha = gen_stack_alpha(rng, s, True)
    elif top == "UnitaryTransform":
        s = gen_unitary(rng, rng.choice(["L1Reg", "L1Reg", "L2Reg", "LInfProj", "L1Proj", "L2Proj"]), cplx)
    elif top == "L2Reg+h":
        sh = gen_shape(rng)
        s = leaf(rng, "L2Reg", sh, cplx)
        s["proxh"] = leaf(rng, rng.choice(["L1Reg", "L1Reg", "L2Proj", "LInfProj", "L1Proj", "NoOp"]), sh, cplx)
    elif top == "Conj(Stack)":
        st = gen_stack(rng, cplx, classes=("L1Reg", "L2Reg", "LInfProj", "NoOp"))
        for q in st["ps"]:
            if q["cls"] == "L2Reg" and q["lamda"] == 0.0:
                q["lamda"] = 0.5
        s = {"cls": "Conj", "p": st}
        if rng.random() < 0.4:
            alpha = gen_stack_alpha(rng, st, False)
    else:   # Stack(Conj)
        sh1, sh2 = gen_shape(rng, 8), gen_shape(rng, 8)
        s = {"cls": "Stack", "ps": [{"cls": "Conj", "p": leaf(rng, "L1Reg", sh1, cplx)}, leaf(rng, rng.choice(["L2Reg", "L1Reg"]), sh2, cplx)]}
        if rng.random() < 0.4:
            alpha = gen_stack_alpha(rng, s, False)
    ishape = spec_shape(s)
    v, mode = special_input(rng, s, cplx)
    if v is None:    # exactly-on-threshold entries for L1Reg
        t = s["lamda"] * alpha
        n = size(ishape)
        v = np.array([rng.choice([t, -t, t, 2 * t, t / 2, 0.0]) for _ in range(n)], dtype=complex if cplx else float)
        if cplx:
            v = v * np.array([rng.choice([1, 1j, -1j, 0.6 + 0.8j]) for _ in range(n)])
    return {"kind": "prox", "cplx": cplx, "spec": s, "alpha": alpha, "ishape": ishape, "input": enc(v, cplx),
            "tag": "%s:%s" % (top, mode)}


def gen_thresh_case(rng, cplx):
    fn = rng.choice(["soft_thresh", "soft_thresh", "hard_thresh", "l1_proj", "l1_proj", "l2_proj", "l2_proj", "linf_proj", "psd_proj"])
    if fn == "psd_proj":
        m, kind = gen_psd_input(rng, cplx)
        return {"kind": "thresh", "fn": fn, "cplx": cplx, "ishape": list(m.shape), "input": enc(m, cplx), "tag": "psd_proj:" + kind}
    sh = gen_shape(rng)
    n = size(sh)
    v, mode = gen_vals(rng, n, cplx)
    c = {"kind": "thresh", "fn": fn, "cplx": cplx, "ishape": sh}
    if fn in ("soft_thresh", "hard_thresh"):
        if rng.random() < 0.3:
            c["lam"] = [rng.choice([0.0, 0.5, 1.0, 2.0, 5.0, 2.5]) for _ in range(n)]
        else:
            c["lam"] = rng.choice([0.0, 0.5, 1.0, 2.0, 5.0, 2.5, rng.uniform(0, 3)])
    else:
        c["eps"] = rng.choice([0.5, 1.0, 2.0, 3.0, 5.0, rng.uniform(0.05, 6.0)])
        s, _ = equiv_spec(dict(c, **({"axes": None} if fn == "l2_proj" else {})))
        if fn == "l2_proj" and len(sh) > 1 and rng.random() < 0.4:
            nd = len(sh)
            c["axes"] = [rng.choice(range(-nd, nd))]
            if rng.random() < 0.3 and nd > 2:
                c["axes"] = [0, -1]
        if fn == "linf_proj" and rng.random() < 0.4:
            c["bias"] = gen_sv(rng, n, cplx)
        s, _ = equiv_spec(c)
        if rng.random() < 0.6:
            v2, mode2 = special_input(rng, s, cplx)
            if v2 is not None:
                v, mode = v2, mode2
    c["input"] = enc(v, cplx)
    c["tag"] = "%s:%s" % (fn, mode)
    return c


def corpus_cases():
    q = np.array([[2.0, -1.0, 2.0], [2.0, 2.0, -1.0], [-1.0, 2.0, 2.0]]) / 3.0     # orthogonal
    f4 = (q * np.array([2.0, 2.0, -1.0])) @ q.T
    f4 = (f4 + f4.T) / 2
    cs = [
        # F3: L1Proj on a feasible [2,3] array (pinned tree: RuntimeError), and [6,1] (pinned tree: shape (6,))
        {"kind": "prox", "cplx": False, "spec": {"cls": "L1Proj", "shape": [2, 3], "epsilon": 100.0}, "alpha": 1.0,
         "ishape": [2, 3], "input": [1.0, -2.0, 0.5, 0.0, 3.0, -1.0], "tag": "corpus:F3"},
        {"kind": "prox", "cplx": False, "spec": {"cls": "L1Proj", "shape": [6, 1], "epsilon": 100.0}, "alpha": 1.0,
         "ishape": [6, 1], "input": [1.0, -2.0, 0.5, 0.0, 3.0, -1.0], "tag": "corpus:F3"},
        {"kind": "thresh", "fn": "l1_proj", "cplx": False, "ishape": [2, 3], "eps": 100.0,
         "input": [1.0, -2.0, 0.5, 0.0, 3.0, -1.0], "tag": "corpus:F3"},
        # F4: Q diag(2,2,-1) Q^T (pinned tree: general eig, error 0.73)
        {"kind": "prox", "cplx": False, "spec": {"cls": "PsdProj", "shape": [3, 3]}, "alpha": 1.0, "ishape": [3, 3],
         "input": enc(f4, False), "tag": "corpus:F4"},
        {"kind": "thresh", "fn": "psd_proj", "cplx": False, "ishape": [3, 3], "input": enc(f4, False), "tag": "corpus:F4"},
        {"kind": "thresh", "fn": "psd_proj", "cplx": True, "ishape": [3, 3], "input": enc(f4.astype(complex), True), "tag": "corpus:F4"},
        # eigenvalues just above / below / at 0
        {"kind": "thresh", "fn": "psd_proj", "cplx": False, "ishape": [3, 3],
         "input": enc((q * np.array([0.05, -0.05, 0.0])) @ q.T, False), "tag": "corpus:psd-small"},
        {"kind": "prox", "cplx": False, "spec": {"cls": "PsdProj", "shape": [2, 2]}, "alpha": 1.0, "ishape": [2, 2],
         "input": [0.001, 0.0, 0.0, 0.3], "tag": "corpus:psd-small"},
        # exactly on the threshold / on the boundary
        {"kind": "thresh", "fn": "soft_thresh", "cplx": False, "ishape": [5], "lam": 1.0, "input": [1.0, -1.0, 0.0, 2.0, -0.5], "tag": "corpus:threshold"},
        {"kind": "thresh", "fn": "soft_thresh", "cplx": True, "ishape": [2, 2], "lam": 5.0,
         "input": [[3.0, 4.0], [-4.0, 3.0], [0.0, 0.0], [6.0, 8.0]], "tag": "corpus:threshold"},
        {"kind": "thresh", "fn": "hard_thresh", "cplx": False, "ishape": [4], "lam": 1.0, "input": [1.0, -1.0, 1.5, -2.0], "tag": "corpus:threshold"},
        {"kind": "thresh", "fn": "l2_proj", "cplx": False, "ishape": [2], "eps": 5.0, "input": [3.0, 4.0], "tag": "corpus:boundary"},
        {"kind": "thresh", "fn": "l2_proj", "cplx": False, "ishape": [3], "eps": 1.0, "input": [0.0, 0.0, 0.0], "tag": "corpus:zero"},
        {"kind": "thresh", "fn": "l1_proj", "cplx": False, "ishape": [4], "eps": 4.0, "input": [1.0, -1.0, 1.0, 1.0], "tag": "corpus:boundary-ties"},
        {"kind": "thresh", "fn": "l1_proj", "cplx": False, "ishape": [2, 2], "eps": 1.0, "input": [2.0, 2.0, -2.0, 2.0], "tag": "corpus:ties"},
        {"kind": "thresh", "fn": "l1_proj", "cplx": False, "ishape": [3], "eps": 1.0, "input": [0.0, 0.0, 0.0], "tag": "corpus:zero"},
        # multi-dimensional inputs whose value pattern is not symmetric under transposition (memory-layout runs:
        # a flattening in memory order instead of index order permutes these), projecting and feasible branch
        {"kind": "thresh", "fn": "l1_proj", "cplx": False, "ishape": [2, 3], "eps": 2.0,
         "input": [3.0, -2.0, 0.5, 0.0, 1.0, -1.0], "tag": "corpus:layout"},
        {"kind": "prox", "cplx": True, "spec": {"cls": "L1Proj", "shape": [3, 2], "epsilon": 1.5}, "alpha": 1.0, "ishape": [3, 2],
         "input": [[3.0, 4.0], [0.0, 0.0], [0.5, 0.0], [0.0, -2.0], [1.0, 1.0], [0.0, 0.25]], "tag": "corpus:layout"},
        {"kind": "prox", "cplx": False, "spec": {"cls": "L1Proj", "shape": [2, 2, 3], "epsilon": 100.0}, "alpha": 1.0,
         "ishape": [2, 2, 3], "input": [float(v) for v in range(12)], "tag": "corpus:layout"},
        {"kind": "prox", "cplx": False, "spec": {"cls": "Conj", "p": {"cls": "L1Proj", "shape": [2, 3], "epsilon": 2.0}}, "alpha": 0.5,
         "ishape": [2, 3], "input": [3.0, -2.0, 0.5, 0.0, 1.0, -1.0], "tag": "corpus:layout"},
        {"kind": "thresh", "fn": "linf_proj", "cplx": False, "ishape": [4], "eps": 1.0, "input": [1.0, -1.0, 3.0, 0.25], "tag": "corpus:boundary"},
        {"kind": "prox", "cplx": False, "spec": {"cls": "Conj", "p": {"cls": "L1Reg", "shape": [3], "lamda": 1.0}}, "alpha": 2.0,
         "ishape": [3], "input": [3.0, -0.5, 1.0], "tag": "corpus:Conj(L1Reg)"},
        {"kind": "prox", "cplx": False, "spec": {"cls": "Stack", "ps": [{"cls": "L1Reg", "shape": [2], "lamda": 1.0},
                                                                       {"cls": "L2Reg", "shape": [2, 2], "lamda": 1.0, "y": None, "proxh": None}]},
         "alpha": [1.0, 1.0, 2.0, 2.0, 2.0, 2.0], "ishape": [6], "input": [0.0, 1.0, 2.0, 3.0, 4.0, 5.0], "tag": "corpus:Stack-array-alpha"},
        {"kind": "prox", "cplx": False, "spec": {"cls": "L2Reg", "shape": [3], "lamda": 2.0, "y": [1.0, 0.0, -1.0],
                                                 "proxh": {"cls": "L1Reg", "shape": [3], "lamda": 1.0}},
         "alpha": 0.5, "ishape": [3], "input": [3.0, -0.5, 1.0], "tag": "corpus:L2Reg+L1Reg"},
    ]
    return cs


def case_class(case):
    if case["kind"] == "thresh":
        return "thresh." + case["fn"] + (":c" if case["cplx"] else ":r")
    return spec_name(case["spec"]) + (":c" if case["cplx"] else ":r")


def spec_name(s):
    c = s["cls"]
    if c == "Conj":
        return "Conj(%s)" % spec_name(s["p"])
    if c == "Stack":
        return "Stack(%s)" % ",".join(sorted(set(spec_name(q) for q in s["ps"])))
    if c == "UnitaryTransform":
        return "Unitary(%s)" % spec_name(s["p"])
    if c == "L2Reg" and s.get("proxh") is not None:
        return "L2Reg(h=%s)" % spec_name(s["proxh"])
    return c


# ---------------------------------------------------------------- the check
def prepare(sp, case):
    if case["kind"] == "prox":
        fill_dense(sp, case["spec"], case["cplx"])


def run(ctx):
    ctx.source_hash("sigpy/prox.py", "sigpy/thresh.py")
    # tie by translation (DESIGN 2.8): gen/Gen_prox.v is regenerated from thresh.py / prox.py (translate_all job "prox") and
    # compiled; its lemmas gen_*_ok state generated == hand model (model/Prox.v).  notes/translate_prox.md
    from tools import translate_prox
    tie_broken = translate_prox.tie(ctx)     # obligations "translate:sigpy/thresh.py (...); sigpy/prox.py (...)", "tie:generated ... == hand model"
    proof_ok = ctx.prove("Prop_C11.v")
    sp = core.import_sigpy()
    rng = ctx.rng
    n = ctx.n(420, 6000)
    cases = corpus_cases()
    while len(cases) < n:
        cases.append(gen_case(rng))
    done = []
    reported = set()
    for c in cases:
        cls = case_class(c)
        key = json.dumps(c, sort_keys=True)
        try:
            prepare(sp, c)
            x, out, eigs = run_impl(sp, c)
        except Exception as e:      # a valid input was rejected / crashed
            ctx.count(cls + ":exception", key=key, sample={"tag": c.get("tag")})
            root = e.__cause__ or e
            sig = "C11:exception:" + cls
            if sig not in reported:
                reported.add(sig)
                ctx.violation("%s raised %s (%s) on a valid input" % (cls, type(e).__name__, root),
                              {"kind": "impl-exception", "case": c, "expected": "an array of shape %s" % c["ishape"],
                               "observed": repr(e) + " <- " + repr(root)}, signature=sig)
            continue
        try:
            expr = coq_expr(c, x, out, eigs)
        except KeyError as e:
            expr = "false"          # the oracle protocol itself was not followed (e.g. no eigh call recorded)
            ctx.notes.append("case %s: %s" % (cls, e))
        nontriv = x.size > 1 and not (out.shape == x.shape and np.array_equal(out, x))
        ctx.count(cls, key=key, nontrivial=nontriv,
                  sample={"tag": c.get("tag"), "alpha": c.get("alpha"), "input": c["input"][:8], "output": enc(out, c["cplx"])[:8]})
        ctx.coverage["histogram"]["tag:" + c.get("tag", "?").split(":")[-1]] = \
            ctx.coverage["histogram"].get("tag:" + c.get("tag", "?").split(":")[-1], 0) + 1
        done.append(dict(case=c, x=x, out=out, expr=expr, cls=cls))
    # (a) numeric oracle on the implementation (source of failing inputs)
    bad_oracle = []
    n_layout_runs = bad_layout = 0
    for d in done:
        nr = np.random.RandomState(rng.randrange(2 ** 31))
        probs = oracle(d["case"], d["x"], d["out"], nr) + projection_checks(sp, d["case"], d["x"], d["out"])
        # (a') the same values in non-C-contiguous memory layouts: same output, same oracle
        lprobs, ran = layout_checks(sp, d["case"], d["x"], d["out"], nr)
        n_layout_runs += len(ran)
        multi = len(d["case"]["ishape"]) >= 2 and sorted(d["case"]["ishape"])[-2] > 1
        for lay in ran:
            hk = "layout:%s%s" % (lay, ":multi-d" if multi else "")
            ctx.coverage["histogram"][hk] = ctx.coverage["histogram"].get(hk, 0) + 1
        if lprobs:
            bad_layout += 1
        probs = probs + lprobs
        # (a3) object reuse: feeding a Prox object's result back into the SAME object, and keeping an earlier result across a later
        # call, give what two fresh objects give (a work buffer kept inside the object must not leak into results)
        dcr = d["case"]
        if dcr["kind"] == "prox" and dcr["spec"].get("cls") not in ("PsdProj",):
            try:
                a_ = alpha_py(dcr)
                inner = np.array(build(sp, dcr["spec"], dcr["cplx"])(a_, d["x"].copy()), copy=True)
                fresh = np.asarray(build(sp, dcr["spec"], dcr["cplx"])(a_, inner))
                Pobj = build(sp, dcr["spec"], dcr["cplx"])
                t1 = Pobj(a_, d["x"].copy())
                keep = np.array(t1, copy=True)
                t2 = np.asarray(Pobj(a_, t1))
                hk = "reuse:same-object-twice"
                ctx.coverage["histogram"][hk] = ctx.coverage["histogram"].get(hk, 0) + 1
                sc = max(1.0, float(np.max(np.abs(fresh))) if fresh.size else 1.0)
                if t2.shape != fresh.shape or not np.all(np.abs(t2 - fresh) <= 1e-12 * sc):
                    probs.append(("object-reuse", {"expected": enc(fresh, dcr["cplx"]), "expected_shape": list(fresh.shape),
                                                   "observed": enc(t2, dcr["cplx"]), "observed_shape": list(t2.shape),
                                                   "what": "P(alpha, P(alpha, y)) with one object differs from the same with two fresh objects"}))
                elif t1 is not t2 and not np.array_equal(np.asarray(t1), keep, equal_nan=True):
                    probs.append(("result-overwritten", {"expected": enc(keep, dcr["cplx"]), "expected_shape": list(keep.shape),
                                                         "observed": enc(np.asarray(t1), dcr["cplx"]), "observed_shape": list(np.asarray(t1).shape),
                                                         "what": "the array returned by the first call was changed by the second call"}))
            except Exception:      # noqa  (exceptions on valid inputs are reported by the main run)
                pass
        # (a'') real-valued y handed over in a REAL dtype while the operator's parameters (ball centres, biases, unitary
        # matrices, nested blocks) are complex: the minimiser is the same point as for the same values stored as complex
        dc = d["case"]
        if dc["kind"] == "prox" and dc["cplx"]:
            xr = np.ascontiguousarray(np.real(d["x"]))
            try:
                Pobj = build(sp, dc["spec"], True)
                o_r = np.asarray(Pobj(alpha_py(dc), xr.copy()))
                o_c = np.asarray(build(sp, dc["spec"], True)(alpha_py(dc), xr.astype(np.complex128)))
                sc = max(1.0, float(np.max(np.abs(o_c))) if o_c.size else 1.0)
                hk = "storage:real-dtype-y-with-complex-parameters"
                ctx.coverage["histogram"][hk] = ctx.coverage["histogram"].get(hk, 0) + 1
                if o_r.shape != o_c.shape or not np.all(np.abs(o_r - o_c) <= 1e-10 * sc):
                    probs.append(("real-dtype-storage", {"input_real_dtype": xr.ravel().tolist(), "expected": enc(o_c, True), "expected_shape": list(o_c.shape),
                                                         "observed": enc(o_r.astype(np.complex128), True), "observed_shape": list(o_r.shape),
                                                         "observed_dtype": str(o_r.dtype)}))
            except Exception:      # noqa
                # L2Reg with a complex centre updates its real-dtype input in place and numpy refuses the cast: the call is
                # rejected, not answered wrongly (recorded, not alarmed; DESIGN 7.2)
                hk = "storage:real-dtype-y-with-complex-parameters:rejected"
                ctx.coverage["histogram"][hk] = ctx.coverage["histogram"].get(hk, 0) + 1
        d["probs"] = probs
        if probs:
            bad_oracle.append(d)
    # (b) implementation vs the Coq model
    failing, corr_ok = [], True
    try:
        if not ctx.make(["run/RunC11.vo"]):
            raise RuntimeError("run/RunC11.vo does not build")
        failing = L.run_bool_cases(ctx, "c11", HEADER, done, per_file=40)
    except RuntimeError as e:
        corr_ok = False
        ctx.notes.append("correspondence could not run: %s" % str(e)[:800])
    ctx.obligation("corr:model==impl (%d cases)" % len(done), corr_ok and not failing)
    ctx.obligation("oracle:variational-inequality/objective/shape/projection (%d cases)" % len(done),
                   not any(not k.startswith("layout") for d in bad_oracle for k, _ in d["probs"]))
    ctx.obligation("oracle:memory-layout independence, F-ordered / transposed / permuted / strided views (%d runs)" % n_layout_runs,
                   bad_layout == 0)
    ctx.coverage["rule"] = (
        "seeded generator over the 6 thresh functions and all 11 Prox classes with nestings (Conj(leaf), Conj(Conj), Conj(Stack), "
        "Stack(leaves), Stack(Conj), UnitaryTransform(leaf, orthogonal/unitary MatMul), L2Reg(proxh=leaf)); shapes 1-3 dims <= 24 "
        "entries; real and complex; alpha scalar, per-block and elementwise arrays for Stack; inputs: grid values exactly on "
        "thresholds, ties, zeros, sparse, gaussian at scales 1e-3/1/100, on-boundary/interior/exterior points of the balls, "
        "PSD inputs with repeated/zero/negative spectra and non-Hermitian parts; a case is non-trivial when the array has >1 "
        "entry and the output differs from the input; distinct = distinct (spec, alpha, input); every case is re-run on the same "
        "values in non-C-contiguous memory (>=2-D: Fortran-ordered copy, transposed view, strided view of a larger array, 3-D also an "
        "axes-permuted view; 1-D: strided and negative-stride views) and must return the output of the C-contiguous run "
        "(histogram keys layout:*)")
    ctx.coverage["disagreements_model_vs_impl"] = len(failing)
    ctx.coverage["disagreements_oracle_vs_impl"] = len(bad_oracle)
    for d in bad_oracle:
        for kind, det in d["probs"]:
            sig = "C11:%s:%s" % (kind, d["cls"])
            if sig in reported:
                continue
            reported.add(sig)
            rep = {"kind": "oracle", "check": kind, "case": d["case"], "input": d["case"]["input"],
                   "observed": enc(d["out"], d["case"]["cplx"]), "observed_shape": list(d["out"].shape),
                   "expected": "P(alpha,y) is the minimiser of 1/2||x-y||^2 + alpha g(x) in y's shape (%s must hold)" % kind}
            rep.update(det)
            if kind.startswith("layout"):
                rep["kind"] = "oracle-layout"
                what = {"layout": "output for the %s input differs from the output for the C-contiguous copy of the same values",
                        "layout-oracle": "output for the %s input differs in the last bits and fails the oracle",
                        "layout-exception": "the %s input of the same values raised"}[kind] % (det["layout"] + "-layout")
                ctx.violation("%s: %s" % (d["cls"], what), rep, signature=sig)
                continue
            ctx.violation("%s: %s fails on the implementation's output" % (d["cls"], kind), rep, signature=sig)
    bad_idx = set(id(d) for d in bad_oracle)
    for i in failing:
        d = done[i]
        sig = "C11:corr:" + d["cls"]
        if sig in reported or any(s.endswith(":" + d["cls"]) for s in reported):
            continue
        reported.add(sig)
        ctx.violation("model and implementation disagree on %s" % d["cls"],
                      {"kind": "correspondence", "broken": "corr:" + d["cls"], "case": d["case"], "input": d["case"]["input"],
                       "observed": enc(d["out"], d["case"]["cplx"]), "observed_shape": list(d["out"].shape),
                       "coq_check": d["expr"][:4000]},
                      found_input=id(d) in bad_idx, signature=sig)
    if not proof_ok or not corr_ok or tie_broken:
        if not ctx.violations:
            broken = getattr(ctx, "broken_proof", tie_broken or {"theorem": "corr:coq-run", "log": "; ".join(ctx.notes)[-2000:]})
            ctx.violation("proof obligation no longer checks: %s" % broken.get("theorem"),
                          {"kind": "proof", "broken": broken}, found_input=False, signature="C11:proof")
    ctx.trusted += TRUSTED
    ctx.proved += PROVED
    ctx.validated_only += VALIDATED


def replay(obj):
    if "case" not in obj:        # a broken proof / correspondence without a failing input: nothing to re-run
        print("no input to replay:", json.dumps(obj.get("broken", obj), default=str)[:2000])
        return 1
    sp = core.import_sigpy()
    c = obj["case"]
    try:
        prepare(sp, c)
        x, out, _ = run_impl(sp, c)
    except Exception as e:   # noqa
        print("case", json.dumps(c)[:2000], "\nraised", repr(e), "<-", repr(e.__cause__))
        return 1
    nr = np.random.RandomState(12345)
    probs = oracle(c, x, out, nr, n_comp=200, n_pert=400) + projection_checks(sp, c, x, out)
    lprobs, ran = layout_checks(sp, c, x, out, nr)
    for k, d in lprobs:
        print("layout %s: %s; expected (C-contiguous run) %s observed %s" % (d.get("layout"), k, d.get("expected"),
                                                                          d.get("observed", d.get("error"))))
    print("layouts run:", ran)
    probs = probs + lprobs
    print("case", json.dumps(c)[:2000])
    print("input", x.tolist(), "\nobserved", out.tolist(), "shape", out.shape)
    print("problems:", [(k, {a: b for a, b in d.items() if a in ("residual", "gap", "expected_shape", "observed_shape")}) for k, d in probs])
    return 1 if probs else 0


TRUSTED = [
    "Coq 8.16.1 kernel + vm_compute on PrimFloat (no native_compute, no extraction)",
    "hand model coq/model/Prox.v of thresh.py / prox.py (numba @vectorize kernels read as per-element functions; numpy "
    "broadcasting of scalar-or-array operands; sort/cumsum modelled by insertion sort and a sequential scan), tied by this run's correspondence "
    "AND by translation: tools/translate_prox.py regenerates the definitions from the source text of thresh.py / prox.py on every run "
    "(gen/Gen_prox.v) and the lemmas gen_*_ok prove them equal to the hand model; trusted there: the translator's readings of numpy "
    "(notes/translate_prox.md: elementwise fusion, broadcasting = sv_get, ravel/reshape/copy = identity on values, sort()[::-1] = sort_desc, "
    "cumsum/arange/flatnonzero().max() = left-to-right scan, keepdims sum = sum over equal group keys, xp == np on the CPU)",
    "numpy.linalg.eigh as an oracle: (w, V) with V unitary and (M+M^H)/2 = V diag(w) V^H; the recorded answer is checked against "
    "this specification inside Coq on every PSD case (a test of the assumption, not a proof)",
    "UnitaryTransform: the operator A is represented by its dense matrix obtained by applying the implementation's A to basis vectors; "
    "A^H A = A A^H = I is a hypothesis of the theorem (C01 covers A.H)",
    "binary64 rounding: theorems are over R; floats and reals are related only by the 1e-12 correspondence",
]
PROVED = ["see coq/props/Prop_C11.v (theorem list in obligation_list); notes/C11.md lists full vs partial"]
VALIDATED = [
    "model == implementation on floats: by correspondence only (no verified floating-point analysis)",
    "independence of the memory layout of the input (the model is about values): dynamic check, every case in 2-4 non-C-contiguous layouts",
    "L2Proj with explicit axes (one ball per fibre): model and oracle only; the theorem is for axes=None",
    "elementwise array alpha on separable leaves and array lamda in soft_thresh: theorem stated for per-entry thresholds; "
    "Stack with array alpha proved for per-block constants",
    "complex hard_thresh / BoxConstraint on complex data: not part of the property (np.clip on complex is lexicographic)",
]
