#!/bin/bash
# usage: tools/full_pass.sh <seed> [tier]   — runs every claimed check; evidence goes to build/evidence_pass_<seed> unless seed==1 and tier==quick
cd "$(dirname "$0")/.."
SEED=${1:-1}; TIER=${2:-quick}
export VERIF_SEED=$SEED
if [ "$SEED" != "1" ] || [ "$TIER" != "quick" ]; then export VERIF_EVIDENCE_DIR=$PWD/build/evidence_pass_${SEED}_$TIER; mkdir -p $VERIF_EVIDENCE_DIR; fi
for p in $(python3 -c "import json; print(' '.join(c['property_id'] for c in json.load(open('MANIFEST.json'))['checks']))"); do
  ./check $p --tier $TIER 2>&1 | grep -E "^\[|^VIOLATION|^KNOWN" 
done
