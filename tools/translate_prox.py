#!/usr/bin/env python3
"""Fail-closed translator: sigpy/thresh.py and the `_prox` / `__init__` methods of sigpy/prox.py (Python `ast`) -> Gallina.

From the SOURCE TEXT of thresh.py and prox.py (and the text of util._normalize_axes / prod / vec / split in util.py, which is
compared with the text these readings were written for) it regenerates, on every run, coq/gen/Gen_prox.v:

    gen_soft_thresh1, gen_hard_thresh1           the numba `@nb.vectorize` kernels as scalar functions
    gen_soft_thresh, gen_hard_thresh             (lamda scalar or array)
    gen_l2_proj, gen_l2_proj_axes                thresh.l2_proj at axes=None / explicit axes
    gen_linf_proj, gen_l1_proj, gen_psd_proj     (l1_proj: sort + sequential cumsum scan; psd_proj over an eigh oracle argument)
    gen_shape_<Class>                            Prox.shape as computed by <Class>.__init__
    gen_prox_<Class>                             <Class>._prox  (11 classes; recursive calls go through the argument `rec`)

over the SAME operations as the hand model coq/model/Prox.v (records ROps / Elem, sv, imap, map2, rsum, sort_desc, chunks,
transpose, matvec, ...), each followed by `Lemma gen_<f>_ok : forall ..., gen_<f> ... = <hand model term>` proved by unfolding,
case analysis on the tests that occur, and `reflexivity` -- nothing else.

Normal form (see notes/translate_prox.md):
  * arrays are flat row-major lists; an expression over ONE array and scalars / scalar-or-array parameters is ONE
    `map (fun x => ..)` / `imap (fun i x => ..)` over that array (numpy broadcasting of an `sv` operand = `sv_get d p i`);
    an operation between two different arrays is `map2 (fun a b => ..) A B` of the two materialised operands;
    every array assignment materialises (`let`);
  * a keepdims reduction over explicit axes is an index-dependent scalar (the sum over the entries with the same group key);
  * an `if` forks the path (the rest of the function is translated once per branch); a test already decided is resolved
    statically; `x is None` -> `match x with None | Some`; `np.isscalar(alpha)` -> `match alpha with SS | SV`;
    inside a numba kernel an `if` that only assigns is joined (numba type unification: `sign = 0` is the zero ELEMENT);
  * a call that may raise (`.max()` of an empty array, a nested Prox) is an `option`; its use is an `obind`;
  * `st[flatnonzero(c).max()]` over `cumsum` / `arange` operands is a sequential scan (a local `fix`).
Entry points: translate_prox(repo[, thresh_path, prox_path]) -> text; tie(ctx) for props/C11.py;
tools/test_translate_prox.py is the self-test.
"""
import ast
import hashlib
import os
import re
import sys


class TranslationError(Exception):
    pass


# placeholders inside bodies of elementwise values
PI, PX, PA, PB, PS, PCS, PK = "§i", "§x", "§a", "§b", "§s", "§cs", "§k"
PD = "§d"       # suffix of a reference to a let-bound index-dependent scalar (removed when rendered)


# ---------------------------------------------------------------------------------------------
# symbolic values
# ---------------------------------------------------------------------------------------------
class EV:
    """Elementwise value.  base None: a scalar (may depend on the flat index through PI, or on one sv operand through PS);
    base str: a view `body` over the list `base` (PX = the entry, PI = its flat index);
    base (A, B): a view over two lists of equal shape (PA, PB)."""

    def __init__(self, ty, body, base=None, sv=None, tok=None, fresh=True, shape=None, scan=None):
        self.ty, self.body, self.base, self.sv, self.tok, self.fresh, self.shape = ty, body, base, sv, tok, fresh, shape
        self.scan = scan            # None or {"base": sorted list term, "k0": int or None}
        self.flatst = False         # the array is currently flattened (.ravel()) and not yet reshaped back

    @property
    def dep(self):
        return PI in self.body or PD in self.body

    def is_array(self):
        return self.base is not None

    def plain(self):
        return self.base is None and self.sv is None and not self.dep and self.scan is None


class Lit:
    def __init__(self, v):
        self.v = v


class Flt:
    def __init__(self, v):
        self.v = v


class NoneV:
    pass


class Marker:
    def __init__(self, kind):
        self.kind = kind


class Opt:
    """an optional parameter: Coq term of type `option _`; `inner(var)` builds the value in the Some branch"""

    def __init__(self, term, somevar, inner):
        self.term, self.somevar, self.inner = term, somevar, inner


class ProxV:
    def __init__(self, term):
        self.term = term


class LinopV:
    def __init__(self, mat, ishape, adjoint=False):
        self.mat, self.ishape, self.adjoint = mat, ishape, adjoint


class ShapeV:                       # the shape of an array (token identifies the array's shape) or a shape-valued parameter
    def __init__(self, term, tok=None):
        self.term, self.tok = term, tok


class NdimV:
    def __init__(self, shape_term, tok):
        self.shape_term, self.tok = shape_term, tok


class SizeV:
    def __init__(self, tok):
        self.tok = tok


class AxesV:
    def __init__(self, kind, term=None, tok=None, shape_term=None):
        self.kind, self.term, self.tok, self.shape_term = kind, term, tok, shape_term     # kind: 'all' | 'list' | 'raw'


class ArangeV:
    def __init__(self, tok, off=0):
        self.tok, self.off = tok, off


class SortedV:                      # xp.sort(a) before [::-1]
    def __init__(self, arr):
        self.arr = arr


class NonzeroV:
    def __init__(self, cond):
        self.cond = cond


class LastHitV:
    def __init__(self, cond):
        self.cond = cond


class OptCall:                      # a call whose Coq term has type option (list El)
    def __init__(self, term, tok=None, shape=None):
        self.term, self.tok, self.shape = term, tok, shape


class MatV:
    """n x n matrix: rows term (list of lists), elementwise body over PX, transposed flag"""

    def __init__(self, rows, n, body=PX, tr=False, pair=None, fresh=True, ty="E"):
        self.rows, self.n, self.body, self.tr, self.pair, self.fresh, self.ty = rows, n, body, tr, pair, fresh, ty


class VecT:                         # eigenvalues: a list of T
    def __init__(self, term, fresh=True):
        self.term, self.fresh = term, fresh


class TupleV:
    def __init__(self, items):
        self.items = items


class PListV:
    def __init__(self, term):
        self.term = term


class ShapesOfV:
    def __init__(self, pl):
        self.pl = pl


class LenOfV:
    def __init__(self, pl):
        self.pl = pl


class ListV:
    def __init__(self, items):
        self.items = items


class ReplV:                        # [alpha] * nops
    def __init__(self, sv, pl):
        self.sv, self.pl = sv, pl


class SplitV:                       # util.split(x, self.shapes): x an sv parameter or an array
    def __init__(self, what, src, pl):
        self.what, self.src, self.pl = what, src, pl      # what: 'sv' | 'arr'


class ZipCompV:
    def __init__(self, term):
        self.term = term


class SvP:
    """scalar-or-array parameter (Coq type `sv T` / `sv El`)"""

    def __init__(self, ty, term):
        self.ty, self.term = ty, term


# ---------------------------------------------------------------------------------------------
# result trees
# ---------------------------------------------------------------------------------------------
class Leaf:
    def __init__(self, val, binds):
        self.val, self.binds = val, binds


class Node:
    def __init__(self, lets, tail):
        self.lets, self.tail = lets, tail       # lets: [(name, term, comment)]; tail: Leaf | Fork


class Fork:
    def __init__(self, kind, term, comment, branches):
        self.kind, self.term, self.comment, self.branches = kind, term, comment, branches   # branches: [(pattern, Node)]


DEFAULTS = {"T": "r0", "E": "e0"}


class Env:
    def __init__(self, tr, vars=None):
        self.tr = tr
        self.vars = dict(vars or {})
        self.facts = {}             # option term -> 'none' | 'some';  sv term -> 'scalar' | 'array'
        self.binds = []             # [(var, call term)]
        self.lets = []
        self.deplets = []           # [(name, body with placeholders)] index-dependent scalars, rendered inside the lambda
        self.applied = {}           # linop matrix term -> term of the vector it was applied to

    def fork(self):
        e = Env(self.tr, self.vars)
        e.facts = dict(self.facts)
        e.binds = list(self.binds)
        e.deplets = list(self.deplets)
        e.applied = dict(self.applied)
        return e


def subst(body, **kw):
    m = {"i": PI, "x": PX, "a": PA, "b": PB, "s": PS, "cs": PCS, "k": PK}
    for k, v in kw.items():
        body = body.replace(m[k], v)
    return body.replace(PD, "")


# ---------------------------------------------------------------------------------------------
# the translator of one function body
# ---------------------------------------------------------------------------------------------
class FunTr:
    def __init__(self, mod, fname, fn, kernel=False):
        self.mod, self.fname, self.fn, self.kernel = mod, fname, fn, kernel
        self.counter = {}
        self.tokc = 0
        self.calls = set()          # generated definitions this one refers to
        self.attrs = {}             # self.<a> -> value (from __init__)

    # ---- errors, names
    def err(self, node, msg):
        line = getattr(node, "lineno", self.fn.lineno)
        src = self.mod.line(self.fname, line)
        raise TranslationError("%s:%d (%s): %s: `%s`" % (self.fname, line, self.fn.name, msg, src))

    def fresh(self, name):
        name = re.sub(r"[^A-Za-z0-9_]", "_", name)
        self.counter[name] = self.counter.get(name, 0) + 1
        return "%s_%d" % (name, self.counter[name])

    def newtok(self):
        self.tokc += 1
        return "tok%d" % self.tokc

    def comment(self, node):
        return "L%d: %s" % (node.lineno, self.mod.line(self.fname, node.lineno).replace("(*", "( *").replace("*)", "* )"))

    # ---- literals and coercions
    def lit(self, node, v, ty):
        if ty in ("T", "B"):
            if v.v in (0, 1, 2):
                return "r%d" % v.v
            self.err(node, "integer literal %r has no counterpart in a real position (only 0, 1, 2)" % v.v)
        if ty == "E":
            if v.v == 0:
                return "e0"
            self.err(node, "integer literal %r has no counterpart in an element position (only 0)" % v.v)
        self.err(node, "literal in a position of type %s" % ty)

    def to_ev(self, node, v):
        if isinstance(v, EV):
            return v
        if isinstance(v, SvP):
            return EV(v.ty, PS, sv=(v.term, DEFAULTS[v.ty]))
        self.err(node, "a numeric value is needed here, got %s" % type(v).__name__)

    def index_sv(self, e):
        """an sv-dependent scalar used next to an array / another sv: numpy broadcasting = entry i of the operand"""
        if e.sv is None:
            return e
        return EV(e.ty, subst(e.body, s="(sv_get %s %s %s)" % (e.sv[1], e.sv[0], PI)), base=e.base, tok=e.tok, fresh=e.fresh,
                  shape=e.shape, scan=e.scan)

    def num(self, e):
        """a bool used as a number"""
        if e.ty == "B":
            return EV("T", "(b2r %s)" % e.body, base=e.base, sv=e.sv, tok=e.tok, fresh=e.fresh, shape=e.shape, scan=e.scan)
        return e

    def inherit(self, node, res, *ops):
        """flattened-ness of an elementwise result: that of its array operands (which must agree)"""
        st = set(o.flatst for o in ops if isinstance(o, EV) and o.base is not None)
        if len(st) > 1:
            self.err(node, "a flattened array is combined with an array in its original shape")
        if isinstance(res, EV):
            res.flatst = bool(st and st.pop())
        elif isinstance(res, OptCall):
            res.flatst = bool(st and st.pop())
        return res

    # ---- materialisation
    def with_deplets(self, env, body):
        """wrap the index-dependent scalars `body` refers to (transitively) as lets inside the lambda"""
        need = []
        todo = body
        for name, b in reversed(env.deplets):
            if re.search(r"\b%s\b" % re.escape(name), todo):
                need.append((name, b))
                todo += " " + b
        for name, b in need:
            body = "let %s := %s in %s" % (name, b, body)
        return body

    def mat(self, node, env, e):
        """Coq term of type list of the array view e"""
        if not isinstance(e, EV) or e.base is None:
            self.err(node, "an array is needed here")
        if e.scan is not None:
            self.err(node, "an array built from cumsum / arange is only accepted under st[flatnonzero(..).max()]")
        if e.sv is not None:
            e = self.index_sv(e)
        if isinstance(e.base, tuple):
            if e.dep:
                self.err(node, "index-dependent operand on two arrays")
            body = self.with_deplets(env, e.body)
            return "(map2 (fun a b => %s) %s %s)" % (subst(body, a="a", b="b"), e.base[0], e.base[1])
        if e.body == PX:
            return e.base
        body = self.with_deplets(env, e.body)
        if PI in body:
            return "(imap (fun i x => %s) %s)" % (subst(body, i="i", x="x"), e.base)
        return "(map (fun x => %s) %s)" % (subst(body, x="x"), e.base)

    def as_sv(self, node, env, v, ty):
        """Coq term of type `sv ty` for an argument position that accepts a scalar or an array"""
        if isinstance(v, Lit):
            return "(SS %s)" % self.lit(node, v, ty)
        e = self.to_ev(node, v)
        if e.ty != ty:
            self.err(node, "argument of type %s where %s is expected" % (e.ty, ty))
        if e.base is not None:
            return "(SV %s)" % self.mat(node, env, e)
        if e.sv is not None and not e.dep:
            if e.body == PS:
                return e.sv[0]
            return "(sv_map (fun a => %s) %s)" % (subst(e.body, s="a"), e.sv[0])
        if e.plain():
            return "(SS %s)" % e.body
        self.err(node, "index-dependent scalar in a scalar-or-array argument position")

    def as_scalar(self, node, v, ty):
        if isinstance(v, Lit):
            return self.lit(node, v, ty)
        e = self.to_ev(node, v)
        if not e.plain() or e.ty != ty:
            self.err(node, "a scalar of type %s is needed here" % ty)
        return e.body

    # ---- elementwise operations
    def combine(self, node, env, l, r):
        """bring two EVs over a common base; returns (l, r, base, sv, tok, shape, scan)"""
        l, r = self.num(l), self.num(r)
        scan = l.scan or r.scan
        if l.scan and r.scan:
            if l.scan["base"] != r.scan["base"]:
                self.err(node, "scan operands over different arrays")
            k0s = set(x for x in (l.scan["k0"], r.scan["k0"]) if x is not None)
            if len(k0s) > 1:
                self.err(node, "two different arange offsets in one scan")
            scan = {"base": l.scan["base"], "k0": (list(k0s) or [None])[0]}
        if scan:
            for e in (l, r):
                if e.sv is not None or (e.base is not None and e.base != scan["base"]) or (e.base is None and e.dep):
                    self.err(node, "operand not accepted inside a cumsum / arange expression")
            return l, r, scan["base"], None, l.tok or r.tok, None, scan
        # sv operands: keep the sv form only among scalars over ONE sv
        if l.base is None and r.base is None:
            if l.sv is not None and r.sv is not None and l.sv != r.sv:
                l, r = self.index_sv(l), self.index_sv(r)
            if (l.sv is not None and r.dep) or (r.sv is not None and l.dep):
                l, r = self.index_sv(l), self.index_sv(r)
            for a, b in ((l, r), (r, l)):
                if a.dep and a.tok and b.dep and b.tok and a.tok != b.tok:
                    self.err(node, "index-dependent scalars over arrays of different shape")
            return l, r, None, l.sv or r.sv, l.tok or r.tok, None, None
        l, r = self.index_sv(l), self.index_sv(r)
        if l.base is not None and r.base is not None and l.base != r.base:
            # two different arrays: their shapes are trusted equal (every function of thresh.py / every Prox returns the shape
            # of its array argument; numpy would raise or broadcast otherwise)
            A, B = self.mat(node, env, l), self.mat(node, env, r)
            l2 = EV(l.ty, PA, base=(A, B), tok=l.tok, shape=l.shape)
            r2 = EV(r.ty, PB, base=(A, B), tok=l.tok, shape=l.shape)
            return l2, r2, (A, B), None, l.tok, l.shape, None
        arr, other = (l, r) if l.base is not None else (r, l)
        if isinstance(arr.base, tuple) and other.dep:
            arr2 = EV(arr.ty, PX, base=self.mat(node, env, arr), tok=arr.tok, shape=arr.shape)
            if arr is l:
                l = arr2
            else:
                r = arr2
            arr = arr2
        if other.base is None and other.dep and other.tok and arr.tok and other.tok != arr.tok:
            self.err(node, "a reduction of one array is broadcast against an array of another shape")
        return l, r, arr.base, None, arr.tok, arr.shape, None

    def binop(self, node, env, op, lv, rv):
        # literals take the type the other operand asks for
        if isinstance(lv, Lit) and isinstance(rv, Lit):
            self.err(node, "arithmetic on two integer literals")
        if isinstance(lv, ArangeV) or isinstance(rv, ArangeV):
            a, o = (lv, rv) if isinstance(lv, ArangeV) else (rv, lv)
            if op == "add" and isinstance(o, Lit):
                return ArangeV(a.tok, a.off + o.v)
            # arange next to an array: the running counter of the scan
            ae = EV("T", PK, base=None, scan={"base": None, "k0": a.off}, tok=a.tok)
            oe = self.to_ev(node, o)
            if oe.scan is None or oe.tok != a.tok:
                self.err(node, "arange(size) is only accepted next to cumsum(s) with size = len of the sorted array")
            ae.scan["base"] = oe.scan["base"]
            ae.base = oe.scan["base"]
            ae.flatst = oe.flatst
            lv, rv = (ae, oe) if a is lv else (oe, ae)
        if isinstance(lv, MatV) or isinstance(rv, MatV) or isinstance(lv, VecT) or isinstance(rv, VecT):
            return self.mat_binop(node, env, op, lv, rv)
        if isinstance(lv, Lit) or isinstance(rv, Lit):
            other = self.to_ev(node, rv if isinstance(lv, Lit) else lv)
            oty = "T" if other.ty == "B" else other.ty
            if op in ("mul", "div") and oty == "E":
                lty = "T"                        # 2 * x, x / 2: the literal is a real factor
            else:
                lty = oty
            le = EV(lty, self.lit(node, lv if isinstance(lv, Lit) else rv, lty))
            lv, rv = (le, other) if isinstance(lv, Lit) else (other, le)
        l, r = self.to_ev(node, lv), self.to_ev(node, rv)
        l, r, base, sv, tok, shape, scan = self.combine(node, env, l, r)
        a, b, key = l.body, r.body, (op, l.ty, r.ty)
        table = {
            ("add", "T", "T"): ("(radd %s %s)" % (a, b), "T"), ("sub", "T", "T"): ("(rsub %s %s)" % (a, b), "T"),
            ("mul", "T", "T"): ("(rmul %s %s)" % (a, b), "T"), ("div", "T", "T"): ("(rdiv %s %s)" % (a, b), "T"),
            ("add", "E", "E"): ("(eadd %s %s)" % (a, b), "E"), ("sub", "E", "E"): ("(esub %s %s)" % (a, b), "E"),
            ("mul", "E", "E"): ("(emul %s %s)" % (a, b), "E"),
            ("mul", "T", "E"): ("(escale %s %s)" % (a, b), "E"),
            ("mul", "E", "T"): ("(escale %s %s)" % (b, a), "E"),     # element * real: real-first normal form (`*` commutes)
            ("div", "E", "T"): ("(edivr %s %s)" % (a, b), "E"),
            ("lt", "T", "T"): ("(rltb %s %s)" % (a, b), "B"), ("gt", "T", "T"): ("(rltb %s %s)" % (b, a), "B"),
            ("eq", "T", "T"): ("(reqb %s %s)" % (a, b), "B"),
        }
        if key not in table:
            self.err(node, "operation %s on (%s, %s) is not an operation of the model" % key)
        body, ty = table[key]
        return self.inherit(node, EV(ty, body, base=base, sv=sv, tok=tok, shape=shape, scan=scan), lv, rv)

    def unop(self, node, env, op, v):
        if isinstance(v, MatV):
            if op == "conj" and v.ty == "E" and v.pair is None:
                return MatV(v.rows, v.n, "(econj %s)" % v.body, v.tr, fresh=True)
            self.err(node, "operation %s on a matrix" % op)
        e = self.num(self.to_ev(node, v)) if op != "abs" or not isinstance(v, EV) or v.ty != "B" else None
        if e is None:
            self.err(node, "abs of a bool")
        table = {("neg", "T"): ("(ropp %s)", "T"), ("abs", "T"): ("(rabs %s)", "T"), ("abs", "E"): ("(eabs %s)", "T"),
                 ("conj", "E"): ("(econj %s)", "E"), ("sqrt", "T"): ("(rsqrt %s)", "T"), ("sq", "T"): ("(rmul %s %s)", "T")}
        if (op, e.ty) not in table:
            self.err(node, "operation %s on %s is not an operation of the model" % (op, e.ty))
        fmt, ty = table[(op, e.ty)]
        body = fmt % ((e.body,) * fmt.count("%s"))
        return self.inherit(node, EV(ty, body, base=e.base, sv=e.sv, tok=e.tok, shape=e.shape, scan=e.scan), v)

    # ---- matrices (psd_proj)
    def mat_rows(self, node, m):
        """Coq term (list of rows) of a matrix value"""
        if m.pair is not None:
            return "(map2 (map2 (fun a b => %s)) %s %s)" % (subst(m.body, a="a", b="b"), m.pair[0], m.pair[1])
        rows = "(transpose %s %s)" % (m.n, m.rows) if m.tr else m.rows
        if m.body == PX:
            return rows
        return "(map (map (fun x => %s)) %s)" % (subst(m.body, x="x"), rows)

    def mat_binop(self, node, env, op, lv, rv):
        if isinstance(lv, MatV) and isinstance(rv, MatV):
            if op not in ("add", "sub") or lv.pair or rv.pair:
                self.err(node, "matrix operation outside the fragment")
            A, B = self.mat_rows(node, lv), self.mat_rows(node, rv)
            return MatV(None, lv.n, "(%s %s %s)" % ({"add": "eadd", "sub": "esub"}[op], PA, PB), pair=(A, B))
        if isinstance(lv, MatV) and isinstance(rv, Lit) and op == "div":
            body = "(edivr %s %s)" % (lv.body, self.lit(node, rv, "T"))
            return MatV(lv.rows, lv.n, body, lv.tr, lv.pair)
        if isinstance(lv, MatV) and isinstance(rv, VecT) and op == "mul":
            if lv.pair or lv.tr or lv.body != PX:
                self.err(node, "matrix * vector on a matrix expression")
            # numpy broadcasting along the last axis: (v * w)[i][j] = v[i][j] * w[j]
            return MatV("(map (fun row => map2 (fun x wj => escale wj x) row %s) %s)" % (rv.term, lv.rows), lv.n)
        self.err(node, "matrix operation outside the fragment")

    def matmul(self, node, env, lv, rv):
        if not (isinstance(lv, MatV) and isinstance(rv, MatV)):
            self.err(node, "`@` of non-matrices")
        if rv.pair or not rv.tr:
            self.err(node, "`A @ B` is only accepted with B = (an elementwise function of a matrix).T")
        A = self.mat_rows(node, lv)
        name = self.fresh("lhs")
        env.lets.append((name, A, self.comment(node) + "   [left operand of @]"))
        g = subst(rv.body, x="b")
        term = "(concat (map (fun rowi => map (fun rowk => esum (map2 (fun a b => emul a %s) rowi rowk)) %s) %s))" % (g, rv.rows, name)
        return EV("E", PX, base=term, tok=self.newtok())

    # ---- expressions
    def dotted(self, node):
        if isinstance(node, ast.Name):
            return node.id
        if isinstance(node, ast.Attribute):
            d = self.dotted(node.value)
            return None if d is None else d + "." + node.attr
        return None

    def ev(self, node, env):
        m = getattr(self, "ev_" + type(node).__name__, None)
        if m is None:
            self.err(node, "expression %s outside the accepted fragment" % type(node).__name__)
        return m(node, env)

    def resolve(self, env, v):
        """an optional parameter whose state is known on this path"""
        if isinstance(v, Opt):
            st = env.facts.get(v.term)
            if st == "none":
                return NoneV()
            if st == "some":
                return v.inner(v.somevar)
        return v

    def raw(self, node, env):
        """the operand of `is None`: the optional parameter itself, not its value on this path"""
        if isinstance(node, ast.Name) and node.id in env.vars:
            return env.vars[node.id]
        if isinstance(node, ast.Attribute) and isinstance(node.value, ast.Name) and node.value.id == "self" \
                and isinstance(env.vars.get("self"), Marker) and node.attr in self.attrs:
            return self.attrs[node.attr]
        return self.ev(node, env)

    def evc(self, node, env):
        return self.consume(node, env, self.ev(node, env))

    def ev_Name(self, node, env):
        if node.id in env.vars:
            return self.resolve(env, env.vars[node.id])
        if node.id in self.mod.module_names.get(self.fname, {}):
            return Marker("module:" + self.mod.module_names[self.fname][node.id])
        self.err(node, "unknown name %s" % node.id)

    def ev_Constant(self, node, env):
        if node.value is None:
            return NoneV()
        if isinstance(node.value, bool):
            self.err(node, "boolean constant")
        if isinstance(node.value, int):
            return Lit(node.value)
        if isinstance(node.value, float):
            return Flt(node.value)
        self.err(node, "constant %r" % (node.value,))

    def ev_Attribute(self, node, env):
        v = self.ev(node.value, env)
        a = node.attr
        if isinstance(v, Marker) and v.kind == "self":
            if a not in self.attrs:
                self.err(node, "attribute self.%s is not set by __init__ to a constructor argument" % a)
            if isinstance(self.attrs[a], Marker) and self.attrs[a].kind == "unused":
                self.err(node, "self.%s has no counterpart in the hand model (it is stored by __init__ and never used)" % a)
            return self.resolve(env, self.attrs[a])
        if isinstance(v, Marker) and v.kind == "dev" and a == "xp":
            return Marker("xp")
        if isinstance(v, Marker) and v.kind == "xp" and a == "linalg":
            return Marker("xp.linalg")
        if isinstance(v, Marker) and v.kind.startswith("module:"):
            return Marker(v.kind + "." + a)
        if isinstance(v, EV) and v.base is not None and v.scan is None:
            if a == "shape":
                return ShapeV(v.shape, v.tok)
            if a == "ndim":
                if v.shape is None:
                    return NdimV(None, v.tok)
                return NdimV(v.shape, v.tok)
        if isinstance(v, MatV) and a == "T":
            return MatV(v.rows, v.n, v.body, not v.tr, v.pair, v.fresh, v.ty) if v.pair is None else self.err(node, ".T of a sum")
        if isinstance(v, ProxV) and a == "shape":
            return ShapeV("(shape_of %s)" % v.term)
        if isinstance(v, LinopV) and a == "ishape" and not v.adjoint:
            return ShapeV(v.ishape)
        if isinstance(v, LinopV) and a == "H" and not v.adjoint:
            return LinopV(v.mat, v.ishape, True)
        self.err(node, "attribute .%s of %s" % (a, type(v).__name__))

    def ev_UnaryOp(self, node, env):
        if isinstance(node.op, ast.USub):
            return self.unop(node, env, "neg", self.ev(node.operand, env))
        self.err(node, "unary operator")

    def ev_BinOp(self, node, env):
        ops = {ast.Add: "add", ast.Sub: "sub", ast.Mult: "mul", ast.Div: "div"}
        if isinstance(node.op, ast.Pow):
            b, e = self.evc(node.left, env), self.ev(node.right, env)
            if isinstance(e, Flt) and e.v == 0.5:
                return self.unop(node, env, "sqrt", b)
            if isinstance(e, Lit) and e.v == 2:
                return self.unop(node, env, "sq", b)
            self.err(node, "power other than ** 0.5 / ** 2")
        if isinstance(node.op, ast.MatMult):
            return self.matmul(node, env, self.ev(node.left, env), self.ev(node.right, env))
        if type(node.op) not in ops:
            self.err(node, "binary operator")
        l, r = self.evc(node.left, env), self.evc(node.right, env)      # Python evaluates left to right
        if isinstance(l, ListV) and isinstance(r, LenOfV) and ops[type(node.op)] == "mul":
            if len(l.items) == 1 and isinstance(l.items[0], SvP):
                if env.facts.get(l.items[0].term) != "scalar":
                    self.err(node, "[alpha] * nops on an alpha that is not known to be a scalar")
                return ReplV(l.items[0], r.pl)
            self.err(node, "list repetition")
        return self.binop(node, env, ops[type(node.op)], l, r)

    def ev_Compare(self, node, env):
        if len(node.ops) != 1:
            self.err(node, "chained comparison")
        op = node.ops[0]
        if isinstance(op, (ast.Is, ast.IsNot)):
            l, r = self.raw(node.left, env), self.ev(node.comparators[0], env)
            if isinstance(l, (Opt, NoneV)) and isinstance(r, NoneV):
                return ("isnone" if isinstance(op, ast.Is) else "isnotnone", l)
            self.err(node, "`is` on something that is not an optional parameter")
        l, r = self.evc(node.left, env), self.evc(node.comparators[0], env)
        if isinstance(op, ast.Eq) and isinstance(l, Marker) and l.kind == "xp" and isinstance(r, Marker) and r.kind == "module:numpy":
            return ("xp_is_np", None)
        names = {ast.Lt: "lt", ast.Gt: "gt", ast.Eq: "eq"}
        if type(op) not in names:
            self.err(node, "comparison %s is not an operation of the model (only <, >, ==)" % type(op).__name__)
        if isinstance(l, VecT) and isinstance(r, Lit):
            return ("vecmask", l, names[type(op)], r)
        return self.binop(node, env, names[type(op)], l, r)

    def ev_List(self, node, env):
        return ListV([self.ev(e, env) for e in node.elts])

    def ev_Subscript(self, node, env):
        v = self.ev(node.value, env)
        s = node.slice
        if isinstance(v, SortedV):
            ok = isinstance(s, ast.Slice) and s.lower is None and s.upper is None and isinstance(s.step, ast.UnaryOp) \
                and isinstance(s.step.op, ast.USub) and isinstance(s.step.operand, ast.Constant) and s.step.operand.value == 1
            if not ok:
                self.err(node, "only [::-1] is accepted on a sorted array")
            term = "(sort_desc %s)" % self.mat(node, env, v.arr)
            r = EV("T", PX, base=term, tok=v.arr.tok)
            r.flatst = True
            return r
        if isinstance(v, EV) and v.scan is not None and not isinstance(s, ast.Slice):
            idx = self.ev(s, env)
            if not isinstance(idx, LastHitV):
                self.err(node, "a cumsum / arange array can only be indexed by flatnonzero(..).max()")
            return self.scan(node, env, v, idx.cond)
        self.err(node, "subscript outside the accepted fragment")

    def scan(self, node, env, st, cond):
        """st[flatnonzero(cond).max()] with st, cond sequential expressions over the sorted list: a left-to-right scan"""
        if cond.ty != "B" or st.ty != "T" or cond.base != st.scan["base"] or (cond.scan and cond.scan["base"] != st.scan["base"]):
            self.err(node, "scan condition and value are not over the same sorted array")
        k0 = st.scan["k0"] if st.scan["k0"] is not None else (cond.scan or {}).get("k0")
        both = st.body + " " + cond.body
        frees = []
        for name, v in env.vars.items():
            if isinstance(v, EV) and v.plain() and re.fullmatch(r"[A-Za-z_][A-Za-z0-9_']*", v.body) and v.ty == "T":
                m = re.search(r"(?<![A-Za-z0-9_'])%s(?![A-Za-z0-9_'])" % re.escape(v.body), both)
                if m and v.body not in [f[0] for f in frees]:
                    frees.append((v.body, m.start()))
        frees = [f[0] for f in sorted(frees, key=lambda f: f[1])]
        sub = dict(cs="cs'", k="k", x="x")
        stb, cb = subst(st.body, **sub), subst(cond.body, **sub)
        if PI in stb + cb or PS in stb + cb:
            self.err(node, "index-dependent operand in a scan")
        fb = " ".join(frees)
        k_init = self.lit(node, Lit(k0), "T") if k0 is not None else None
        uses_k = PK in st.body + cond.body
        if uses_k and k_init is None:
            self.err(node, "arange without offset information")
        if not uses_k:
            self.err(node, "scan without arange(size) is outside the fragment")
        term = ("((fix scan (%s k cs : T) (best : option T) (s : list T) {struct s} : option T :=\n"
                "       match s with\n       | [] => best\n       | x :: r =>\n"
                "           let cs' := radd cs x in                (* xp.cumsum: running sum *)\n"
                "           let st := %s in\n"
                "           scan %s (radd k r1) cs' (if %s then Some st else best) r   (* .max() of flatnonzero: the last hit *)\n"
                "       end) %s %s r0 None %s)") % (fb, stb, fb, cb.replace(stb, "st"), fb, k_init, st.scan["base"])
        var = self.fresh("th")
        env.binds.append((var, term, self.comment(node) + "   [None: flatnonzero(..) is empty, .max() raises]"))
        return EV("T", var)

    def ev_GeneratorExp(self, node, env):
        self.err(node, "generator expression outside sum(..) / tuple(..)")

    def ev_ListComp(self, node, env):
        if len(node.generators) != 1 or node.generators[0].ifs or node.generators[0].is_async:
            self.err(node, "comprehension shape")
        g = node.generators[0]
        it = g.iter
        # [prox.shape for prox in proxs]
        if isinstance(it, ast.Name):
            src = self.ev(it, env)
            if isinstance(src, PListV) and isinstance(g.target, ast.Name) and isinstance(node.elt, ast.Attribute) \
                    and isinstance(node.elt.value, ast.Name) and node.elt.value.id == g.target.id and node.elt.attr == "shape":
                return ShapesOfV(src)
            self.err(node, "comprehension outside the fragment")
        # [prox(alpha, input) for prox, input, alpha in zip(self.proxs, inputs, alphas)]
        if isinstance(it, ast.Call) and self.dotted(it.func) == "zip" and not it.keywords and isinstance(g.target, ast.Tuple):
            srcs = [self.ev(a, env) for a in it.args]
            names = [t.id if isinstance(t, ast.Name) else self.err(node, "zip target") for t in g.target.elts]
            if len(srcs) != len(names) or len(set(names)) != len(names):
                self.err(node, "zip arity")
            return self.zipcomp(node, env, names, srcs)
        self.err(node, "comprehension outside the fragment")

    def zipcomp(self, node, env, names, srcs):
        drivers = [i for i, s in enumerate(srcs) if isinstance(s, PListV)]
        if drivers != [0]:
            self.err(node, "zip must be driven by the list of proxs (first)")
        pl = srcs[0]
        sub = Env(self, {})
        sub.vars[names[0]] = ProxV("q")
        params = {}
        for nme, s in zip(names[1:], srcs[1:]):
            if isinstance(s, (ReplV, SplitV)) and s.pl is not pl and s.pl.term != pl.term:
                self.err(node, "split by the shapes of another list")
            if isinstance(s, ReplV):
                pn = s.sv.term + "_"
                params[nme] = (pn, "sv T", s.sv.term, "(sv_skipn n %s)" % pn)
                sub.vars[nme] = SvP(s.sv.ty, "(sv_firstn n %s)" % pn)
            elif isinstance(s, SplitV) and s.what == "sv":
                pn = s.src.term + "_"
                params[nme] = (pn, "sv T", s.src.term, "(sv_skipn n %s)" % pn)
                sub.vars[nme] = SvP(s.src.ty, "(sv_firstn n %s)" % pn)
            elif isinstance(s, SplitV) and s.what == "arr":
                pn = "input_"
                params[nme] = (pn, "list El", s.src, "(skipn n %s)" % pn)
                sub.vars[nme] = EV("E", PX, base="(firstn n %s)" % pn, tok=self.newtok(), fresh=False)
            else:
                self.err(node, "zip over %s" % type(s).__name__)
        r = self.ev(node.elt, sub)
        if not isinstance(r, OptCall) or sub.binds or sub.lets:
            self.err(node, "the element of the comprehension must be one call of the block's prox")
        # order of the fix arguments: the order in which the element expression uses them
        used = sorted(params, key=lambda nme: r.term.find(params[nme][0]))
        if any(r.term.find(params[nme][0]) < 0 for nme in used):
            self.err(node, "a zipped sequence is not used by the element expression")
        binders = " ".join("(%s : %s)" % (params[nme][0], params[nme][1]) for nme in used)
        rest = " ".join(params[nme][3] for nme in used)
        init = " ".join(params[nme][2] for nme in used)
        term = ("((fix go (ps_ : list (prox El)) %s {struct ps_} : option (list El) :=\n"
                "       match ps_ with\n       | [] => Some []\n       | q :: rest =>\n"
                "           let n := sizeZ (shape_of q) in               (* util.split: osize = prod(oshape) *)\n"
                "           obind %s (fun o1 =>\n"
                "           obind (go rest %s) (fun o2 => Some (o1 ++ o2)))   (* util.vec: concatenate *)\n"
                "       end) %s %s)") % (binders, r.term, rest, pl.term, init)
        return ZipCompV(term)

    # ---- calls
    def ev_Call(self, node, env):
        f = node.func
        args = node.args
        kws = {k.arg: k.value for k in node.keywords}
        if None in kws or any(isinstance(a, ast.Starred) for a in args):
            self.err(node, "*args / **kwargs")
        d = self.dotted(f)
        root = d.split(".")[0] if d else None
        modnames = self.mod.module_names.get(self.fname, {})
        if root is not None and root in env.vars:
            v = env.vars[root]
            if isinstance(v, Marker) and v.kind == "xp" and "." in d:
                return self.xp_call(node, env, d.split(".", 1)[1], args, kws)
            if isinstance(v, Marker) and v.kind == "self" and "." in d:
                fv = self.ev(f, env)                  # self.prox, self.proxh, self.A, self.A.H
                if isinstance(fv, (ProxV, LinopV)):
                    return self.method_call(node, env, fv, "__call__")
                self.err(node, "call of %s (not a Prox / Linop constructor argument)" % d)
            if "." not in d:
                if isinstance(v, ProxV):
                    return self.method_call(node, env, v, "__call__")
                self.err(node, "call of the local %s" % d)
            return self.method_call(node, env, self.ev(f.value, env), f.attr)
        if root is not None and root in modnames:
            full = modnames[root] + ("." + d.split(".", 1)[1] if "." in d else "")
            return self.module_call(node, env, full, args, kws)
        if d is None:
            if isinstance(f, ast.Attribute):          # method of a computed value: xp.flatnonzero(..).max()
                return self.method_call(node, env, self.ev(f.value, env), f.attr)
            self.err(node, "call of a computed function")
        if d in ("abs", "len", "sum"):
            return self.builtin_call(node, env, d, args, kws)
        if d in self.mod.funcs.get(self.fname, {}):
            return self.fun_call(node, env, d, args, kws)
        self.err(node, "call of %s is outside the accepted fragment" % d)

    def noargs(self, node, args, kws, n, allowed=()):
        if len(args) != n or any(k not in allowed for k in kws):
            self.err(node, "unexpected arguments")

    def builtin_call(self, node, env, d, args, kws):
        if d == "abs":
            self.noargs(node, args, kws, 1)
            if not self.kernel:
                self.err(node, "builtin abs outside a numba kernel")
            return self.unop(node, env, "abs", self.ev(args[0], env))
        if d == "len":
            self.noargs(node, args, kws, 1)
            v = self.ev(args[0], env)
            if isinstance(v, PListV):
                return LenOfV(v)
            if isinstance(v, EV) and v.base is not None:
                return SizeV(v.tok)
            self.err(node, "len of %s" % type(v).__name__)
        if d == "sum":
            # sum(util.prod(prox.shape) for prox in proxs)
            self.noargs(node, args, kws, 1)
            g = args[0]
            if isinstance(g, ast.GeneratorExp) and len(g.generators) == 1 and not g.generators[0].ifs \
                    and isinstance(g.generators[0].target, ast.Name):
                src = self.ev(g.generators[0].iter, env)
                if isinstance(src, PListV):
                    sub = Env(self, {g.generators[0].target.id: ProxV("q")})
                    e = self.ev(g.elt, sub)
                    if isinstance(e, tuple) and e[0] == "zint":
                        # Python sum: 0 + a1 + a2 ...; over Z the same number as the right fold
                        return ("zint", "(fold_right (fun q acc => (%s + acc)%%Z) 0%%Z %s)" % (e[1], src.term))
            self.err(node, "sum(..) outside the fragment")
        self.err(node, "builtin %s outside the fragment here" % d)

    def module_call(self, node, env, full, args, kws):
        if full in ("sigpy.backend.get_device",):
            self.noargs(node, args, kws, 1)
            self.need_array(node, self.ev(args[0], env))
            return Marker("dev")
        if full == "sigpy.backend.get_array_module":
            self.noargs(node, args, kws, 1)
            self.need_array(node, self.ev(args[0], env))
            return Marker("xp")
        if full == "numpy.isscalar":
            self.noargs(node, args, kws, 1)
            v = self.ev(args[0], env)
            if isinstance(v, SvP):
                return ("isscalar", v)
            self.err(node, "np.isscalar of something that is not a scalar-or-array parameter")
        if full == "sigpy.util._normalize_axes":
            self.noargs(node, args, kws, 2)
            self.mod.check_util("_normalize_axes")
            ax, nd = self.ev(args[0], env), self.ev(args[1], env)
            if not isinstance(nd, NdimV):
                self.err(node, "_normalize_axes(axes, <array>.ndim) expected")
            if isinstance(ax, NoneV):
                return AxesV("all", tok=nd.tok)          # util._normalize_axes: tuple(range(ndim))
            if isinstance(ax, AxesV) and ax.kind == "raw":
                if nd.shape_term is None:
                    self.err(node, "explicit axes on an array whose shape is not known")
                ndn = self.fresh("nd")
                env.lets.append((ndn, "Z.of_nat (length %s)" % nd.shape_term, self.comment(node) + "   [input.ndim]"))
                # tuple(a % ndim for a in sorted(axes)); the order is irrelevant for `axis=`
                return AxesV("list", "(map (fun a => (a mod %s)%%Z) %s)" % (ndn, ax.term), tok=nd.tok, shape_term=nd.shape_term)
            self.err(node, "axes argument")
        if full == "sigpy.util.prod":
            self.noargs(node, args, kws, 1)
            self.mod.check_util("prod")
            v = self.ev(args[0], env)
            if isinstance(v, ShapeV) and v.term:
                return ("zint", "prodZ %s" % v.term)
            self.err(node, "util.prod of something that is not a shape")
        if full == "sigpy.util.split":
            self.noargs(node, args, kws, 2)
            self.mod.check_util("split")
            v, sh = self.ev(args[0], env), self.ev(args[1], env)
            if not isinstance(sh, ShapesOfV):
                self.err(node, "util.split by something that is not self.shapes")
            if isinstance(v, SvP):
                if env.facts.get(v.term) != "array":
                    self.err(node, "util.split(alpha, ..) on an alpha that may be a scalar")
                return SplitV("sv", v, sh.pl)
            if isinstance(v, EV) and v.base is not None:
                return SplitV("arr", self.mat(node, env, v), sh.pl)
            self.err(node, "util.split of %s" % type(v).__name__)
        if full == "sigpy.util.vec":
            self.noargs(node, args, kws, 1)
            self.mod.check_util("vec")
            v = self.ev(args[0], env)
            if isinstance(v, ZipCompV):
                return OptCall(v.term, tok=self.newtok())
            self.err(node, "util.vec of %s" % type(v).__name__)
        if full.startswith("sigpy.thresh."):
            name = full[len("sigpy.thresh."):]
            if name in self.mod.funcs.get("thresh.py", {}):
                return self.fun_call(node, env, name, args, kws)
        self.err(node, "call of %s is outside the accepted fragment" % full)

    def need_array(self, node, v):
        if not (isinstance(v, (EV, MatV)) and (isinstance(v, MatV) or v.base is not None)):
            self.err(node, "an array argument is expected")

    def xp_call(self, node, env, name, args, kws):
        if name in ("abs", "conj"):
            self.noargs(node, args, kws, 1)
            return self.unop(node, env, name, self.ev(args[0], env))
        if name == "clip":
            self.noargs(node, args, kws, 3)
            x = self.to_ev(node, self.ev(args[0], env))
            lo, hi = self.to_ev(node, self.ev(args[1], env)), self.to_ev(node, self.ev(args[2], env))
            if not (x.base is not None and x.ty == "E" and lo.ty == "E" and hi.ty == "E" and lo.base is None and hi.base is None):
                self.err(node, "xp.clip(array, bound, bound) expected")
            x, lo, hi = self.index_sv(x), self.index_sv(lo), self.index_sv(hi)
            return self.inherit(node, EV("E", "(eclip %s %s %s)" % (x.body, lo.body, hi.body), base=x.base, tok=x.tok, shape=x.shape), x)
        if name == "linalg.norm":
            self.noargs(node, args, kws, 2)
            a, o = self.ev(args[0], env), self.ev(args[1], env)
            if not (isinstance(o, Lit) and o.v == 1):
                self.err(node, "only the 1-norm of a flat array is in the model")
            a = self.unop(node, env, "abs", a)
            if a.base is None or not a.flatst:
                self.err(node, "norm(., 1) of something that is not a flattened array (it would be a matrix norm)")
            return EV("T", "(rsum %s)" % self.mat(node, env, a))
        if name == "sum":
            self.noargs(node, args, kws, 1, ("axis", "keepdims"))
            if set(kws) != {"axis", "keepdims"} or not (isinstance(kws["keepdims"], ast.Constant) and kws["keepdims"].value is True):
                self.err(node, "xp.sum(a, axis=axes, keepdims=True) expected")
            a, ax = self.to_ev(node, self.ev(args[0], env)), self.ev(kws["axis"], env)
            if a.base is None or isinstance(a.base, tuple) or a.ty != "T" or not isinstance(ax, AxesV) or ax.kind == "raw":
                self.err(node, "xp.sum of a real elementwise expression over normalised axes expected")
            if ax.tok != a.tok:
                self.err(node, "axes were normalised with the ndim of another array")
            a = self.index_sv(a)
            if ax.kind == "all":
                return EV("T", "(rsum %s)" % self.mat(node, env, a))
            key = self.fresh("key")
            env.lets.append((key, "fun i => grp_key 0 %s (unravel %s (Z.of_nat i))" % (ax.term, ax.shape_term),
                             self.comment(node) + "   [entries with equal key are summed together: axis=axes, keepdims=True]"))
            inner = subst(self.with_deplets(env, a.body), i="j", x="xj")
            body = "(rsum (imap (fun j xj => if zl_eqb (%s j) (%s %s) then %s else r0) %s))" % (key, key, PI, inner, a.base)
            return EV("T", body, tok=a.tok)
        if name == "sort":
            self.noargs(node, args, kws, 1)
            a = self.to_ev(node, self.ev(args[0], env))
            if a.base is None or a.ty != "T" or not a.flatst:
                self.err(node, "xp.sort of a flat real array expected")
            return SortedV(a)
        if name == "cumsum":
            self.noargs(node, args, kws, 1)
            a = self.ev(args[0], env)
            if not (isinstance(a, EV) and a.base is not None and a.body == PX and a.ty == "T" and a.scan is None):
                self.err(node, "xp.cumsum of a materialised real array expected")
            return self.inherit(node, EV("T", PCS, base=a.base, tok=a.tok, scan={"base": a.base, "k0": None}), a)
        if name == "arange":
            self.noargs(node, args, kws, 1)
            s = self.ev(args[0], env)
            if not isinstance(s, SizeV):
                self.err(node, "xp.arange(len(<array>)) expected")
            return ArangeV(s.tok)
        if name == "flatnonzero":
            self.noargs(node, args, kws, 1)
            c = self.ev(args[0], env)
            if not (isinstance(c, EV) and c.ty == "B" and c.base is not None):
                self.err(node, "flatnonzero of a boolean array expected")
            return NonzeroV(c)
        if name == "linalg.eigh":
            self.noargs(node, args, kws, 1)
            m = self.ev(args[0], env)
            if not isinstance(m, MatV):
                self.err(node, "eigh of a matrix expression expected")
            arg = self.fresh("herm")
            env.lets.append((arg, self.mat_rows(node, m), self.comment(node) + "   [argument of eigh]"))
            wv = self.fresh("wv")
            env.lets.append((wv, "eigh %s" % arg, "the oracle's answer (w, v)"))
            return TupleV([VecT("(fst %s)" % wv), MatV("(snd %s)" % wv, m.n)])
        self.err(node, "xp.%s is outside the accepted fragment" % name)

    def method_call(self, node, env, recv, name):
        args = node.args
        if node.keywords:
            self.err(node, "keyword arguments in a method call")
        if isinstance(recv, EV) and recv.base is not None and recv.scan is None:
            if name == "copy" and not args:
                e = EV(recv.ty, recv.body, base=recv.base, sv=recv.sv, tok=recv.tok, fresh=True, shape=recv.shape)
                e.flatst = recv.flatst
                return e
            if name == "ravel" and not args:
                e = EV(recv.ty, recv.body, base=recv.base, sv=recv.sv, tok=recv.tok, fresh=recv.fresh, shape=recv.shape)
                e.flatst = True                     # C-order flattening: the identity on the flat row-major list
                return e
            if name == "reshape" and len(args) == 1:
                s = self.ev(args[0], env)
                if not (isinstance(s, ShapeV) and s.tok is not None and s.tok == recv.tok):
                    self.err(node, "reshape to something that is not the saved shape of this very array")
                e = EV(recv.ty, recv.body, base=recv.base, sv=recv.sv, tok=recv.tok, fresh=recv.fresh, shape=recv.shape)
                e.flatst = False
                return e
        if isinstance(recv, MatV) and name == "conjugate" and not args:
            return self.unop(node, env, "conj", recv)
        if isinstance(recv, NonzeroV) and name == "max" and not args:
            return LastHitV(recv.cond)
        if isinstance(recv, ProxV) and name == "__call__":
            if len(args) != 2:
                self.err(node, "a Prox is called with (alpha, input)")
            self.mod.check_prox_call()
            a = self.as_sv(node, env, self.ev(args[0], env), "T")
            x = self.ev(args[1], env)
            self.need_array(node, x)
            return OptCall("(rec %s %s %s)" % (recv.term, a, self.mat(node, env, x)), tok=self.newtok())
        if isinstance(recv, LinopV) and name == "__call__":
            if len(args) != 1:
                self.err(node, "a Linop is called with one array")
            x = self.consume(node, env, self.ev(args[0], env))
            xt = self.mat(node, env, x)
            if not recv.adjoint:
                env.applied[recv.mat] = xt
                return EV("E", PX, base="(matvec %s %s)" % (recv.mat, xt), tok=self.newtok())
            if recv.mat not in env.applied:
                self.err(node, "A.H is applied before A was applied to anything: the number of columns of A is unknown")
            # A.H = conjugate transpose of the dense matrix of A; its column count is the length of what A is applied to
            return EV("E", PX, base="(matvecH (length %s) %s %s)" % (env.applied[recv.mat], recv.mat, xt), tok=self.newtok())
        self.err(node, "method .%s of %s is outside the accepted fragment" % (name, type(recv).__name__))

    def consume(self, node, env, v):
        """use of a call result inside a larger expression: bind it"""
        if isinstance(v, OptCall):
            var = self.fresh("r")
            env.binds.append((var, v.term, self.comment(node)))
            r = EV("E", PX, base=var, tok=v.tok or self.newtok(), shape=v.shape)
            r.flatst = getattr(v, "flatst", False)
            return r
        return v

    def fun_call(self, node, env, name, args, kws):
        """call of a translated function of thresh.py"""
        if name not in SPECS:
            self.err(node, "call of %s, which has no counterpart in the hand model" % name)
        spec = SPECS[name]
        fn = self.mod.funcs["thresh.py"][name]
        pnames = [a.arg for a in fn.args.args]
        if len(args) > len(pnames) or any(k not in pnames for k in kws):
            self.err(node, "arguments of %s" % name)
        given = {}
        for p, a in zip(pnames, args):
            given[p] = self.evc(a, env)
        for k, a in kws.items():
            if k in given:
                self.err(node, "argument %s given twice" % k)
            given[k] = self.evc(a, env)
        if spec["kind"] == "kernel":
            # numba @vectorize = a numpy ufunc: applied per entry, operands broadcast against the array
            self.calls.add(spec["gen"])
            evs = []
            for p, ty in spec["params"]:
                if p not in given or isinstance(given[p], Lit):
                    self.err(node, "argument %s of the kernel" % p)
                e = self.to_ev(node, given[p])
                if e.ty != ty:
                    self.err(node, "kernel argument %s has type %s, expected %s" % (p, e.ty, ty))
                evs.append(e)
            bases = [e for e in evs if e.base is not None]
            if not bases or any(isinstance(e.base, tuple) or e.base != bases[0].base or e.scan for e in bases):
                self.err(node, "a vectorised kernel is applied to exactly one array (plus scalar-or-array parameters)")
            evs = [self.index_sv(e) for e in evs]
            body = "(%s %s)" % (spec["gen"], " ".join(e.body for e in evs))
            return self.inherit(node, EV(spec["ret"], body, base=bases[0].base, tok=bases[0].tok, shape=bases[0].shape), *evs)
        # array-level function: the arguments in the order of the Python parameters
        vals = {}
        variant = None
        shape = None
        arr_arg = None
        for p, kind in spec["params"]:
            v = given.get(p)
            if v is None and kind[0] != "opt":
                self.err(node, "missing argument %s of %s" % (p, name))
            if kind[0] == "T":
                vals[p] = self.as_scalar(node, v, "T")
            elif kind[0] == "svT":
                vals[p] = self.as_sv(node, env, v, "T")
            elif kind[0] == "arr":
                self.need_array(node, v)
                if v.ty != "E":
                    self.err(node, "array of %s passed to %s" % (v.ty, name))
                shape = v.shape
                arr_arg = v
                vals[p] = self.mat(node, env, v)
            elif kind[0] == "opt":
                v = NoneV() if v is None else v
                if kind[1] == "variant":
                    if isinstance(v, NoneV):
                        variant = ("none", None, None)
                    elif isinstance(v, Opt):
                        variant = ("unknown", v.term, v.somevar)
                    elif isinstance(v, AxesV) and v.kind == "raw":
                        variant = ("some", v.term, None)
                    else:
                        self.err(node, "argument %s of %s" % (p, name))
                elif isinstance(v, NoneV):
                    vals[p] = "None"
                elif isinstance(v, Opt):
                    vals[p] = v.term
                else:
                    vals[p] = "(Some %s)" % self.as_sv(node, env, v, kind[1])

        def build(vs, extra=None):
            self.calls.add(vs["gen"])
            out = []
            for a in vs["call"]:
                if a == "@shape":
                    if shape is None:
                        self.err(node, "the shape of the array passed to %s is not known here" % name)
                    out.append(shape)
                elif a == "@variant":
                    out.append(extra)
                elif a.startswith("@"):
                    out.append(vals[a[1:]])
                else:
                    out.append(a)          # an argument of the enclosing generated definition (n, eigh)
            return "(%s %s)" % (vs["gen"], " ".join(out))
        if "variants" in spec:
            st, term, somevar = variant
            if st == "none":
                call = build(spec["variants"]["none"])
            elif st == "some":
                call = build(spec["variants"]["some"], term)
            else:
                call = "(match %s with None => %s | Some %s => %s end)" % (
                    term, build(spec["variants"]["none"]), somevar, build(spec["variants"]["some"], somevar))
        else:
            call = build(spec)
        # every function of thresh.py returns an array of the shape of its array argument
        if spec["ret"] == "optarr":
            return self.inherit(node, OptCall(call, tok=self.newtok(), shape=shape), arr_arg)
        return self.inherit(node, EV("E", PX, base=call, tok=self.newtok(), shape=shape), arr_arg)

    # ---- statements
    def block(self, stmts, env):
        """-> Node: the value of the function from here on"""
        for k, st in enumerate(stmts):
            rest = stmts[k + 1:]
            if isinstance(st, ast.Expr) and isinstance(st.value, ast.Constant) and isinstance(st.value.value, str):
                continue
            if isinstance(st, ast.Pass):
                continue
            if isinstance(st, ast.With):
                if len(st.items) != 1 or st.items[0].optional_vars is not None:
                    self.err(st, "with statement shape")
                v = self.ev(st.items[0].context_expr, env)
                if not (isinstance(v, Marker) and v.kind == "dev"):
                    self.err(st, "only `with <device>:` is accepted")
                return self.block(list(st.body) + rest, env)      # a device context is a no-op on values
            if isinstance(st, ast.Assign):
                self.assign(st, env)
                continue
            if isinstance(st, ast.AugAssign):
                self.augassign(st, env)
                continue
            if isinstance(st, ast.Return):
                if st.value is None:
                    self.err(st, "return without a value")
                v = self.ev(st.value, env)
                return self.leaf(st, env, v)
            if isinstance(st, ast.If):
                return self.if_stmt(st, rest, env)
            self.err(st, "statement %s outside the accepted fragment" % type(st).__name__)
        self.err(self.fn, "a path falls off the end of the function (returns None)")

    def leaf(self, node, env, v):
        """the value returned on this path (arrays are materialised here, where the path's lets are known)"""
        if isinstance(v, EV) and v.base is not None:
            if v.ty != "E":
                self.err(node, "the function returns an array of %s" % v.ty)
            if v.flatst:
                self.err(node, "the function returns a flattened array (the model's output has the shape of the input)")
            v = ("arr", self.mat(node, env, v))
        elif isinstance(v, OptCall):
            if getattr(v, "flatst", False):
                self.err(node, "the function returns a flattened array (the model's output has the shape of the input)")
            v = ("opt", v.term)
        lets, env.lets = env.lets, []
        return Node(lets, Leaf(v, list(env.binds)))

    def flush(self, env):
        lets, env.lets = env.lets, []
        return lets

    def if_stmt(self, st, rest, env):
        t = self.ev(st.test, env)
        cm = self.comment(st)
        if isinstance(t, tuple) and t[0] == "xp_is_np":
            # CPU reading: the array module IS numpy; the else branch (cupy) is outside the model
            return self.block(list(st.body) + rest, env)
        if isinstance(t, tuple) and t[0] in ("isnone", "isnotnone"):
            o = t[1]
            flip = t[0] == "isnotnone"
            if isinstance(o, NoneV):
                return self.block(list(st.orelse if flip else st.body) + rest, env)
            known = env.facts.get(o.term)
            if known:
                taken = (known == "none") != flip
                return self.block(list(st.body if taken else st.orelse) + rest, env)
            pre = self.flush(env)
            e_none, e_some = env.fork(), env.fork()
            e_none.facts[o.term] = "none"
            e_some.facts[o.term] = "some"
            n_none = self.block(list(st.orelse if flip else st.body) + rest, e_none)
            n_some = self.block(list(st.body if flip else st.orelse) + rest, e_some)
            return Node(pre, Fork("opt", o.term, cm, [("None", n_none), ("Some %s" % o.somevar, n_some)]))
        if isinstance(t, tuple) and t[0] == "isscalar":
            v = t[1]
            known = env.facts.get(v.term)
            if known:
                return self.block(list(st.body if known == "scalar" else st.orelse) + rest, env)
            pre = self.flush(env)
            e1, e2 = env.fork(), env.fork()
            e1.facts[v.term] = "scalar"
            e2.facts[v.term] = "array"
            n1 = self.block(list(st.body) + rest, e1)
            n2 = self.block(list(st.orelse) + rest, e2)
            return Node(pre, Fork("sv", v.term, cm, [("SS _", n1), ("SV _", n2)]))
        if isinstance(t, EV) and t.ty == "B" and t.plain():
            returns = any(isinstance(n, ast.Return) for b in (st.body, st.orelse) for s in b for n in ast.walk(s))
            if self.kernel and not returns:
                self.join_if(st, t, env)
                return self.block(rest, env)
            pre = self.flush(env)
            e1, e2 = env.fork(), env.fork()
            n1 = self.block(list(st.body) + rest, e1)
            n2 = self.block(list(st.orelse) + rest, e2)
            return Node(pre, Fork("if", t.body, cm, [("then", n1), ("else", n2)]))
        self.err(st, "test outside the accepted fragment")

    def join_if(self, st, t, env):
        """numba kernel: both branches only assign scalars; the variable has ONE (unified) type afterwards"""
        outs = []
        for body in (st.body, st.orelse):
            vals = {}
            e = env.fork()
            for s in body:
                if not (isinstance(s, ast.Assign) and len(s.targets) == 1 and isinstance(s.targets[0], ast.Name)):
                    self.err(s, "only scalar assignments are accepted in a branch of a kernel `if`")
                v = self.ev(s.value, e)
                if not isinstance(v, Lit) and not (isinstance(v, EV) and v.plain()):
                    self.err(s, "scalar value expected")
                e.vars[s.targets[0].id] = v
                vals[s.targets[0].id] = v
            outs.append(vals)
        for name in sorted(set(outs[0]) | set(outs[1])):
            a = outs[0].get(name, env.vars.get(name))
            b = outs[1].get(name, env.vars.get(name))
            if a is None or b is None:
                self.err(st, "%s is not assigned on both paths" % name)
            ty = self.unify(st, [a, b])
            ta, tb = self.as_scalar(st, a, ty), self.as_scalar(st, b, ty)
            var = self.fresh(name)
            env.lets.append((var, "if %s then %s else %s" % (t.body, ta, tb), self.comment(st) + "   [both branches; numba unifies the type]"))
            env.vars[name] = EV(ty, var)

    def unify(self, node, vals):
        tys = set(v.ty for v in vals if isinstance(v, EV))
        if len(tys) != 1:
            self.err(node, "branches of different type")
        return tys.pop()

    def assign(self, st, env):
        if len(st.targets) != 1:
            self.err(st, "chained assignment")
        tgt = st.targets[0]
        if isinstance(tgt, ast.Tuple):
            v = self.ev(st.value, env)
            if not (isinstance(v, TupleV) and len(v.items) == len(tgt.elts) and all(isinstance(t, ast.Name) for t in tgt.elts)):
                self.err(st, "tuple assignment outside the fragment")
            for t, item in zip(tgt.elts, v.items):
                name = self.fresh(t.id)
                if isinstance(item, VecT):
                    env.lets.append((name, item.term, self.comment(st)))
                    env.vars[t.id] = VecT(name)
                else:
                    env.lets.append((name, item.rows, self.comment(st)))
                    env.vars[t.id] = MatV(name, item.n)
            return
        if isinstance(tgt, ast.Subscript):
            # w[w < 0] = 0
            if not isinstance(tgt.value, ast.Name):
                self.err(st, "subscript assignment target")
            w = self.ev(tgt.value, env)
            m = self.ev(tgt.slice, env)
            val = self.ev(st.value, env)
            if not (isinstance(w, VecT) and isinstance(m, tuple) and m[0] == "vecmask" and m[1] is w and isinstance(val, Lit)):
                self.err(st, "only w[w <cmp> literal] = literal on the eigenvalue vector is accepted")
            if not w.fresh:
                self.err(st, "in-place write into an array of the caller")
            cond = self.binop(st, env, m[2], EV("T", "x"), m[3])
            name = self.fresh(tgt.value.id)
            env.lets.append((name, "map (fun x => if %s then %s else x) %s" % (cond.body, self.lit(st, val, "T"), w.term), self.comment(st)))
            env.vars[tgt.value.id] = VecT(name)
            return
        if not isinstance(tgt, ast.Name):
            self.err(st, "assignment target")
        v = self.ev(st.value, env)
        self.bind(st, env, tgt.id, v)

    def bind(self, st, env, name, v):
        v = self.consume(st, env, v) if isinstance(v, OptCall) else v
        if isinstance(v, EV):
            if v.base is not None and v.scan is None:
                if v.body == PX and not isinstance(v.base, tuple):
                    env.vars[name] = v            # another name for the same list
                    return
                var = self.fresh(name)
                env.lets.append((var, self.strip(self.mat(st, env, v)), self.comment(st)))
                env.vars[name] = EV(v.ty, PX, base=var, tok=v.tok, fresh=True, shape=v.shape)
                env.vars[name].flatst = v.flatst
                return
            if v.plain():
                var = self.fresh(name)
                env.lets.append((var, self.strip(v.body), self.comment(st)))
                env.vars[name] = EV(v.ty, var)
                return
            if v.base is None and v.sv is None and v.dep and v.scan is None:
                var = self.fresh(name)
                env.deplets.append((var, v.body))   # rendered as a let INSIDE the lambda over the flat index
                env.vars[name] = EV(v.ty, var + PD, tok=v.tok)
                return
            env.vars[name] = v                    # sv-dependent scalar / scan view: kept symbolic
            return
        if isinstance(v, MatV):
            var = self.fresh(name)
            env.lets.append((var, self.strip(self.mat_rows(st, v)), self.comment(st)))
            env.vars[name] = MatV(var, v.n)
            return
        if isinstance(v, Lit):
            if self.kernel:
                env.vars[name] = v
                return
            self.err(st, "integer literal assigned outside a kernel")
        if isinstance(v, tuple) and v[0] == "zint":
            env.vars[name] = v
            return
        if isinstance(v, (Marker, ShapeV, SizeV, AxesV, SortedV, NonzeroV, LastHitV, ArangeV, ReplV, SplitV, ZipCompV, ListV, LenOfV,
                          ShapesOfV, PListV, SvP, NdimV)):
            env.vars[name] = v
            return
        self.err(st, "assignment of %s" % type(v).__name__)

    @staticmethod
    def strip(t):
        return t[1:-1] if t.startswith("(") and t.endswith(")") and FunTr.balanced(t[1:-1]) else t

    @staticmethod
    def balanced(t):
        d = 0
        for c in t:
            d += c == "("
            d -= c == ")"
            if d < 0:
                return False
        return d == 0

    def augassign(self, st, env):
        ops = {ast.Add: "add", ast.Sub: "sub", ast.Mult: "mul", ast.Div: "div"}
        if type(st.op) not in ops or not isinstance(st.target, ast.Name):
            self.err(st, "augmented assignment outside the fragment")
        cur = self.ev(st.target, env)
        if not isinstance(cur, EV):
            self.err(st, "in-place update of %s" % type(cur).__name__)
        if cur.base is not None and not cur.fresh:
            self.err(st, "in-place update of an array of the caller (the function's input): a copy is missing")
        v = self.ev(st.value, env)
        r = self.binop(st, env, ops[type(st.op)], cur, self.consume(st, env, v))
        if r.ty != cur.ty or (cur.base is not None) != (r.base is not None):
            self.err(st, "in-place update changes the type of the target")
        self.bind(st, env, st.target.id, r)

    # ---- rendering of a result tree
    def finish(self, tree, ret):
        """ret: 'E' (kernel) | 'arr' | 'optarr' | 'shape'"""
        leaves = []

        def walk(n):
            if isinstance(n.tail, Leaf):
                leaves.append(n.tail)
            else:
                for _, b in n.tail.branches:
                    walk(b)
        walk(tree)
        if ret == "E":
            for l in leaves:
                if isinstance(l.val, tuple) or l.binds:
                    self.err(self.fn, "a kernel returns a scalar")
            if self.unify(self.fn, [l.val for l in leaves] + [EV("E", "")]) != "E":
                self.err(self.fn, "the kernel does not return an element")
        elif ret in ("arr", "optarr"):
            for l in leaves:
                if not isinstance(l.val, tuple):
                    self.err(self.fn, "the function must return an array on every path")
                if ret == "arr" and (l.binds or l.val[0] == "opt"):
                    self.err(self.fn, "a path may raise (partial operation) but the hand model of this function is total")
        return self.render(tree, ret, 1)

    def leaf_term(self, leaf, ret):
        v = leaf.val
        if ret == "E":
            return self.as_scalar(self.fn, v, "E")
        if ret == "shape":
            return v
        if ret == "arr":
            return v[1]
        binds = list(leaf.binds)
        if v[0] == "opt":
            inner = v[1]
        elif binds and v[1] == binds[-1][0]:
            inner = binds.pop()[1]                 # obind c (fun r => Some r) = c
        else:
            inner = "Some %s" % v[1]
        for var, call, cm in reversed(binds):
            inner = "obind %s   (* %s *)\n  (fun %s => %s)" % (call, cm, var, inner)
        return inner

    def render(self, node, ret, ind):
        pad = "  " * ind
        out = []
        for name, term, cm in node.lets:
            out.append("%slet %s := %s in   (* %s *)" % (pad, name, term.replace("\n", "\n" + pad), cm))
        t = node.tail
        if isinstance(t, Leaf):
            out.append(pad + self.leaf_term(t, ret).replace("\n", "\n" + pad))
            return "\n".join(out)
        if t.kind == "if":
            out.append("%sif %s then (   (* %s *)" % (pad, t.term, t.comment))
            out.append(self.render(t.branches[0][1], ret, ind + 1))
            out.append("%s) else (" % pad)
            out.append(self.render(t.branches[1][1], ret, ind + 1))
            out.append("%s)" % pad)
        else:
            out.append("%smatch %s with   (* %s *)" % (pad, t.term, t.comment))
            for pat, b in t.branches:
                out.append("%s| %s => (" % (pad, pat))
                out.append(self.render(b, ret, ind + 1))
                out.append("%s)" % pad)
            out.append("%send" % pad)
        return "\n".join(out)




# ---------------------------------------------------------------------------------------------
# the source files
# ---------------------------------------------------------------------------------------------
UTIL_EXPECT = {
    # the readings of these helpers are built into the translator; their text must be the text the readings were written for
    "_normalize_axes": '''
def _normalize_axes(axes, ndim):
    if axes is None:
        return tuple(range(ndim))
    else:
        return tuple(a % ndim for a in sorted(axes))
''',
    "prod": '''
def prod(shape):
    return np.prod(shape, dtype=np.int64)
''',
    "vec": '''
def vec(inputs):
    xp = backend.get_array_module(inputs[0])
    return xp.concatenate([i.ravel() for i in inputs])
''',
    "split": '''
def split(vec, oshapes):
    outputs = []
    for oshape in oshapes:
        osize = prod(oshape)
        outputs.append(vec[:osize].reshape(oshape))
        vec = vec[osize:]

    return outputs
''',
}
PROX_EXPECT = {
    "__init__": '''
def __init__(self, shape, repr_str=None):
    self.shape = list(shape)

    if repr_str is None:
        self.repr_str = self.__class__.__name__
    else:
        self.repr_str = repr_str
''',
    # __call__ = _prox between two shape checks; exceptions are re-raised
    "__call__": '''
def __call__(self, alpha, input):
    try:
        self._check_shape(input)
        output = self._prox(alpha, input)
        self._check_shape(output)
    except Exception as e:
        raise RuntimeError("Exceptions from {}.".format(self)) from e

    return output
''',
}


def strip_doc(fn):
    fn = ast.parse(ast.unparse(fn)).body[0]
    if fn.body and isinstance(fn.body[0], ast.Expr) and isinstance(fn.body[0].value, ast.Constant) \
            and isinstance(fn.body[0].value.value, str):
        fn.body = fn.body[1:] or [ast.Pass()]
    return fn


def same_text(fn, expected_src):
    return ast.dump(strip_doc(fn)) == ast.dump(strip_doc(ast.parse(expected_src).body[0]))


class Module:
    def __init__(self, thresh_src, prox_src, util_src):
        self.src = {"thresh.py": thresh_src, "prox.py": prox_src, "util.py": util_src}
        self.lines = {k: v.split("\n") for k, v in self.src.items()}
        self.tree = {}
        for k, v in self.src.items():
            try:
                self.tree[k] = ast.parse(v)
            except SyntaxError as e:
                raise TranslationError("%s: syntax error: %s" % (k, e))
        self.module_names, self.funcs, self.classes = {}, {}, {}
        self.scan_module("thresh.py", allow_cupy_block=True)
        self.scan_module("prox.py")
        self.scan_module("util.py", lenient=True)
        self.checked = set()

    def line(self, fname, n):
        ls = self.lines[fname]
        return ls[n - 1].strip() if 0 < n <= len(ls) else ""

    def scan_module(self, fname, allow_cupy_block=False, lenient=False):
        names, funcs, classes = {}, {}, {}
        for st in self.tree[fname].body:
            if isinstance(st, ast.Expr) and isinstance(st.value, ast.Constant) and isinstance(st.value.value, str):
                continue
            if isinstance(st, ast.Import):
                for a in st.names:
                    names[a.asname or a.name] = a.name
                continue
            if isinstance(st, ast.ImportFrom):
                if st.level:
                    raise TranslationError("%s:%d: relative import" % (fname, st.lineno))
                for a in st.names:
                    names[a.asname or a.name] = st.module + "." + a.name
                continue
            if isinstance(st, ast.FunctionDef):
                if st.name in funcs and not lenient:
                    raise TranslationError("%s:%d: %s is defined twice" % (fname, st.lineno, st.name))
                funcs[st.name] = st
                continue
            if isinstance(st, ast.ClassDef):
                if st.name in classes:
                    raise TranslationError("%s:%d: class %s is defined twice" % (fname, st.lineno, st.name))
                classes[st.name] = st
                continue
            if lenient:
                continue
            if isinstance(st, ast.Assign) and len(st.targets) == 1 and isinstance(st.targets[0], ast.Name) and st.targets[0].id == "__all__":
                continue
            if allow_cupy_block and isinstance(st, ast.If) and ast.unparse(st.test) == "config.cupy_enabled" and not st.orelse:
                # the cupy kernels: outside the model; they must not rebind anything the model is about
                for s in st.body:
                    ok = isinstance(s, ast.Import) or (isinstance(s, ast.Assign) and len(s.targets) == 1
                                                       and isinstance(s.targets[0], ast.Name) and s.targets[0].id.endswith("_cuda"))
                    if not ok:
                        raise TranslationError("%s:%d: statement in the cupy block that is not a *_cuda kernel definition" % (fname, s.lineno))
                    if isinstance(s, ast.Import):
                        for a in s.names:
                            if (a.asname or a.name) in names or (a.asname or a.name) in funcs:
                                raise TranslationError("%s:%d: the cupy block rebinds %s" % (fname, s.lineno, a.asname or a.name))
                continue
            raise TranslationError("%s:%d: module-level statement outside the accepted fragment: `%s`"
                                   % (fname, st.lineno, self.line(fname, st.lineno) if fname in self.lines else ""))
        for n in list(funcs) + list(classes):
            if n in names:
                raise TranslationError("%s: %s is both imported and defined" % (fname, n))
        self.module_names[fname], self.funcs[fname], self.classes[fname] = names, funcs, classes

    def check_util(self, name):
        if ("util", name) in self.checked:
            return
        fn = self.funcs["util.py"].get(name)
        if fn is None:
            raise TranslationError("util.py: %s not found" % name)
        if fn.decorator_list or not same_text(fn, UTIL_EXPECT[name]):
            raise TranslationError("util.py:%d: util.%s is not the text its reading in the translator was written for: `%s`"
                                   % (fn.lineno, name, self.line("util.py", fn.lineno)))
        if name == "split":
            self.check_util("prod")
        self.checked.add(("util", name))

    def check_prox_call(self):
        if "proxcall" in self.checked:
            return
        cls = self.classes["prox.py"].get("Prox")
        if cls is None:
            raise TranslationError("prox.py: class Prox not found")
        for name, exp in PROX_EXPECT.items():
            fns = [s for s in cls.body if isinstance(s, ast.FunctionDef) and s.name == name]
            if len(fns) != 1 or fns[0].decorator_list or not same_text(fns[0], exp):
                ln = fns[0].lineno if fns else cls.lineno
                raise TranslationError("prox.py:%d: Prox.%s is not the text its reading in the translator was written for "
                                       "(shape = list(shape); __call__ = _prox between two shape checks)" % (ln, name))
        for s in cls.body:
            if isinstance(s, ast.FunctionDef) and s.name not in ("__init__", "_check_shape", "__call__", "__repr__"):
                raise TranslationError("prox.py:%d: Prox.%s: unexpected method of the base class" % (s.lineno, s.name))
            if not isinstance(s, (ast.FunctionDef, ast.Expr)):
                raise TranslationError("prox.py:%d: class attribute in Prox" % s.lineno)
        if [ast.unparse(b) for b in cls.bases] not in ([], ["object"]) or cls.decorator_list or cls.keywords:
            raise TranslationError("prox.py:%d: base classes of Prox" % cls.lineno)
        self.checked.add("proxcall")


# ---------------------------------------------------------------------------------------------
# what is translated, and the hand-model term each generated definition must equal
# ---------------------------------------------------------------------------------------------
REC_T = "prox El -> sv T -> list El -> option (list El)"
EIGH_T = "list (list El) -> list T * list (list El)"

SPECS = {
    "_soft_thresh": dict(kind="kernel", gen="gen_soft_thresh1", params=[("lamda", "T"), ("input", "E")], ret="E",
                         binders=[("lamda", "T"), ("input", "El")], rty="El", hand="soft_thresh1 lamda input",
                         unfold=["soft_thresh1"]),
    "_hard_thresh": dict(kind="kernel", gen="gen_hard_thresh1", params=[("lamda", "T"), ("input", "E")], ret="E",
                         binders=[("lamda", "T"), ("input", "El")], rty="El", hand="hard_thresh1 lamda input",
                         unfold=["hard_thresh1"]),
    "soft_thresh": dict(kind="fun", gen="gen_soft_thresh", params=[("lamda", ("svT",)), ("input", ("arr",))], ret="arr",
                        binders=[("lamda", "sv T"), ("input", "list El")], rty="list El", hand="soft_thresh lamda input",
                        call=["@lamda", "@input"], unfold=["soft_thresh"]),
    "hard_thresh": dict(kind="fun", gen="gen_hard_thresh", params=[("lamda", ("svT",)), ("input", ("arr",))], ret="arr",
                        binders=[("lamda", "sv T"), ("input", "list El")], rty="list El", hand="hard_thresh lamda input",
                        call=["@lamda", "@input"], unfold=["hard_thresh"]),
    "l1_proj": dict(kind="fun", gen="gen_l1_proj", params=[("eps", ("T",)), ("input", ("arr",))], ret="optarr",
                    binders=[("eps", "T"), ("input", "list El")], rty="option (list El)", hand="l1_proj eps input",
                    call=["@eps", "@input"], unfold=["l1_proj", "l1_theta", "obind"]),
    "l2_proj": dict(kind="fun", params=[("eps", ("T",)), ("input", ("arr",)), ("axes", ("opt", "variant"))], ret="arr",
                    variants={
                        "none": dict(gen="gen_l2_proj", binders=[("eps", "T"), ("input", "list El")], rty="list El",
                                     hand="l2_proj eps input", call=["@eps", "@input"], unfold=["l2_proj"], shape=None),
                        "some": dict(gen="gen_l2_proj_axes", binders=[("shape", "list Z"), ("axes", "list Z"), ("eps", "T"), ("input", "list El")],
                                     rty="list El", hand="l2_proj_axes shape axes eps input",
                                     call=["@shape", "@variant", "@eps", "@input"], unfold=["l2_proj_axes"], shape="shape")}),
    "linf_proj": dict(kind="fun", gen="gen_linf_proj", params=[("eps", ("T",)), ("input", ("arr",)), ("bias", ("opt", "E"))], ret="arr",
                      binders=[("eps", "T"), ("input", "list El"), ("bias", "option (sv El)")], rty="list El",
                      hand="linf_proj eps input bias", call=["@eps", "@input", "@bias"], unfold=["linf_proj"]),
    "psd_proj": dict(kind="fun", gen="gen_psd_proj", params=[("input", ("arr",))], ret="arr", matrix=True,
                     binders=[("n", "nat"), ("eigh", EIGH_T), ("input", "list El")], rty="list El",
                     hand="(let wv := eigh (herm_part n input) in psd_proj n (fst wv) (snd wv))",
                     call=["n", "eigh", "@input"], unfold=["psd_proj", "herm_part", "conjT"]),
}
THRESH_ORDER = ["_soft_thresh", "_hard_thresh", "soft_thresh", "hard_thresh", "l2_proj", "linf_proj", "l1_proj", "psd_proj"]

# constructor arguments: (python name, kind, coq binder(s)); the hand model's constructor application
CLASSES = {
    "NoOp": dict(ctor=[("shape", "shape", "s")], hand="NoOp s"),
    "L1Reg": dict(ctor=[("shape", "shape", "s"), ("lamda", "T", "lamda")], hand="L1Reg s lamda"),
    "L2Reg": dict(ctor=[("shape", "shape", "s"), ("lamda", "T", "lamda"), ("y", "optsvE", "y"), ("proxh", "optprox", "proxh")],
                  hand="L2Reg s lamda y proxh", defaults={"y": "None", "proxh": "None"}),
    "L2Proj": dict(ctor=[("shape", "shape", "s"), ("epsilon", "T", "epsilon"), ("y", "svE", "y"), ("axes", "optaxes", "axes")],
                   hand="L2Proj s epsilon y axes", defaults={"y": "0", "axes": "None"}),
    "LInfProj": dict(ctor=[("shape", "shape", "s"), ("epsilon", "T", "epsilon"), ("bias", "optsvE", "bias"), ("axes", "unused", None)],
                     hand="LInfProj s epsilon bias", defaults={"bias": "None", "axes": "None"}),
    "PsdProj": dict(ctor=[("shape", "shape", "s")], hand="PsdProj s w v", extra=[("n", "nat"), ("eigh", EIGH_T)],
                    lemma_forall=[("w", "list T"), ("v", "list (list El)")], lemma_inst={"n": "(length v)", "eigh": "(fun _ => (w, v))"}),
    "L1Proj": dict(ctor=[("shape", "shape", "s"), ("epsilon", "T", "epsilon")], hand="L1Proj s epsilon"),
    "BoxConstraint": dict(ctor=[("shape", "shape", "s"), ("lower", "svE", "lower"), ("upper", "svE", "upper")], hand="BoxConstraint s lower upper"),
    "Conj": dict(ctor=[("prox", "prox", "q")], hand="Conj q"),
    "Stack": dict(ctor=[("proxs", "plist", "ps")], hand="Stack ps"),
    "UnitaryTransform": dict(ctor=[("prox", "prox", "q"), ("A", "linop", "A")], hand="UnitaryTransform q ish A"),
}
CLASS_ORDER = ["NoOp", "L1Reg", "L2Reg", "L2Proj", "LInfProj", "PsdProj", "L1Proj", "BoxConstraint", "Conj", "Stack", "UnitaryTransform"]
KIND_BINDERS = {"shape": "list Z", "T": "T", "svE": "sv El", "optsvE": "option (sv El)", "optprox": "option (prox El)",
                "optaxes": "option (list Z)", "prox": "prox El", "plist": "list (prox El)"}


def ctor_value(kind, coq):
    if kind == "shape":
        return ShapeV(coq)
    if kind == "T":
        return EV("T", coq)
    if kind == "svE":
        return SvP("E", coq)
    if kind == "optsvE":
        return Opt(coq, coq + "_v", lambda var: SvP("E", var))
    if kind == "optprox":
        return Opt(coq, coq + "_v", lambda var: ProxV(var))
    if kind == "optaxes":
        return Opt(coq, coq + "_v", lambda var: AxesV("raw", var))
    if kind == "prox":
        return ProxV(coq)
    if kind == "plist":
        return PListV(coq)
    if kind == "linop":
        return LinopV(coq, "ish")
    if kind == "unused":
        return Marker("unused")
    raise AssertionError(kind)


def ctor_binders(spec):
    out = []
    for _, kind, coq in spec["ctor"]:
        if kind == "unused":
            continue
        if kind == "linop":
            out += [("ish", "list Z"), (coq, "list (list El)")]
            continue
        out.append((coq, KIND_BINDERS[kind]))
    # the hand model's constructor order for UnitaryTransform is (p, ishape, A)
    return out


HEADER = """(* Gen_prox.v -- GENERATED by tools/translate_prox.py from sigpy/thresh.py (sha256 %s),
   sigpy/prox.py (sha256 %s) and the helpers _normalize_axes / prod / vec / split of sigpy/util.py (sha256 %s).
   Do not edit.  The functions as written in the source, over the operations of model/Prox.v, and their agreement with the
   hand model (each lemma: unfolding, case analysis on the tests that occur, reflexivity).
   Readings: arrays are flat row-major lists (ravel / reshape-back / copy are the identity on values); an expression over
   one array is one map / imap over it, over two arrays a map2 of the two materialised operands; a scalar-or-array
   parameter p next to an array is its entry `sv_get d p i` (numpy broadcasting), as an argument it stays an `sv`;
   every array assignment is a `let`; `x is None` is a match on the option; a call that may raise is an option and its
   use an obind; nested Prox calls go through `rec` (instantiated with the model's `apply`), Prox.shape through
   `shape_of` (instantiated with `pshape`); the GPU (cupy) branches are not translated. *)
From Coq Require Import ZArith List Bool.
From SV Require Import model.Prox.
Import ListNotations.

(* case analysis on every test that occurs (innermost scrutinee first), then computation *)
Ltac tie_case :=
  match goal with
  | |- context [match ?c with _ => _ end] =>
      lazymatch c with
      | context [match _ with _ => _ end] => fail
      | _ => destruct c
      end
  end.
Ltac tie := cbv beta iota zeta; first [ reflexivity | repeat (tie_case; cbv beta iota zeta; try reflexivity); reflexivity ].

Section Gen.
  Context {T : ROps} {El : Elem T}.
"""


class Gen:
    """one generated definition"""

    def __init__(self, name, binders, rty, body, hand, unfold, calls, origin, lemma_forall=None, lemma_call=None):
        self.name, self.binders, self.rty, self.body, self.hand = name, binders, rty, body, hand
        self.unfold, self.calls, self.origin = unfold, calls, origin
        self.lemma_forall, self.lemma_call = lemma_forall, lemma_call


def check_signature(mod, fname, fn, names, defaults=None):
    """parameter names (in order) and default values are exactly the expected ones"""
    a = fn.args
    if a.vararg or a.kwarg or a.kwonlyargs or a.posonlyargs:
        raise TranslationError("%s:%d (%s): *args / keyword-only parameters" % (fname, fn.lineno, fn.name))
    got = [x.arg for x in a.args]
    if got != list(names):
        raise TranslationError("%s:%d (%s): parameters %s, the translator (and the hand model) expect %s"
                               % (fname, fn.lineno, fn.name, got, list(names)))
    have = {n: ast.unparse(d) for n, d in zip(got[len(got) - len(a.defaults):], a.defaults)}
    if have != dict(defaults or {}):
        raise TranslationError("%s:%d (%s): default values %s, the translator (and the hand model) expect %s"
                               % (fname, fn.lineno, fn.name, have, dict(defaults or {})))


def translate_thresh(mod, gens):
    fname = "thresh.py"
    for name in THRESH_ORDER:
        spec = SPECS[name]
        fn = mod.funcs[fname].get(name)
        if fn is None:
            raise TranslationError("thresh.py: function %s not found" % name)
        decos = [ast.unparse(d) for d in fn.decorator_list]
        if decos != (["nb.vectorize"] if spec["kind"] == "kernel" else []):
            raise TranslationError("thresh.py:%d (%s): decorators %s" % (fn.lineno, name, decos))
        if spec["kind"] == "kernel" and mod.module_names[fname].get("nb") != "numba":
            raise TranslationError("thresh.py: nb is not numba")
        pn = [p for p, _ in spec["params"]]
        opt = [p for p, k in spec["params"] if isinstance(k, tuple) and k[0] == "opt"]
        check_signature(mod, fname, fn, pn, {p: "None" for p in opt})
        variants = spec.get("variants") or {None: spec}
        for vname, vs in variants.items():
            tr = FunTr(mod, fname, fn, kernel=spec["kind"] == "kernel")
            env = Env(tr)
            for p, kind in spec["params"]:
                if spec["kind"] == "kernel":
                    env.vars[p] = EV(kind, p)
                elif kind[0] == "T":
                    env.vars[p] = EV("T", p)
                elif kind[0] == "svT":
                    env.vars[p] = SvP("T", p)
                elif kind[0] == "arr":
                    if spec.get("matrix"):
                        env.lets.append(("input_m", "chunks n n %s" % p, "the n x n input as its list of rows"))
                        env.vars[p] = MatV("input_m", "n", fresh=False)
                    else:
                        env.vars[p] = EV("E", PX, base=p, tok=tr.newtok(), fresh=False, shape=vs.get("shape"))
                elif kind[0] == "opt" and kind[1] == "variant":
                    env.vars[p] = NoneV() if vname == "none" else AxesV("raw", p)
                elif kind[0] == "opt":
                    env.vars[p] = Opt(p, p + "_v", (lambda k: (lambda var: SvP(k, var)))(kind[1]))
            tree = tr.block(fn.body, env)
            body = tr.finish(tree, spec["ret"])
            gens.append(Gen(vs["gen"], vs["binders"], vs["rty"], body, vs["hand"], vs["unfold"], tr.calls,
                            "%s%s  (thresh.py line %d)" % (name, "" if vname is None else "  [axes %s]" % ("None" if vname == "none" else "given"), fn.lineno)))


def translate_init(mod, cname, spec):
    """-> (attrs, shape term) from <Class>.__init__ (or the inherited Prox.__init__)"""
    fname = "prox.py"
    cls = mod.classes[fname][cname]
    mod.check_prox_call()
    inits = [s for s in cls.body if isinstance(s, ast.FunctionDef) and s.name == "__init__"]
    ctor = {p: ctor_value(k, c) for p, k, c in spec["ctor"]}
    if not inits:
        # Prox.__init__(shape, repr_str=None): self.shape = list(shape)
        if [p for p, _, _ in spec["ctor"]] != ["shape"]:
            raise TranslationError("prox.py:%d (%s): no __init__, but the hand model's constructor has other arguments" % (cls.lineno, cname))
        return {}, ctor["shape"].term
    fn = inits[0]
    # defaults: None for the optional arguments; L2Proj's y=0 is the model's `SS e0` (props/C11.py passes y explicitly)
    check_signature(mod, fname, fn, ["self"] + [p for p, _, _ in spec["ctor"]], spec.get("defaults", {}))
    tr = FunTr(mod, fname, fn)
    env = Env(tr, dict(ctor))
    env.vars["self"] = Marker("self")
    attrs, shape = {}, None
    for st in fn.body:
        if isinstance(st, ast.Expr) and isinstance(st.value, ast.Constant) and isinstance(st.value.value, str):
            continue
        if isinstance(st, ast.Assert):
            continue                                   # cannot change a value (the model also covers the empty Stack)
        if isinstance(st, ast.Assign) and len(st.targets) == 1:
            t = st.targets[0]
            if isinstance(t, ast.Attribute) and isinstance(t.value, ast.Name) and t.value.id == "self":
                if shape is not None or t.attr in attrs or t.attr in ("shape", "repr_str", "_prox", "__call__"):
                    tr.err(st, "attribute written twice / after super().__init__ / reserved")
                v = tr.raw(st.value, env) if isinstance(st.value, ast.Name) else tr.ev(st.value, env)
                if isinstance(st.value, ast.Name):
                    if st.value.id not in ctor:
                        tr.err(st, "self.%s is not set to a constructor argument" % t.attr)
                elif not isinstance(v, (LenOfV, ShapesOfV)):
                    tr.err(st, "self.%s is set to a computed value outside the fragment" % t.attr)
                attrs[t.attr] = v
                tr.attrs = attrs
                continue
            if isinstance(t, ast.Name):
                env.vars[t.id] = tr.ev(st.value, env)
                continue
        if isinstance(st, ast.Expr) and isinstance(st.value, ast.Call) and ast.unparse(st.value.func) == "super().__init__":
            c = st.value
            if shape is not None or len(c.args) != 1 or c.keywords:
                tr.err(st, "super().__init__(shape) expected exactly once")
            v = tr.ev(c.args[0], env)
            if isinstance(v, ListV) and len(v.items) == 1 and isinstance(v.items[0], tuple) and v.items[0][0] == "zint":
                shape = "[%s]" % v.items[0][1]
            elif isinstance(v, ShapeV) and v.term:
                shape = v.term
            else:
                tr.err(st, "the shape passed to Prox.__init__ is outside the fragment")
            continue
        tr.err(st, "statement outside the accepted fragment of __init__")
    if shape is None:
        tr.err(fn, "super().__init__ is never called")
    return attrs, shape


def translate_classes(mod, gens):
    fname = "prox.py"
    for cname in CLASS_ORDER:
        spec = CLASSES[cname]
        cls = mod.classes[fname].get(cname)
        if cls is None:
            raise TranslationError("prox.py: class %s not found" % cname)
        if [ast.unparse(b) for b in cls.bases] != ["Prox"] or cls.decorator_list or cls.keywords:
            raise TranslationError("prox.py:%d (%s): base classes / decorators" % (cls.lineno, cname))
        for s in cls.body:
            if isinstance(s, ast.Expr) and isinstance(s.value, ast.Constant) and isinstance(s.value.value, str):
                continue
            if isinstance(s, ast.FunctionDef) and s.name in ("__init__", "_prox") and not s.decorator_list:
                continue
            raise TranslationError("prox.py:%d (%s): class member outside the fragment (only __init__ and _prox): `%s`"
                                   % (s.lineno, cname, mod.line(fname, s.lineno)))
        attrs, shape = translate_init(mod, cname, spec)
        cb = ctor_binders(spec)
        cargs = " ".join(b[0] for b in cb)
        gens.append(Gen("gen_shape_" + cname, [("shape_of", "prox El -> list Z")] + cb, "list Z", "  " + shape,
                        "pshape (El:=El) (%s)" % spec["hand"], ["pshape"], set(), "%s.__init__: Prox.shape" % cname,
                        lemma_forall=spec.get("lemma_forall", []) + cb, lemma_call="pshape " + cargs))
        proxs = [s for s in cls.body if isinstance(s, ast.FunctionDef) and s.name == "_prox"]
        if len(proxs) != 1:
            raise TranslationError("prox.py:%d (%s): exactly one _prox expected" % (cls.lineno, cname))
        fn = proxs[0]
        check_signature(mod, fname, fn, ["self", "alpha", "input"])
        tr = FunTr(mod, fname, fn)
        tr.attrs = attrs
        env = Env(tr)
        env.vars["self"] = Marker("self")
        env.vars["alpha"] = SvP("T", "alpha")
        has_shape = any(k == "shape" for _, k, _ in spec["ctor"])
        # the input of _prox has shape Prox.shape (checked by Prox.__call__)
        env.vars["input"] = EV("E", PX, base="input", tok=tr.newtok(), fresh=False, shape="s" if has_shape else None)
        tree = tr.block(fn.body, env)
        body = tr.finish(tree, "optarr")
        extra = spec.get("extra", [])
        binders = [("rec", REC_T), ("shape_of", "prox El -> list Z")] + extra + cb + [("alpha", "sv T"), ("input", "list El")]
        inst = spec.get("lemma_inst", {})
        forall = spec.get("lemma_forall", []) + cb + [("alpha", "sv T"), ("input", "list El")]
        call = " ".join(["apply", "pshape"] + [inst[b[0]] for b in extra] + [b[0] for b in cb] + ["alpha", "input"])
        gens.append(Gen("gen_prox_" + cname, binders, "option (list El)", body, "apply (El:=El) (%s) alpha input" % spec["hand"],
                        ["apply", "obind"], tr.calls, "%s._prox  (prox.py line %d)" % (cname, fn.lineno),
                        lemma_forall=forall, lemma_call=call))


def render_all(mod, gens):
    shas = tuple(hashlib.sha256(mod.src[k].encode()).hexdigest() for k in ("thresh.py", "prox.py", "util.py"))
    out = [HEADER % shas]
    byname = {g.name: g for g in gens}

    def closure(g, seen):
        for c in sorted(g.calls):
            if c not in seen and c in byname:
                seen.append(c)
                closure(byname[c], seen)
        return seen
    for g in gens:
        bnd = " ".join("(%s : %s)" % b for b in g.binders)
        out.append("(* %s *)" % g.origin)
        out.append("Definition %s %s : %s :=\n%s." % (g.name, bnd, g.rty, g.body))
        callees = closure(g, [])
        names = [g.name] + callees
        for n in [g.name] + callees:
            for u in byname[n].unfold:
                if u not in names:
                    names.append(u)
        forall = g.lemma_forall if g.lemma_forall is not None else g.binders
        call = g.lemma_call if g.lemma_call is not None else " ".join(b[0] for b in g.binders)
        q = " ".join("(%s : %s)" % b for b in forall)
        out.append("Lemma %s_ok : forall %s,\n  %s %s = %s.\nProof. intros. cbv beta iota zeta delta [%s]. tie. Qed.\n"
                   % (g.name, q, g.name, call, g.hand, " ".join(names)))
    out.append("End Gen.")
    return "\n".join(out) + "\n"


COVERED_THRESH = "_soft_thresh, _hard_thresh, soft_thresh, hard_thresh, l2_proj (axes None / given), linf_proj, l1_proj, psd_proj"
COVERED_PROX = "__init__ (Prox.shape) and _prox of NoOp, L1Reg, L2Reg, L2Proj, LInfProj, PsdProj, L1Proj, BoxConstraint, Conj, Stack, UnitaryTransform"


def translate_sources(thresh_src, prox_src, util_src):
    mod = Module(thresh_src, prox_src, util_src)
    gens = []
    translate_thresh(mod, gens)
    translate_classes(mod, gens)
    return render_all(mod, gens)


def read_sources(repo, thresh_path=None, prox_path=None, util_path=None):
    rd = lambda p: open(p).read()
    return (rd(thresh_path or os.path.join(repo, "sigpy", "thresh.py")), rd(prox_path or os.path.join(repo, "sigpy", "prox.py")),
            rd(util_path or os.path.join(repo, "sigpy", "util.py")))


def translate_prox(repo, thresh_path=None, prox_path=None, util_path=None):
    return translate_sources(*read_sources(repo, thresh_path, prox_path, util_path))


def failing_lemma(gen_text, log):
    """name of the lemma / definition a coqc error message points into"""
    m = re.search(r'line (\d+), characters', log)
    if not m:
        return None
    lines = gen_text.split("\n")
    for i in range(min(int(m.group(1)), len(lines)) - 1, -1, -1):
        mm = re.match(r"\s*(?:Lemma|Definition)\s+([A-Za-z0-9_']+)", lines[i])
        if mm:
            return mm.group(1)
    return None


def tie(ctx):
    """The two obligations props/C11.py adds: regenerate gen/Gen_prox.v from the tree under test, then compile it (the `_ok`
    lemmas ARE the tie).  Returns None when both hold, else {"theorem": <translator or lemma>, "log": ...}."""
    from tools import translate_all
    from vlib import core
    tr_err = translate_all.run(strict=False, only=["prox"])
    ctx.source_hash("sigpy/thresh.py", "sigpy/prox.py", "sigpy/util.py")
    ctx.obligation("translate:sigpy/thresh.py (%s); sigpy/prox.py (%s)" % (COVERED_THRESH, COVERED_PROX), not tr_err)
    name = "tie:generated thresh / prox definitions == hand model (Gen_prox.v lemmas gen_*_ok)"
    if tr_err:
        ctx.notes.append("translator failed closed: %s" % tr_err)
        ctx.obligation(name, False)
        return {"theorem": "translate:sigpy/thresh.py+prox.py", "log": str(tr_err)}
    ctx.checker_cmds.append("cd %s && make gen/Gen_prox.vo" % core.COQ)
    ok, log = core.coq_make(["gen/Gen_prox.vo"], timeout=900)
    ctx.obligation(name, ok)
    if ok:
        return None
    which = []
    for m in re.finditer(r'File "[^"]*?Gen_prox\.v", line (\d+)', log):
        try:
            lem = failing_lemma(open(os.path.join(core.COQ, "gen", "Gen_prox.v")).read(), "line %s, characters" % m.group(1))
        except OSError:
            lem = None
        w = "%s (gen/Gen_prox.v)" % (lem or "?")
        if w not in which:
            which.append(w)
    ctx.notes.append("generated thresh / prox definitions no longer equal the hand model: %s: %s" % (", ".join(which), log[-1200:]))
    return {"theorem": "tie:" + (", ".join(which) or "gen/Gen_prox.v"), "log": log[-2500:]}


if __name__ == "__main__":
    args = [a for a in sys.argv[1:] if not a.startswith("--")]
    sys.stdout.write(translate_prox(args[0] if args else "/repo"))
