#!/bin/bash
# usage: tools/vd.sh <src_dir with patch.diff/demo.py/meta.json> <name> <ID> [more IDs]
# verify a seeded change against /repo HEAD (stores it under seeded/<name>/ when confirmed), then run the named checks against it
cd "$(dirname "$0")/.."
src=$1; name=$2; shift 2
mkdir -p build/vd
python3 tools/seeded.py verify "$src" "$name" > build/vd/ver_$name.log 2>&1
if grep -q '"confirmed": true' build/vd/ver_$name.log; then
  python3 tools/seeded.py detect "$name" "$@" > build/vd/det_$name.log 2>&1
  python3 - "$name" <<'PY'
import json,sys
n=sys.argv[1]
try:
    d=json.load(open('/verif/seeded/%s/detection.json'%n))
    for k,v in d.items(): print(n,k,'rc',v.get('rc'),(v.get('what') or [''])[0][:140])
except Exception as e: print(n,'?',e)
PY
else
  echo "$name NOT CONFIRMED"; tail -5 build/vd/ver_$name.log
fi
