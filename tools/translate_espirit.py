#!/usr/bin/env python3
"""Fail-closed translator: sigpy/mri/app.py class EspiritCalib (Python `ast`) -> Gallina  (property C17).

From the SOURCE TEXT of sigpy/mri/app.py (class EspiritCalib: `__init__` with its closures `forward` / `normalize`, and
`_output`), of PowerMethod.__init__'s signature in sigpy/alg.py and of App.__init__ / App.run in sigpy/app.py it regenerates,
on every run, coq/gen/Gen_espirit.v:

    gen_espirit_signature   parameter names, order, defaults of EspiritCalib.__init__          = espirit_signature
    gen_espirit_forward     the closure handed to PowerMethod as A   (AHA @ x at one voxel)      = matvec
    gen_espirit_normalize   the closure handed as norm_func          (coil-axis l2 norm)         = norm
    gen_espirit_init        __init__: calibration crop, blocks -> calibration matrix, SVD threshold, kernels -> image
                            domain, AHA[r] with its scale factor, ones, PowerMethod(...)         = calib_init
    gen_espirit_update      self.alg._update() as configured: Gen_alg.gen_pm__update (REUSED, not regenerated) at the
                            per-voxel operations, A = forward, norm_func = Some normalize        = calib_update (power_step)
    gen_espirit_power_iter  one unrolling of the hand model's power_iter is one generated update
    gen_espirit__output     _output (phase reference to coil 0, crop by eigenvalue, optional eigenvalue) = calib_output (output)
    gen_espirit_pipeline    calib_voxel (espirit_voxel fed with what __init__ builds) is made of the generated pieces

each `gen_<f>_ok` proved by unfolding, case analysis on the tests that occur, `reflexivity`.  The hand models are
coq/model/Espirit.v (the per-voxel computation all theorems of Prop_C17 are about) and coq/model/EspiritCalib.v (how __init__
obtains AHA[r]; array-level operations and the SVD / IFFT oracles are fields of a record without laws).

Reading (notes/translate_espirit.md): the computation at ONE voxel.  Every array carries a symbolic LAYOUT, a tuple of axis
labels: 'W' the image axes in ksp order, 'Vr' the image axes reversed, 'C' the coil axis, 'K' the second coil axis of a matrix,
'1' a singleton.  At a voxel an array with 0 / 1 / 2 coil axes is a scalar / a list (coil vector) / a list of rows.  `.T`,
`[0]`, expand_dims, swapaxes only change the layout; an elementwise operation checks numpy's right-aligned broadcasting on the
layouts and becomes `map` over the coil vector; `@`, `sum(axis=)` are read off the layouts.  Anything else fails closed.
"""
import ast
import copy
import hashlib
import os
import re
import sys


class TranslationError(Exception):
    pass


def san(text):
    return " ".join(text.split()).replace("(*", "( *").replace("*)", "* )")


def flat(node):
    try:
        return " ".join(ast.unparse(node).split())
    except Exception:
        return ""


# ---------------------------------------------------------------------------------------------
# symbolic values
# ---------------------------------------------------------------------------------------------
class PInt:
    """Python int.  lit: known literal value; label: 'C' (= len(ksp)) or ('len', <rows term>)"""
    def __init__(self, term, lit=None, label=None):
        self.term, self.lit, self.label = term, lit, label


class PFloatLit:
    def __init__(self, value):
        self.value = value


class PReal:
    def __init__(self, term):
        self.term = term


class PBool:
    def __init__(self, term):
        self.term = term


class Shape:
    """Python list / tuple of ints.  segs: ('elt', PInt) | ('rep', PInt, PInt) | ('opq', term, labels|None)"""
    def __init__(self, segs, term=None, tup=False):
        self.segs, self.term, self.tup = list(segs), term, tup

    def render(self):
        if self.term is not None:
            return self.term
        parts, cur = [], []
        for s in self.segs:
            if s[0] == "elt":
                cur.append(s[1].term)
                continue
            if cur:
                parts.append("[" + "; ".join(cur) + "]")
                cur = []
            parts.append("(zrep %s %s)" % (s[1].term, s[2].term) if s[0] == "rep" else s[1])
        if cur or not parts:
            parts.append("[" + "; ".join(cur) + "]")
        return parts[0] if len(parts) == 1 else "(" + " ++ ".join(parts) + ")"

    def labels(self):
        """axis labels, or None when some axis is unknown"""
        out = []
        for s in self.segs:
            if s[0] == "elt":
                v = s[1]
                if v.label == "C":
                    out.append("C")
                elif v.lit == 1:
                    out.append("1")
                else:
                    return None
            elif s[0] == "opq":
                if s[2] is None:
                    return None
                out += list(s[2])
            else:
                return None
        return tuple(out)


class GArr:
    """array-level value (abstract [Arr O]); labels: layout when known"""
    def __init__(self, term, labels=None):
        self.term, self.labels = term, labels


class RList:
    def __init__(self, term):
        self.term = term


class BList:
    def __init__(self, term):
        self.term = term


class Rows:
    """2-D array as the list of its rows"""
    def __init__(self, term):
        self.term = term


class Scal:
    def __init__(self, elem, term):
        self.elem, self.term = elem, term          # elem: 'c' complex, 'r' real, 'b' bool


class Lst:
    """coil vector  map (fun var => body) base   (body None: base itself)"""
    def __init__(self, elem, base, var=None, body=None):
        self.elem, self.base, self.var, self.body = elem, base, var, body

    def term(self):
        return self.base if self.body is None else "(map (fun %s => %s) %s)" % (self.var, self.body, self.base)


class Mat:
    def __init__(self, term):
        self.elem, self.term = "c", term


class Vox:
    """per-voxel value: a view (layout, sel) of a buffer, or a fresh temporary (content)"""
    def __init__(self, layout, content=None, buf=None, sel=None):
        self.layout, self.content, self.buf, self.sel = tuple(layout), content, buf, sel


class Marker:
    def __init__(self, kind, info=None):
        self.kind, self.info = kind, info


class Closure:
    def __init__(self, node):
        self.node = node


class AlgObj:
    def __init__(self, term=None, xbuf=None):
        self.term, self.xbuf = term, xbuf


class SvdResult:
    def __init__(self, term):
        self.term = term


class Poison:
    def __init__(self, why):
        self.why = why


DEV, XP, NONE = Marker("dev"), Marker("xp"), Marker("none")
CT = "(@cplx E)"
ZERO = {"c": "(@c0 E)", "r": "(@e0 E)"}
COQTYPE = {("c", 0): CT, ("r", 0): "E", ("b", 0): "bool", ("c", 1): "list " + CT, ("r", 1): "list E", ("b", 1): "list bool",
           ("c", 2): "list (list %s)" % CT}


def ncoil(layout):
    return sum(1 for a in layout if a in ("C", "K"))


def flip(layout):
    return tuple({"W": "Vr", "Vr": "W"}.get(a, a) for a in reversed(layout))


def atom(t):
    return re.fullmatch(r"[A-Za-z_][A-Za-z0-9_']*", t) is not None


# ---------------------------------------------------------------------------------------------
# symbolic execution of one function body
# ---------------------------------------------------------------------------------------------
class Fn:
    def __init__(self, tr, what, counter=None):
        self.tr = tr                      # Translator (sources, module names)
        self.what = what                  # "EspiritCalib.__init__" ...
        self.locals = {}
        self.attrs = {}                   # self.<a>
        self.store = {}                   # buffer -> content
        self.bufname = {}
        self.nbuf = 0
        self.lets = []
        self.counter = counter if counter is not None else {}
        self.ret = None
        self.in_loop = False
        self.pending_alg = None           # (captured snapshot) of the PowerMethod call

    # ---- helpers ---------------------------------------------------------------------------
    def err(self, node, msg):
        raise TranslationError("%s, mri/app.py line %d: %s%s" % (self.what, getattr(node, "lineno", 0), msg,
                                                                 (": `%s`" % flat(node)[:150]) if isinstance(node, ast.AST) else ""))

    def fresh(self, hint):
        hint = re.sub(r"[^A-Za-z0-9_]", "_", hint) or "v"
        k = self.counter.get(hint, 0) + 1
        self.counter[hint] = k
        return "%s_%d" % (hint, k)

    def let(self, hint, term, node, note=None):
        name = self.fresh(hint)
        cm = ""
        if node is not None and getattr(node, "lineno", 0):
            cm = "   (* L%d: %s *)" % (node.lineno, san(note or flat(node))[:160])
        self.lets.append("let %s := %s in%s" % (name, term, cm))
        return name

    def newbuf(self, content, name):
        self.nbuf += 1
        self.store[self.nbuf] = content
        self.bufname[self.nbuf] = name
        return self.nbuf

    def content(self, v, node):
        c = v.content if v.buf is None else self.store[v.buf]
        if v.sel == "hd":
            if not isinstance(c, Lst):
                self.err(node, "coil 0 of something that is not a coil vector")
            return Scal(c.elem, "(hd %s %s)" % (ZERO[c.elem], c.term()))
        return c

    def check_kind(self, layout, content, node):
        want = {0: Scal, 1: Lst, 2: Mat}.get(ncoil(layout))
        if want is None or not isinstance(content, want):
            self.err(node, "array layout %s does not fit its per-voxel value" % (layout,))

    # ---- binding ---------------------------------------------------------------------------
    def bind(self, name, v, node):
        """value of `name = v`: let-bind fresh terms; views alias"""
        if isinstance(v, Vox):
            if v.buf is not None:
                return v                                            # a view: same buffer
            c = v.content
            if isinstance(c, Lst):
                c = Lst(c.elem, self.let(name, c.term(), node))
            elif isinstance(c, Scal):
                c = Scal(c.elem, self.let(name, c.term, node))
            else:
                c = Mat(self.let(name, c.term, node))
            return Vox(v.layout, buf=self.newbuf(c, name))
        if isinstance(v, PInt):
            if v.lit is not None:
                return v
            return PInt(self.let(name, v.term, node), label=v.label)
        if isinstance(v, PReal):
            return PReal(self.let(name, v.term, node))
        if isinstance(v, PBool):
            return PBool(self.let(name, v.term, node))
        if isinstance(v, Shape):
            return Shape(v.segs, term=self.let(name, v.render(), node), tup=v.tup)
        if isinstance(v, GArr):
            return GArr(self.let(name, v.term, node), v.labels)
        if isinstance(v, (RList, BList, Rows)):
            return type(v)(self.let(name, v.term, node))
        if isinstance(v, AlgObj):
            return AlgObj(self.let(name, v.term, node), v.xbuf)
        if isinstance(v, (Marker, Closure)):
            if v is NONE:
                self.err(node, "None assigned to a variable")
            return v
        self.err(node, "a value of kind %s cannot be assigned" % type(v).__name__)

    # ---- elementwise arithmetic on per-voxel values ---------------------------------------------
    def broadcast(self, la, lb, node):
        n = max(len(la), len(lb))
        pa, pb = (None,) * (n - len(la)) + tuple(la), (None,) * (n - len(lb)) + tuple(lb)
        out = []
        for a, b in zip(pa, pb):
            if a == b or b in (None, "1"):
                out.append(a)
            elif a in (None, "1"):
                out.append(b)
            else:
                self.err(node, "operands of layouts %s and %s do not broadcast voxel-wise" % (la, lb))
        return tuple(out)

    SCALAR_OPS = {
        ("mul", "c", "c"): ("(cmul {0} {1})", "c"), ("mul", "c", "r"): ("(cscale {1} {0})", "c"), ("mul", "r", "c"): ("(cscale {0} {1})", "c"),
        ("mul", "c", "b"): ("(cscale (if {1} then (@e1 E) else (@e0 E)) {0})", "c"),
        ("mul", "b", "c"): ("(cscale (if {0} then (@e1 E) else (@e0 E)) {1})", "c"),
        ("mul", "r", "r"): ("(emul {0} {1})", "r"), ("div", "c", "r"): ("(cdivr {0} {1})", "c"), ("div", "r", "r"): ("(ediv {0} {1})", "r"),
        ("add", "c", "c"): ("(cadd {0} {1})", "c"), ("add", "r", "r"): ("(eadd {0} {1})", "r"), ("sub", "r", "r"): ("(esub {0} {1})", "r"),
        ("gt", "r", "r"): ("(eltb {1} {0})", "b"), ("lt", "r", "r"): ("(eltb {0} {1})", "b"),
        ("abs", "c"): ("(cabs {0})", "r"), ("conj", "c"): ("(cconj {0})", "c"), ("neg", "r"): ("(eopp {0})", "r"),
        ("sq", "r"): ("(emul {0} {0})", "r"), ("sqrt", "r"): ("(esqrt {0})", "r"),
    }

    def sop(self, name, elems, terms, node):
        key = (name,) + tuple(elems)
        if key not in self.SCALAR_OPS:
            self.err(node, "operation `%s` on %s operands is not one of the hand model's operations"
                     % (name, " / ".join({"c": "complex", "r": "real", "b": "bool"}[e] for e in elems)))
        fmt, r = self.SCALAR_OPS[key]
        return fmt.format(*terms), r

    def as_vox(self, v, node):
        """global real scalars take part in voxel arithmetic as layout-() scalars"""
        if isinstance(v, PReal):
            return Vox((), Scal("r", v.term))
        if isinstance(v, PBool):
            return Vox((), Scal("b", v.term))
        if isinstance(v, Vox):
            return v
        self.err(node, "operand of kind %s in voxel-wise arithmetic" % type(v).__name__)

    def unary(self, name, v, node):
        c = self.content(v, node)
        if isinstance(c, Scal):
            t, r = self.sop(name, [c.elem], [c.term], node)
            return Vox(v.layout, Scal(r, t))
        if isinstance(c, Lst):
            var = c.var or self.fresh("z")
            t, r = self.sop(name, [c.elem], [c.body or var], node)
            return Vox(v.layout, Lst(r, c.base, var, t))
        self.err(node, "operation `%s` on a per-voxel matrix" % name)

    def binary(self, name, a, b, node):
        a, b = self.as_vox(a, node), self.as_vox(b, node)
        layout = self.broadcast(a.layout, b.layout, node)
        ca, cb = self.content(a, node), self.content(b, node)
        if isinstance(ca, Mat) or isinstance(cb, Mat):
            if layout != a.layout and layout != b.layout:
                self.err(node, "broadcast that enlarges a per-voxel matrix")
            if name == "add" and isinstance(ca, Mat) and isinstance(cb, Mat):
                return Vox(layout, Mat("(madd %s %s)" % (ca.term, cb.term)))
            if name == "mul" and isinstance(ca, Mat) and isinstance(cb, Scal) and cb.elem == "r":
                return Vox(layout, Mat("(mscale %s %s)" % (cb.term, ca.term)))
            if name == "mul" and isinstance(cb, Mat) and isinstance(ca, Scal) and ca.elem == "r":
                return Vox(layout, Mat("(mscale %s %s)" % (ca.term, cb.term)))
            self.err(node, "operation `%s` on a per-voxel matrix is not one of the hand model's operations" % name)
        if isinstance(ca, Scal) and isinstance(cb, Scal):
            t, r = self.sop(name, [ca.elem, cb.elem], [ca.term, cb.term], node)
            res = Scal(r, t)
        elif isinstance(ca, Lst) and isinstance(cb, Scal):
            var = ca.var or self.fresh("z")
            t, r = self.sop(name, [ca.elem, cb.elem], [ca.body or var, cb.term], node)
            res = Lst(r, ca.base, var, t)
        elif isinstance(ca, Scal) and isinstance(cb, Lst):
            var = cb.var or self.fresh("z")
            t, r = self.sop(name, [ca.elem, cb.elem], [ca.term, cb.body or var], node)
            res = Lst(r, cb.base, var, t)
        else:
            if ca.base != cb.base:
                self.err(node, "elementwise operation between two different coil vectors")
            var = ca.var or cb.var or self.fresh("z")
            bb = cb.body if cb.var in (None, var) else re.sub(r"\b%s\b" % re.escape(cb.var), var, cb.body)
            t, r = self.sop(name, [ca.elem, cb.elem], [ca.body or var, bb or var], node)
            res = Lst(r, ca.base, var, t)
        self.check_kind(layout, res, node)
        return Vox(layout, res)

    def matmul(self, a, b, node):
        if not (isinstance(a, Vox) and isinstance(b, Vox)):
            self.err(node, "`@` on operands that are not per-voxel arrays")
        if len(a.layout) < 3 or len(b.layout) < 3 or a.layout[:-2] != b.layout[:-2] or a.layout[:-2] not in (("Vr",), ("W",)):
            self.err(node, "`@`: batch axes of the operands (%s, %s) are not the same voxel axes" % (a.layout, b.layout))
        batch, ta, tb = a.layout[:-2], a.layout[-2:], b.layout[-2:]
        ca, cb = self.content(a, node), self.content(b, node)
        if ta == ("C", "1") and tb == ("1", "C"):
            if ca.elem != "c" or cb.elem != "c":
                self.err(node, "`@` of non-complex vectors")
            return Vox(batch + ("C", "K"), Mat("(outer %s %s)" % (ca.term(), cb.term())))
        if ta == ("C", "K") and tb == ("C", "1"):
            if cb.elem != "c":
                self.err(node, "`@` of a matrix with a non-complex vector")
            return Vox(batch + ("C", "1"), Lst("c", "(matvec %s %s)" % (ca.term, cb.term())))
        self.err(node, "`@` of per-voxel shapes %s and %s is not (nc,1)@(1,nc) or (nc,nc)@(nc,1)" % (ta, tb))

    # ---- integers / reals ------------------------------------------------------------------
    def int_binop(self, name, a, b, node):
        if name == "div":
            return PReal("(ediv (e_ofZ O %s) (e_ofZ O %s))" % (a.term, b.term))
        sym = {"add": "+", "sub": "-", "mul": "*", "pow": "^"}.get(name)
        if sym is None:
            self.err(node, "integer operation not understood")
        lit = None
        if a.lit is not None and b.lit is not None:
            self.err(node, "arithmetic on integer literals only")
        return PInt("(%s %s %s)" % (a.term, sym, b.term), lit=lit)

    def to_real(self, v, node):
        if isinstance(v, PReal):
            return v
        self.err(node, "a real scalar is expected here, got %s" % type(v).__name__)

    # ---- expressions -----------------------------------------------------------------------
    def is_self(self, n):
        return isinstance(n, ast.Attribute) and isinstance(n.value, ast.Name) and n.value.id == "self" and "self" not in self.locals

    def lit_int(self, n):
        v = self.ev(n)
        if isinstance(v, PInt) and v.lit is not None:
            return v.lit
        self.err(n, "an integer literal is expected here")

    def ev(self, n):
        if isinstance(n, ast.Constant):
            v = n.value
            if isinstance(v, bool):
                return PBool("true" if v else "false")
            if isinstance(v, int):
                return PInt(str(v) if v >= 0 else "(%d)" % v, lit=v)
            if isinstance(v, float):
                return PFloatLit(v)
            if v is None:
                return NONE
            self.err(n, "constant not understood")
        if isinstance(n, ast.Name):
            if n.id in self.locals:
                v = self.locals[n.id]
                if isinstance(v, Poison):
                    self.err(n, v.why)
                return v
            if n.id in self.tr.modules:
                return Marker("module:" + self.tr.modules[n.id])
            self.err(n, "unknown name")
        if isinstance(n, ast.Attribute):
            return self.attribute(n)
        if isinstance(n, ast.UnaryOp):
            if isinstance(n.op, ast.USub):
                v = self.ev(n.operand)
                if isinstance(v, PInt):
                    if v.lit is not None:
                        return PInt("(%d)" % -v.lit if v.lit > 0 else str(-v.lit), lit=-v.lit)
                    return PInt("(- %s)" % v.term)
                if isinstance(v, (Vox, PReal)):
                    return self.unary("neg", self.as_vox(v, n), n)
            self.err(n, "unary operator not understood")
        if isinstance(n, ast.BinOp):
            return self.binop(n)
        if isinstance(n, ast.Compare):
            if len(n.ops) != 1 or not isinstance(n.ops[0], (ast.Gt, ast.Lt)):
                self.err(n, "comparison other than a single `>` / `<` (the model's operations have only `<` on reals)")
            name = "gt" if isinstance(n.ops[0], ast.Gt) else "lt"
            a, b = self.ev(n.left), self.ev(n.comparators[0])
            if isinstance(a, RList) and isinstance(b, PReal):
                s = self.fresh("s")
                return BList("(map (fun %s => %s) %s)" % (s, ("eltb %s %s" % (b.term, s)) if name == "gt" else ("eltb %s %s" % (s, b.term)), a.term))
            if isinstance(a, (Vox, PReal)) and isinstance(b, (Vox, PReal)) and (isinstance(a, Vox) or isinstance(b, Vox)):
                return self.binary(name, a, b, n)
            self.err(n, "comparison between these operands is not understood")
        if isinstance(n, (ast.List, ast.Tuple)):
            segs = []
            for e in n.elts:
                v = self.ev(e)
                if not isinstance(v, PInt):
                    self.err(e, "list / tuple element that is not an integer")
                segs.append(("elt", v))
            return Shape(segs, tup=isinstance(n, ast.Tuple))
        if isinstance(n, ast.Subscript):
            return self.subscript(n)
        if isinstance(n, ast.Call):
            return self.call(n)
        self.err(n, "expression form not understood (%s)" % type(n).__name__)

    def attribute(self, n):
        if self.is_self(n):
            if n.attr not in self.attrs:
                self.err(n, "self.%s is not an attribute the model knows here" % n.attr)
            return self.attrs[n.attr]
        base = self.ev(n.value)
        a = n.attr
        if isinstance(base, Marker):
            if base.kind == "dev" and a == "xp":
                return XP
            if base.kind == "module:sigpy" and a == "alg":
                return Marker("module:sigpy.alg")
            if base.kind == "xp" and a == "linalg":
                return Marker("xp.linalg")
            self.err(n, "attribute of a module / device not understood")
        if isinstance(base, GArr):
            if a == "ndim":
                return PInt("(Z.of_nat (List.length (a_shape O %s)))" % base.term)
            if a == "shape":
                return Shape([("opq", "(a_shape O %s)" % base.term, base.labels)], tup=True)
            if a == "dtype":
                return Marker("dtype", base.term)
            if a == "T":
                if base.labels != ("C", "W"):
                    self.err(n, ".T of an array whose layout is not [num_coils] + img_shape")
                return Vox(("Vr", "C"), Lst("c", "(a_voxel O %s)" % base.term))
            self.err(n, "attribute of an array not understood")
        if isinstance(base, Vox):
            if a == "T":
                if ncoil(base.layout) > 1:
                    self.err(n, ".T of a per-voxel matrix")
                return Vox(flip(base.layout), base.content, base.buf, base.sel)
            self.err(n, "attribute of a per-voxel array not understood")
        if isinstance(base, AlgObj):
            if a == "max_eig" and "alg.max_eig" in self.attrs:
                return self.attrs["alg.max_eig"]
            self.err(n, "attribute of the PowerMethod object not understood here")
        self.err(n, "attribute access not understood")

    def binop(self, n):
        names = {ast.Add: "add", ast.Sub: "sub", ast.Mult: "mul", ast.Div: "div", ast.Pow: "pow", ast.MatMult: "matmul"}
        if type(n.op) not in names:
            self.err(n, "binary operator not understood")
        name = names[type(n.op)]
        a, b = self.ev(n.left), self.ev(n.right)
        if name == "matmul":
            return self.matmul(a, b, n)
        if name == "pow":
            if isinstance(a, PInt) and isinstance(b, PInt):
                return self.int_binop("pow", a, b, n)
            if isinstance(a, (Vox, PReal)):
                if isinstance(b, PInt) and b.lit == 2:
                    return self.unary("sq", self.as_vox(a, n), n)
                if isinstance(b, PFloatLit) and b.value == 0.5:
                    return self.unary("sqrt", self.as_vox(a, n), n)
            self.err(n, "only `int ** int`, `e ** 2` and `e ** 0.5` are understood")
        if isinstance(a, Shape) and isinstance(b, Shape) and name == "add":
            if a.tup != b.tup:
                self.err(n, "list + tuple")
            return Shape(a.segs + b.segs, tup=a.tup)
        if isinstance(a, Shape) and isinstance(b, PInt) and name == "mul":
            if a.tup or len(a.segs) != 1 or a.segs[0][0] != "elt":
                self.err(n, "only `[e] * n` is understood")
            return Shape([("rep", a.segs[0][1], b)])
        if isinstance(a, PInt) and isinstance(b, PInt):
            return self.int_binop(name, a, b, n)
        if isinstance(a, PReal) and isinstance(b, PReal):
            v = self.binary(name, a, b, n)
            return PReal(v.content.term)
        if isinstance(a, (Vox, PReal, PBool)) and isinstance(b, (Vox, PReal, PBool)):
            return self.binary(name, a, b, n)
        self.err(n, "operands of kinds %s, %s for `%s`" % (type(a).__name__, type(b).__name__, name))

    def subscript(self, n):
        base = self.ev(n.value)
        sl = n.slice
        if isinstance(base, Shape):
            if not isinstance(sl, ast.Slice) or len(base.segs) != 1 or base.segs[0][0] != "opq" and base.term is None:
                self.err(n, "subscript of a shape not understood")
            t = base.render()
            labels = base.labels()
            lo = None if sl.lower is None else self.lit_int(sl.lower)
            up = None if sl.upper is None else self.lit_int(sl.upper)
            st = None if sl.step is None else self.lit_int(sl.step)
            if (lo, up, st) == (1, None, None):
                return Shape([("opq", "(tl %s)" % t, None if labels is None else labels[1:])], tup=base.tup)
            if (lo, up, st) == (None, None, -1):
                return Shape([("opq", "(rev %s)" % t, None if labels is None else flip(labels))], tup=base.tup)
            self.err(n, "only shape[1:] and shape[::-1] are understood")
        if isinstance(base, Vox):
            if not (isinstance(sl, ast.Constant) and sl.value == 0 and not isinstance(sl.value, bool)):
                self.err(n, "only `[0]` is understood on a per-voxel array")
            if not base.layout or base.sel is not None:
                self.err(n, "`[0]` on this value")
            head = base.layout[0]
            if head == "1":
                return Vox(base.layout[1:], base.content, base.buf, base.sel)
            if head == "C" and ncoil(base.layout) == 1:
                return Vox(base.layout[1:], base.content, base.buf, "hd")
            self.err(n, "`[0]` selects along axis '%s' (a voxel axis or a matrix row), which the per-voxel model cannot express" % head)
        if isinstance(base, Rows):
            if not (isinstance(sl, ast.Tuple) and len(sl.elts) == 2 and isinstance(sl.elts[1], ast.Slice)
                    and sl.elts[1].lower is None and sl.elts[1].upper is None and sl.elts[1].step is None):
                self.err(n, "only rows[mask, :] is understood")
            m = self.ev(sl.elts[0])
            if not isinstance(m, BList):
                self.err(n, "row selection by something that is not a boolean mask")
            return Rows("(select %s %s)" % (m.term, base.term))
        self.err(n, "subscript not understood")

    # ---- calls -----------------------------------------------------------------------------
    def kwargs(self, n, allowed):
        out = {}
        for kw in n.keywords:
            if kw.arg is None or kw.arg not in allowed or kw.arg in out:
                self.err(n, "keyword argument `%s` not understood" % kw.arg)
            out[kw.arg] = kw.value
        return out

    def shape_arg(self, node):
        v = self.ev(node)
        if not isinstance(v, Shape):
            self.err(node, "a shape (list / tuple of ints) is expected")
        return v

    def garr_arg(self, node):
        v = self.ev(node)
        if not isinstance(v, GArr):
            self.err(node, "an array is expected")
        return v

    def axis_of(self, node, v):
        k = self.lit_int(node)
        if not (-len(v.layout) <= k < len(v.layout)):
            self.err(node, "axis out of range")
        return k % len(v.layout)

    def call(self, n):
        f = n.func
        if isinstance(f, ast.Name) and f.id not in self.locals:
            if f.id == "len" and len(n.args) == 1 and not n.keywords:
                v = self.ev(n.args[0])
                if isinstance(v, GArr):
                    return PInt("(hd 0 (a_shape O %s))" % v.term, label="C" if v.labels and v.labels[0] == "C" else None)
                if isinstance(v, Rows):
                    return PInt("(Z.of_nat (List.length %s))" % v.term, label=("len", v.term))
                self.err(n, "len of this value")
            if f.id == "range" and len(n.args) == 2 and not n.keywords:
                a, b = self.ev(n.args[0]), self.ev(n.args[1])
                if not (isinstance(a, PInt) and isinstance(b, PInt)):
                    self.err(n, "range of non-integers")
                return Shape([("opq", "(zrange %s %s)" % (a.term, b.term), None)])
            self.err(n, "call not understood")
        if not isinstance(f, ast.Attribute):
            self.err(n, "call not understood")
        a = f.attr
        # methods of values
        base = None
        if not self.is_self(f):
            base = self.ev(f.value)
        if isinstance(base, Marker) and base.kind == "module:sigpy":
            if a in ("Device", "get_device") and len(n.args) == 1 and not n.keywords:
                self.ev(n.args[0])
                return DEV
            if a == "to_device" and len(n.args) == 2 and not n.keywords:
                v = self.ev(n.args[0])
                if self.ev(n.args[1]) is not DEV:
                    self.err(n, "to_device to something that is not a device")
                return v
            if a == "resize" and len(n.args) == 2 and not n.keywords:
                x, s = self.garr_arg(n.args[0]), self.shape_arg(n.args[1])
                return GArr("(a_resize O %s %s)" % (x.term, s.render()), s.labels())
            if a == "array_to_blocks" and len(n.args) == 3 and not n.keywords:
                x, s1, s2 = self.garr_arg(n.args[0]), self.shape_arg(n.args[1]), self.shape_arg(n.args[2])
                return GArr("(a_blocks O %s %s %s)" % (x.term, s1.render(), s2.render()))
            if a == "ifft" and len(n.args) == 1:
                kw = self.kwargs(n, ("axes",))
                if "axes" not in kw:
                    self.err(n, "sp.ifft without axes= (all axes, including the coil axis)")
                x, ax = self.garr_arg(n.args[0]), self.shape_arg(kw["axes"])
                return GArr("(a_ifft O %s %s)" % (x.term, ax.render()), x.labels)
            if a == "prod" and len(n.args) == 1 and not n.keywords:
                return PInt("(zprod %s)" % self.shape_arg(n.args[0]).render())
            self.err(n, "sigpy function not understood")
        if isinstance(base, Marker) and base.kind == "module:sigpy.alg" and a == "PowerMethod":
            return self.power_method(n)
        if isinstance(base, Marker) and base.kind == "xp.linalg" and a == "svd":
            kw = self.kwargs(n, ("full_matrices",))
            if len(n.args) != 1 or "full_matrices" not in kw or not (isinstance(kw["full_matrices"], ast.Constant) and kw["full_matrices"].value is False):
                self.err(n, "svd call other than svd(mat, full_matrices=False)")
            return SvdResult("(a_svd O %s)" % self.garr_arg(n.args[0]).term)
        if base is XP:
            return self.xp_call(a, n)
        if isinstance(base, GArr):
            if a in ("reshape", "transpose") and len(n.args) == 1 and not n.keywords:
                s = self.shape_arg(n.args[0])
                return GArr("(a_%s O %s %s)" % (a, base.term, s.render()))
            self.err(n, "array method not understood")
        if isinstance(base, Rows):
            if a == "reshape" and len(n.args) == 1 and not n.keywords:
                s = self.shape_arg(n.args[0])
                if not (s.term is None and s.segs and s.segs[0][0] == "elt" and s.segs[0][1].label == ("len", base.term)):
                    self.err(n, "reshape of the kept rows whose leading extent is not their number (len(VH))")
                row = self.fresh("row")
                return Rows("(map (fun %s => a_reshape O %s %s) %s)" % (row, row, Shape(s.segs[1:]).render(), base.term))
            self.err(n, "method of a 2-D array not understood")
        if isinstance(base, RList):
            if a == "max" and not n.args and not n.keywords:
                return PReal("(lmax %s)" % base.term)
            self.err(n, "method of the singular values not understood")
        if isinstance(base, Vox):
            if a == "swapaxes" and len(n.args) == 2 and not n.keywords:
                i, j = self.axis_of(n.args[0], base), self.axis_of(n.args[1], base)
                if ncoil(base.layout) > 1 or base.layout[i] in ("Vr", "W") or base.layout[j] in ("Vr", "W"):
                    self.err(n, "swapaxes of voxel axes / of a per-voxel matrix")
                l = list(base.layout)
                l[i], l[j] = l[j], l[i]
                return Vox(l, base.content, base.buf, base.sel)
            if a in ("max", "min", "sum", "mean") :
                self.err(n, ".%s() reduces over voxels: not a per-voxel operation" % a)
            self.err(n, "method of a per-voxel array not understood")
        self.err(n, "call not understood")

    def xp_call(self, a, n):
        if a in ("zeros", "ones") and len(n.args) == 1:
            kw = self.kwargs(n, ("dtype",))
            if "dtype" not in kw:
                self.err(n, "xp.%s without dtype= (float64 instead of the k-space dtype)" % a)
            d = self.ev(kw["dtype"])
            if not (isinstance(d, Marker) and d.kind == "dtype" and d.info == "ksp"):
                self.err(n, "dtype other than ksp.dtype")
            s = self.shape_arg(n.args[0])
            lab = s.labels()
            nc = [seg[1].term for seg in s.segs if seg[0] == "elt" and seg[1].label == "C"]
            if not nc:
                for seg in s.segs:
                    if seg[0] == "opq" and seg[2] and "C" in seg[2]:
                        nc = ["(hd 0 (a_shape O ksp))"]
            if lab == ("Vr", "C", "C") and a == "zeros":
                return Vox(("Vr", "C", "K"), Mat("(mzeros (Z.to_nat %s))" % nc[0]))
            if lab == ("Vr", "C", "1") and a == "ones":
                return Vox(lab, Lst("c", "(repeat (@c1 E) (Z.to_nat %s))" % nc[0]))
            self.err(n, "xp.%s of a shape whose axes are %s: not one of the per-voxel objects of the model" % (a, lab))
        if a == "expand_dims" and len(n.args) == 1:
            kw = self.kwargs(n, ("axis",))
            v = self.ev(n.args[0])
            if not isinstance(v, Vox) or "axis" not in kw or self.lit_int(kw["axis"]) != -1:
                self.err(n, "only expand_dims(<per-voxel array>, axis=-1) is understood")
            return Vox(v.layout + ("1",), v.content, v.buf, v.sel)
        if a in ("conj", "abs") and len(n.args) == 1 and not n.keywords:
            v = self.ev(n.args[0])
            if not isinstance(v, Vox):
                self.err(n, "xp.%s of something that is not a per-voxel array" % a)
            return self.unary(a, v, n)
        if a == "sum" and len(n.args) == 1:
            kw = self.kwargs(n, ("axis", "keepdims"))
            v = self.ev(n.args[0])
            if not isinstance(v, Vox) or "axis" not in kw:
                self.err(n, "xp.sum without axis= reduces over voxels: not a per-voxel operation")
            k = self.axis_of(kw["axis"], v)
            if v.layout[k] != "C" or ncoil(v.layout) != 1:
                self.err(n, "xp.sum along axis '%s' of layout %s: only the coil axis of a coil vector can be summed per voxel" % (v.layout[k], v.layout))
            keep = False
            if "keepdims" in kw:
                if not (isinstance(kw["keepdims"], ast.Constant) and isinstance(kw["keepdims"].value, bool)):
                    self.err(n, "keepdims is not a literal")
                keep = kw["keepdims"].value
            c = self.content(v, n)
            fn = {"r": "esum", "c": "csum"}.get(c.elem)
            if fn is None:
                self.err(n, "sum of booleans")
            layout = v.layout[:k] + (("1",) if keep else ()) + v.layout[k + 1:]
            return Vox(layout, Scal(c.elem, "(%s %s)" % (fn, c.term())))
        self.err(n, "xp.%s is not understood" % a)

    def power_method(self, n):
        if self.what != "EspiritCalib.__init__" or self.in_loop or self.pending_alg is not None:
            self.err(n, "PowerMethod constructed here")
        params = self.tr.pm_signature()                       # [(name, default node | None)]
        given = {}
        if len(n.args) > len(params):
            self.err(n, "too many arguments for PowerMethod")
        for (p, _), a in zip(params, n.args):
            given[p] = a
        for kw in n.keywords:
            if kw.arg is None or kw.arg in given or kw.arg not in [p for p, _ in params]:
                self.err(n, "keyword argument of PowerMethod not understood")
            given[kw.arg] = kw.value
        for p, d in params:
            if p not in given:
                if d is None:
                    self.err(n, "PowerMethod argument %s missing" % p)
                given[p] = d
        A = self.ev(given["A"])
        if not isinstance(A, Closure):
            self.err(n, "PowerMethod's A is not a function defined in __init__")
        x = self.ev(given["x"])
        if not (isinstance(x, Vox) and x.buf is not None and x.sel is None and x.layout == ("Vr", "C", "1")
                and isinstance(self.store[x.buf], Lst) and self.store[x.buf].elem == "c"):
            self.err(n, "PowerMethod's x is not a complex array of shape ksp.shape[::-1] + (1,)")
        nf = self.ev(given["norm_func"])
        if nf is not NONE and not isinstance(nf, Closure):
            self.err(n, "PowerMethod's norm_func is neither None nor a function defined in __init__")
        mi = self.ev(given["max_iter"])
        if not isinstance(mi, PInt):
            self.err(n, "PowerMethod's max_iter is not an integer")
        fdef, caps = self.tr.closure(self, A.node, "forward")
        if [k for k, _ in caps] != ["m"]:
            self.err(A.node, "the function handed to PowerMethod as A captures %s; the model's state keeps exactly one per-voxel matrix (AHA)"
                     % ([nm for _, nm in caps] or "nothing"))
        aha_name = caps[0][1]
        aha = self.locals[aha_name]
        aha_term = self.store[aha.buf].term
        nterm = "None"
        if isinstance(nf, Closure):
            _, ncaps = self.tr.closure(self, nf.node, "normalize")
            if ncaps:
                self.err(nf.node, "the function handed to PowerMethod as norm_func captures per-voxel arrays (%s)" % [nm for _, nm in ncaps])
            nterm = "(Some gen_espirit_normalize)"
        self.tr.norm_given = isinstance(nf, Closure)
        term = "(gen_pm_init (VIP O) (gen_espirit_forward %s) %s %s inf %s)" % (aha_term, nterm, self.store[x.buf].term(), mi.term)
        self.pending_alg = dict(aha_name=aha_name, aha_buf=aha.buf, aha_term=aha_term, xbuf=x.buf, xterm=self.store[x.buf].term(),
                                closures=[A.node] + ([nf.node] if isinstance(nf, Closure) else []), node=n)
        return AlgObj(term, x.buf)

    # ---- statements ------------------------------------------------------------------------
    def device_ctx(self, item):
        if item.optional_vars is not None:
            self.err(item.context_expr, "`with ... as ...`")
        if self.ev(item.context_expr) is not DEV:
            self.err(item.context_expr, "`with` on something that is not a device")

    def assign_name(self, name, v, node):
        if self.in_loop and name in self.outer_names:
            self.err(node, "a variable of the enclosing function is rebound inside the loop (only in-place `+=` on the accumulator is understood)")
        self.locals[name] = self.bind(name, v, node)
        if self.in_loop:
            self.loop_locals.add(name)

    def stmt(self, s):
        """one statement without control flow"""
        if isinstance(s, ast.Pass):
            return
        if isinstance(s, ast.Expr):
            if isinstance(s.value, ast.Constant) and isinstance(s.value.value, str):
                return
            if isinstance(s.value, ast.Call):
                return self.call_stmt(s.value, s)
            self.err(s, "expression statement not understood")
        if isinstance(s, ast.FunctionDef):
            if self.what != "EspiritCalib.__init__" or self.in_loop or s.decorator_list or s.name in self.locals:
                self.err(s, "nested function definition not understood here")
            self.locals[s.name] = Closure(s)
            return
        if isinstance(s, ast.Assign):
            if len(s.targets) != 1:
                self.err(s, "multiple assignment targets")
            t = s.targets[0]
            if isinstance(t, ast.Tuple):
                v = self.ev(s.value)
                if not isinstance(v, SvdResult) or len(t.elts) != 3 or not all(isinstance(e, ast.Name) for e in t.elts):
                    self.err(s, "tuple assignment other than `_, S, VH = xp.linalg.svd(...)`")
                u, sv, vh = [e.id for e in t.elts]
                name = self.let("svd", v.term, s)
                self.assign_name(u, Marker("unused-U"), s)
                self.locals[u] = Poison("the left singular vectors U are not part of the model")
                self.assign_name(sv, RList("(fst %s)" % name), s)
                self.assign_name(vh, Rows("(snd %s)" % name), s)
                return
            v = self.ev(s.value)
            if isinstance(t, ast.Name):
                if isinstance(v, SvdResult):
                    self.err(s, "the result of svd is not unpacked")
                self.assign_name(t.id, v, s)
                return
            if self.is_self(t):
                return self.store_attr(t.attr, v, s)
            self.err(s, "assignment target not understood")
        if isinstance(s, ast.AugAssign):
            names = {ast.Add: "add", ast.Mult: "mul", ast.Sub: "sub", ast.Div: "div"}
            if type(s.op) not in names or not isinstance(s.target, ast.Name):
                self.err(s, "augmented assignment not understood")
            cur = self.locals.get(s.target.id)
            if not (isinstance(cur, Vox) and cur.buf is not None):
                self.err(s, "in-place update of something that is not a per-voxel array variable")
            if cur.sel is not None:
                self.err(s, "in-place update through a coil-0 view")
            if self.in_loop and s.target.id not in (self.loop_acc,):
                if s.target.id in self.outer_names:
                    self.err(s, "a second array of the enclosing function is updated inside the loop")
            new = self.binary(names[type(s.op)], cur, self.ev(s.value), s)
            if new.layout != cur.layout:
                self.err(s, "in-place update changes the shape (%s -> %s)" % (cur.layout, new.layout))
            old = self.store[cur.buf]
            c = new.content
            if type(c) is not type(old) or c.elem != old.elem:
                self.err(s, "in-place update changes the kind of the array (complex / real, vector / matrix)")
            hint = self.bufname.get(cur.buf, s.target.id)
            if isinstance(c, Lst):
                c = Lst(c.elem, self.let(hint, c.term(), s))
            elif isinstance(c, Scal):
                c = Scal(c.elem, self.let(hint, c.term, s))
            else:
                c = Mat(self.let(hint, c.term, s))
            self.store[cur.buf] = c
            return
        self.err(s, "statement form not understood (%s)" % type(s).__name__)

    def store_attr(self, attr, v, node):
        if self.what != "EspiritCalib.__init__" or self.in_loop:
            self.err(node, "assignment to self.%s outside __init__" % attr)
        if attr in self.attrs:
            self.err(node, "self.%s is assigned twice" % attr)
        if attr == "device":
            if v is not DEV:
                self.err(node, "self.device is not a device")
        elif attr in ("crop", "output_eigenvalue"):
            want = self.param_vals[attr]
            if v is not want:
                self.err(node, "self.%s is not assigned the constructor argument `%s` itself" % (attr, attr))
        elif attr == "mps":
            v = self.bind("mps", v, node)
            if not (isinstance(v, Vox) and v.buf is not None):
                self.err(node, "self.mps is not a per-voxel array")
        else:
            self.err(node, "assignment to self.%s, which is not an attribute of the hand model" % attr)
        self.attrs[attr] = v

    def call_stmt(self, c, s):
        f = c.func
        if (isinstance(f, ast.Attribute) and f.attr == "__init__" and isinstance(f.value, ast.Call) and isinstance(f.value.func, ast.Name)
                and f.value.func.id == "super" and not f.value.args and not f.value.keywords and self.what == "EspiritCalib.__init__"
                and not self.in_loop):
            params = self.tr.app_init_params()                # App.__init__(self, alg, show_pbar=True, ...): self.alg = alg
            given = dict(zip(params, c.args))
            for kw in c.keywords:
                if kw.arg is None or kw.arg in given or kw.arg not in params:
                    self.err(s, "keyword of super().__init__ not understood")
                given[kw.arg] = kw.value
            if "alg" not in given:
                self.err(s, "super().__init__ without the alg")
            v = self.ev(given["alg"])
            if not isinstance(v, AlgObj) or "alg" in self.attrs:
                self.err(s, "super().__init__ is not handed the PowerMethod object")
            for k, e in given.items():
                if k != "alg":
                    w = self.ev(e)
                    if not isinstance(w, (PBool, Marker)):
                        self.err(e, "argument %s of App.__init__ is not a flag" % k)
            self.attrs["alg"] = v
            return
        self.err(s, "call statement not understood")

    def loop(self, s):
        if s.orelse or self.in_loop or not isinstance(s.target, ast.Name):
            self.err(s, "loop form not understood")
        it = self.ev(s.iter)
        if not isinstance(it, Rows):
            self.err(s, "loop over something that is not the list of kernels (rows of a 2-D array)")
        aug = []
        for b in ast.walk(ast.Module(body=s.body, type_ignores=[])):
            if isinstance(b, ast.AugAssign) and isinstance(b.target, ast.Name) and b.target.id in self.locals and b.target.id not in aug:
                aug.append(b.target.id)
            if isinstance(b, (ast.For, ast.While, ast.If, ast.Break, ast.Continue, ast.Return, ast.With, ast.FunctionDef, ast.Try)):
                self.err(b, "control flow inside the kernel loop")
        if len(aug) != 1:
            self.err(s, "the loop body must update exactly one array of the enclosing function in place (found %s)" % aug)
        acc = self.locals[aug[0]]
        if not (isinstance(acc, Vox) and acc.buf is not None and acc.sel is None and isinstance(self.store[acc.buf], Mat)):
            self.err(s, "the loop accumulator is not a per-voxel matrix")
        init = self.store[acc.buf].term
        accv, kv = self.fresh(aug[0] + "_acc"), self.fresh(s.target.id)
        saved_lets, saved_locals = self.lets, dict(self.locals)
        self.lets = []
        self.in_loop, self.loop_acc, self.outer_names, self.loop_locals = True, aug[0], set(saved_locals), set()
        if s.target.id in saved_locals:
            self.err(s, "the loop variable shadows a variable of the enclosing function")
        self.store[acc.buf] = Mat(accv)
        self.locals[s.target.id] = GArr(kv)
        for b in s.body:
            self.stmt(b)
        body = self.lets + [self.store[acc.buf].term]
        self.lets, self.in_loop = saved_lets, False
        for nm in list(self.loop_locals) + [s.target.id]:
            self.locals[nm] = Poison("`%s` is assigned inside the kernel loop; its value after the loop is not modelled" % nm)
        term = "(fold_left (fun (%s : list (list %s)) (%s : Arr O) =>\n      %s) %s %s)" % (
            accv, CT, kv, "\n      ".join(body), it.term, init)
        self.store[acc.buf] = Mat(self.let(self.bufname.get(acc.buf, aug[0]), term, s, note="for %s in %s: ..." % (s.target.id, flat(s.iter))))

    def run(self, stmts):
        """-> lines of the body (lets, then the result)"""
        stmts = list(stmts)
        while stmts:
            s = stmts.pop(0)
            if isinstance(s, ast.With):
                for it in s.items:
                    self.device_ctx(it)
                stmts = list(s.body) + stmts
                continue
            if isinstance(s, ast.For):
                self.loop(s)
                continue
            if isinstance(s, ast.If):
                c = self.ev(s.test)
                if not isinstance(c, PBool):
                    self.err(s.test, "condition is not a boolean flag of the model")
                cm = "   (* L%d: if %s *)" % (s.lineno, san(flat(s.test)))
                other = copy.deepcopy(self)
                other.tr = self.tr
                other.counter = self.counter
                lets = self.lets
                self.lets, other.lets = [], []
                a = self.run(list(s.body) + stmts)
                b = other.run(list(s.orelse) + copy.deepcopy(stmts))
                return lets + ["if %s then (%s" % (c.term, cm)] + ["  " + x for x in a] + [") else ("] + ["  " + x for x in b] + [")"]
            if isinstance(s, ast.Return):
                return self.lets + self.finish(s)
            self.stmt(s)
        return self.lets + self.finish(None)

    def __deepcopy__(self, memo):
        new = Fn.__new__(Fn)
        for k, v in self.__dict__.items():
            new.__dict__[k] = v if k in ("tr", "counter") else copy.deepcopy(v, memo)
        return new

    def finish(self, ret):
        if self.closure_role:
            if ret is None or ret.value is None:
                raise TranslationError("%s: a path ends without returning a value" % self.what)
            v = self.ev(ret.value)
            if not isinstance(v, Vox):
                self.err(ret, "the returned value is not a per-voxel array")
            self.result = v
            c = self.content(v, ret)
            return [c.term() if isinstance(c, Lst) else c.term]
        if self.what == "EspiritCalib._output":
            if ret is None or ret.value is None:
                raise TranslationError("EspiritCalib._output: a path ends without returning a value")
            vals = list(ret.value.elts) if isinstance(ret.value, ast.Tuple) else [ret.value]
            if len(vals) not in (1, 2):
                self.err(ret, "_output returns something other than `mps` or `(mps, max_eig)`")
            m = self.ev(vals[0])
            if not (isinstance(m, Vox) and m.layout == ("C", "W") and m.sel is None):
                self.err(ret, "the returned maps do not have the layout of ksp ([num_coils] + img_shape)")
            cm = self.content(m, ret)
            if cm.elem != "c":
                self.err(ret, "the returned maps are not complex")
            if len(vals) == 1:
                return ["(%s, None)" % cm.term()]
            e = self.ev(vals[1])
            if not (isinstance(e, Vox) and e.layout == ("1", "W") and e.sel is None):
                self.err(ret, "the returned eigenvalues do not have the layout [1] + img_shape")
            ce = self.content(e, ret)
            if ce.elem != "r":
                self.err(ret, "the returned eigenvalues are not real")
            return ["(%s, Some %s)" % (cm.term(), ce.term)]
        # __init__
        if ret is not None and ret.value is not None:
            self.err(ret, "__init__ returns a value")
        for a in ("device", "crop", "output_eigenvalue", "mps", "alg"):
            if a not in self.attrs:
                raise TranslationError("EspiritCalib.__init__: self.%s is never assigned" % a)
        p = self.pending_alg
        alg = self.attrs["alg"]
        if self.attrs["mps"].buf != alg.xbuf:
            self.err(p["node"], "PowerMethod's x is not self.mps (the maps `_output` reads are the array the power method updates in place)")
        # late binding of closures: what they capture must still be what it was when they were handed over
        cur = self.locals.get(p["aha_name"])
        if not (isinstance(cur, Vox) and cur.buf == p["aha_buf"] and self.store[cur.buf].term == p["aha_term"]):
            self.err(p["node"], "`%s`, captured by the function handed to PowerMethod, is modified after the PowerMethod is constructed" % p["aha_name"])
        if self.store[alg.xbuf].term() != p["xterm"]:
            self.err(p["node"], "self.mps is modified after the PowerMethod is constructed")
        for c in p["closures"]:
            if not isinstance(self.locals.get(c.name), Closure) or self.locals[c.name].node is not c:
                self.err(c, "the function `%s` is rebound after it is handed to PowerMethod" % c.name)
        return ["mkCalib %s %s %s %s" % (self.param_vals["crop"].term, self.param_vals["output_eigenvalue"].term, p["aha_term"], alg.term)]


# ---------------------------------------------------------------------------------------------
# sources, class-level facts, closures
# ---------------------------------------------------------------------------------------------
PARAMS = ["ksp", "calib_width", "thresh", "kernel_width", "crop", "max_iter", "device", "output_eigenvalue", "show_pbar"]


def nodoc(body):
    return [s for s in body if not (isinstance(s, ast.Expr) and isinstance(s.value, ast.Constant) and isinstance(s.value.value, str))]


class Translator:
    def __init__(self, mri_src, alg_src, app_src):
        self.mri_src, self.alg_src, self.app_src = mri_src, alg_src, app_src
        self.tree = ast.parse(mri_src)
        self.alg_tree = ast.parse(alg_src)
        self.app_tree = ast.parse(app_src)
        self.modules = {}
        for s in self.tree.body:
            if isinstance(s, ast.Import):
                for a in s.names:
                    if a.name in ("numpy", "sigpy"):
                        self.modules[a.asname or a.name] = a.name
        if "sigpy" not in self.modules.values():
            raise TranslationError("mri/app.py no longer does `import sigpy as sp`")
        for s in self.tree.body:
            names = []
            if isinstance(s, (ast.FunctionDef, ast.ClassDef)):
                names = [s.name]
            elif isinstance(s, ast.Assign):
                names = [t.id for t in s.targets if isinstance(t, ast.Name)]
            elif isinstance(s, ast.ImportFrom):
                names = [a.asname or a.name for a in s.names]
            for nm in names:
                if nm in self.modules or nm in ("len", "range", "super"):
                    raise TranslationError("mri/app.py: module-level name `%s` is rebound (line %d)" % (nm, s.lineno))
        cls = [c for c in self.tree.body if isinstance(c, ast.ClassDef) and c.name == "EspiritCalib"]
        if len(cls) != 1:
            raise TranslationError("class EspiritCalib not found exactly once in mri/app.py")
        self.cls = c = cls[0]
        sp = [k for k, v in self.modules.items() if v == "sigpy"]
        if c.decorator_list or c.keywords or len(c.bases) != 1 or flat(c.bases[0]) not in ["%s.app.App" % k for k in sp]:
            raise TranslationError("class EspiritCalib no longer derives from sp.app.App alone")
        self.methods = {}
        for m in nodoc(c.body):
            if not isinstance(m, ast.FunctionDef) or m.decorator_list or m.name in self.methods or m.name not in ("__init__", "_output"):
                raise TranslationError("class EspiritCalib, line %d: the class body is no longer exactly __init__ and _output (%s)"
                                       % (m.lineno, getattr(m, "name", type(m).__name__)))
            self.methods[m.name] = m
        for nm in ("__init__", "_output"):
            if nm not in self.methods:
                raise TranslationError("EspiritCalib.%s not found" % nm)
        for s in ast.walk(self.methods["_output"]):
            if isinstance(s, ast.Attribute) and isinstance(s.ctx, (ast.Store, ast.Del)):
                raise TranslationError("EspiritCalib._output, line %d: attribute assignment" % s.lineno)
        for m in self.methods.values():
            for s in ast.walk(m):
                if isinstance(s, (ast.Global, ast.Nonlocal, ast.Lambda, ast.Yield, ast.YieldFrom, ast.Await, ast.NamedExpr)):
                    raise TranslationError("EspiritCalib.%s, line %d: %s is outside the fragment" % (m.name, s.lineno, type(s).__name__))
        self.closure_defs = {}
        self.norm_given = False
        self.norm_layout = None
        self.check_app()

    # ---- other files ------------------------------------------------------------------------
    @staticmethod
    def find_class(tree, name, fname):
        cs = [c for c in tree.body if isinstance(c, ast.ClassDef) and c.name == name]
        if len(cs) != 1:
            raise TranslationError("class %s not found exactly once in %s" % (name, fname))
        return cs[0]

    @staticmethod
    def find_method(c, name):
        ms = [m for m in c.body if isinstance(m, ast.FunctionDef) and m.name == name]
        if len(ms) != 1 or ms[0].decorator_list:
            raise TranslationError("%s.%s not found exactly once / decorated" % (c.name, name))
        return ms[0]

    def pm_signature(self):
        """PowerMethod.__init__(self, A, x, norm_func=None, max_iter=30): names and defaults, read from alg.py"""
        c = self.find_class(self.alg_tree, "PowerMethod", "alg.py")
        f = self.find_method(c, "__init__")
        a = f.args
        if a.vararg or a.kwarg or a.kwonlyargs or a.posonlyargs:
            raise TranslationError("PowerMethod.__init__: signature not understood")
        names = [x.arg for x in a.args][1:]
        if names != ["A", "x", "norm_func", "max_iter"]:
            raise TranslationError("PowerMethod.__init__ takes %s; gen_pm_init of Gen_alg.v is applied to (A, x, norm_func, max_iter)" % names)
        defaults = [None] * (len(names) - len(a.defaults)) + list(a.defaults)
        return list(zip(names, defaults))

    def app_init_params(self):
        c = self.find_class(self.app_tree, "App", "app.py")
        f = self.find_method(c, "__init__")
        a = f.args
        if a.vararg or a.kwarg or a.kwonlyargs or a.posonlyargs:
            raise TranslationError("App.__init__: signature not understood")
        return [x.arg for x in a.args][1:]

    def check_app(self):
        """App.__init__ stores the alg; App.run is `while not self.alg.done(): ... self.alg.update() ...; return self._output()`"""
        c = self.find_class(self.app_tree, "App", "app.py")
        init = self.find_method(c, "__init__")
        stores = [flat(s) for s in ast.walk(init) if isinstance(s, (ast.Assign, ast.AugAssign)) and "self.alg" in
                  [flat(t) for t in (s.targets if isinstance(s, ast.Assign) else [s.target])]]
        if stores != ["self.alg = alg"] or flat(nodoc(init.body)[0]) != "self.alg = alg":
            raise TranslationError("App.__init__ no longer starts with `self.alg = alg` (%s)" % stores)
        run = self.find_method(c, "run")
        loops = [s for s in run.body if isinstance(s, ast.While)]
        if len(loops) != 1 or flat(loops[0].test) != "not self.alg.done()" or loops[0].orelse:
            raise TranslationError("App.run is no longer a single `while not self.alg.done()` loop")
        upd = [s for s in ast.walk(loops[0]) if isinstance(s, ast.Call) and flat(s.func) == "self.alg.update"]
        brk = [s for s in ast.walk(loops[0]) if isinstance(s, (ast.Break, ast.Continue, ast.Return))]
        direct = [s for s in loops[0].body if isinstance(s, ast.Expr) and isinstance(s.value, ast.Call) and flat(s.value.func) == "self.alg.update"]
        if len(upd) != 1 or len(direct) != 1 or brk:
            raise TranslationError("App.run: the loop body no longer calls self.alg.update() exactly once per pass")
        if not (isinstance(run.body[-1], ast.Return) and run.body[-1].value is not None and flat(run.body[-1].value) == "self._output()"):
            raise TranslationError("App.run no longer ends in `return self._output()`")

    # ---- signature --------------------------------------------------------------------------
    def signature(self):
        a = self.methods["__init__"].args
        if a.vararg or a.kwarg or a.kwonlyargs or a.posonlyargs or not a.args or a.args[0].arg != "self":
            raise TranslationError("EspiritCalib.__init__: signature not understood")
        names = [x.arg for x in a.args][1:]
        if names != PARAMS:
            raise TranslationError("EspiritCalib.__init__ takes %s; the model's __init__ takes %s" % (names, PARAMS))
        defaults = [None] * (len(names) - len(a.defaults)) + list(a.defaults)
        out = []
        for nm, d in zip(names, defaults):
            if d is None:
                out.append((nm, "DRequired"))
            elif isinstance(d, ast.Constant) and isinstance(d.value, bool):
                out.append((nm, "DBool %s" % ("true" if d.value else "false")))
            elif isinstance(d, ast.Constant) and isinstance(d.value, int):
                out.append((nm, "DInt %s" % (d.value if d.value >= 0 else "(%d)" % d.value)))
            elif isinstance(d, ast.Constant) and isinstance(d.value, float):
                out.append((nm, 'DFloat "%s"' % repr(d.value)))
            elif isinstance(d, (ast.Attribute, ast.Name)) and re.fullmatch(r"[A-Za-z_][A-Za-z0-9_.]*", flat(d)):
                out.append((nm, 'DName "%s"' % flat(d)))
            else:
                raise TranslationError("EspiritCalib.__init__, line %d: default of `%s` not understood: `%s`" % (d.lineno, nm, flat(d)))
        return out

    # ---- closures ---------------------------------------------------------------------------
    def closure(self, outer, node, role):
        """translate the nested function `node` in the role 'forward' (PowerMethod's A) or 'normalize' (norm_func);
        -> (definition text, captures [(kind, python name)])"""
        a = node.args
        if a.vararg or a.kwarg or a.kwonlyargs or a.posonlyargs or a.defaults or len(a.args) != 1:
            raise TranslationError("EspiritCalib.__init__, line %d: the function `%s` does not take exactly one argument" % (node.lineno, node.name))
        arg = a.args[0].arg
        fn = Fn(self, "EspiritCalib.__init__.%s" % node.name, counter={})
        fn.closure_role = role
        fn.param_vals = {}
        stored = {arg}
        for s in ast.walk(node):
            if isinstance(s, ast.Name) and isinstance(s.ctx, (ast.Store, ast.Del)):
                stored.add(s.id)
            if isinstance(s, ast.FunctionDef) and s is not node:
                raise TranslationError("EspiritCalib.__init__, line %d: function nested in `%s`" % (s.lineno, node.name))
        caps = []
        for s in ast.walk(node):
            if isinstance(s, ast.Name) and isinstance(s.ctx, ast.Load) and s.id not in stored and s.id in outer.locals and s.id not in fn.locals:
                v = outer.locals[s.id]
                if isinstance(v, Marker):
                    fn.locals[s.id] = v
                elif isinstance(v, Vox) and v.buf is not None and v.sel is None and isinstance(outer.store[v.buf], Mat):
                    nm = "AHA" if not [k for k, _ in caps if k == "m"] else "AHA%d" % (len(caps) + 1)
                    fn.locals[s.id] = Vox(v.layout, buf=fn.newbuf(Mat(nm), s.id))
                    caps.append(("m", s.id))
                elif isinstance(v, Vox):
                    fn.locals[s.id] = Poison("`%s` is a per-voxel array captured from __init__" % s.id)
                    caps.append(("v", s.id))
                else:
                    fn.locals[s.id] = Poison("`%s`, captured from __init__, is not a per-voxel array (the generated function cannot depend on it)" % s.id)
        fn.locals[arg] = Vox(("Vr", "C", "1"), buf=fn.newbuf(Lst("c", "x"), arg))
        lines = fn.run(nodoc(node.body))
        res = fn.result
        c = fn.content(res, node)
        if role == "forward":
            if not (res.layout == ("Vr", "C", "1") and isinstance(c, Lst) and c.elem == "c"):
                raise TranslationError("EspiritCalib.__init__, line %d: `%s` (PowerMethod's A) does not return a complex array shaped like its argument "
                                       "(layout %s)" % (node.lineno, node.name, res.layout))
            binders = "".join(" (%s : list (list %s))" % ("AHA" if i == 0 else "AHA%d" % (i + 1), CT) for i, (k, _) in enumerate(caps) if k == "m")
            text = "(* %s  (mri/app.py line %d): the function handed to PowerMethod as A *)\n" % (node.name, node.lineno)
            text += "Definition gen_espirit_forward {E : EOps}%s (x : list %s) : list %s :=\n  %s." % (binders, CT, CT, "\n  ".join(lines))
        else:
            if not (ncoil(res.layout) == 0 and isinstance(c, Scal) and c.elem == "r"):
                raise TranslationError("EspiritCalib.__init__, line %d: `%s` (PowerMethod's norm_func) does not return one real number per voxel "
                                       "(layout %s)" % (node.lineno, node.name, res.layout))
            # y / self.max_eig in PowerMethod._update: (voxels.., nc, 1) / layout of this result must divide every coil entry by the voxel's scalar
            chk = Fn(self, "EspiritCalib.__init__.%s" % node.name)
            if chk.broadcast(("Vr", "C", "1"), res.layout, node) != ("Vr", "C", "1"):
                raise TranslationError("EspiritCalib.__init__, line %d: the result of `%s` (layout %s) does not broadcast against the iterate"
                                       % (node.lineno, node.name, res.layout))
            self.norm_layout = res.layout
            text = "(* %s  (mri/app.py line %d): the function handed to PowerMethod as norm_func *)\n" % (node.name, node.lineno)
            text += "Definition gen_espirit_normalize {E : EOps} (x : list %s) : E :=\n  %s." % (CT, "\n  ".join(lines))
        self.closure_defs[role] = text
        return text, caps

    # ---- the two methods --------------------------------------------------------------------
    def translate_init(self):
        f = self.methods["__init__"]
        fn = Fn(self, "EspiritCalib.__init__")
        fn.closure_role = None
        crop, oe = PReal("crop"), PBool("output_eigenvalue")
        fn.param_vals = {"crop": crop, "output_eigenvalue": oe}
        fn.locals = {"ksp": GArr("ksp", ("C", "W")), "calib_width": PInt("calib_width"), "thresh": PReal("thresh"),
                     "kernel_width": PInt("kernel_width"), "crop": crop, "max_iter": PInt("max_iter"), "device": DEV,
                     "output_eigenvalue": oe, "show_pbar": PBool("show_pbar")}
        return fn.run(nodoc(f.body))

    def translate_output(self):
        f = self.methods["_output"]
        if [a.arg for a in f.args.args] != ["self"] or f.args.vararg or f.args.kwarg or f.args.kwonlyargs:
            raise TranslationError("EspiritCalib._output takes arguments")
        fn = Fn(self, "EspiritCalib._output")
        fn.closure_role = None
        fn.param_vals = {}
        fn.attrs = {"device": DEV, "crop": PReal("(ec_crop st)"), "output_eigenvalue": PBool("(ec_output_eigenvalue st)"),
                    "mps": Vox(("Vr", "C", "1"), buf=fn.newbuf(Lst("c", "(pm_x (ec_alg st))"), "mps")), "alg": AlgObj()}
        if self.norm_given and self.norm_layout is not None:
            fn.attrs["alg.max_eig"] = Vox(self.norm_layout, buf=fn.newbuf(Scal("r", "(pm_max_eig (ec_alg st))"), "max_eig"))
        else:       # norm_func None: max_eig is a Python float (`.item()`)
            fn.attrs["alg.max_eig"] = PReal("(pm_max_eig (ec_alg st))")
        return fn.run(nodoc(f.body))


# ---------------------------------------------------------------------------------------------
# rendering
# ---------------------------------------------------------------------------------------------
HEADER = """(* Gen_espirit.v -- GENERATED by tools/translate_espirit.py from sigpy/mri/app.py (sha256 %s; class EspiritCalib),
   the signature of PowerMethod.__init__ in sigpy/alg.py (sha256 %s) and App.__init__ / App.run of sigpy/app.py (sha256 %s).
   Do not edit.  EspiritCalib at ONE voxel, as written in the source, over the operations of model/Espirit.v (EOps) and
   model/EspiritCalib.v (CalibOps: array-level data movement and the SVD / IFFT oracles, no laws), and its agreement with
   the hand models (each lemma: unfolding, case analysis on the tests that occur, reflexivity).
   PowerMethod.__init__ / _update are NOT regenerated here: gen_pm_init / gen_pm__update of gen/Gen_alg.v (generated from
   alg.py by tools/translate_alg.py) are applied to the per-voxel operations [VIP O] and to the two closures below.
   Conventions: every Python assignment is a `let` (comment: source line); an array is its value at the voxel (a scalar, a
   coil vector = list, a matrix = list of rows), its axis layout is tracked by the translator; `.T`, `[0]` on a singleton
   axis, expand_dims, swapaxes, to_device, `with device:` carry no value; see notes/translate_espirit.md. *)
From Coq Require Import ZArith List Bool String.
From SV Require Import model.Alg model.Espirit model.EspiritCalib gen.Gen_alg.
Import ListNotations.
Local Open Scope Z_scope.

(* case analysis on every test that occurs (innermost first), then computation *)
Ltac tie_case :=
  match goal with
  | |- context [match ?c with _ => _ end] =>
      lazymatch c with
      | context [match _ with _ => _ end] => fail
      | _ => destruct c
      end
  end.
Ltac tie := cbv beta iota zeta; repeat (tie_case; cbv beta iota zeta); reflexivity.
Ltac proj := cbn [ec_crop ec_output_eigenvalue ec_AHA ec_alg pm_x pm_max_eig pm_iter pm_max_iter].

"""

INIT_BINDERS = ("(ksp : Arr O) (calib_width : Z) (thresh : E) (kernel_width : Z) (crop : E)\n"
                "    (max_iter : Z) (output_eigenvalue : bool) (show_pbar : bool) (inf : E)")
INIT_ARGS = "ksp calib_width thresh kernel_width crop max_iter output_eigenvalue"
HAND_INIT_UNFOLD = ("calib_init, aha_voxel, aha_scale, ones_voxel, calib_kernels, kept_rows, kernel_image, calib_matrix, calib_region, gram, "
                    "num_coils, img_ndim")
GEN_UPD_UNFOLD = "gen_espirit_update, gen_pm__update, gen_espirit_forward%s"
HAND_STEP_UNFOLD = "power_step, norm, norm2, cabs2"


def translate_sources(mri_src, alg_src, app_src):
    tr = Translator(mri_src, alg_src, app_src)
    sig = tr.signature()
    init_lines = tr.translate_init()                 # also translates the two closures
    out_lines = tr.translate_output()
    sha = tuple(hashlib.sha256(s.encode()).hexdigest() for s in (mri_src, alg_src, app_src))
    o = [HEADER % sha]
    f_init, f_out = tr.methods["__init__"], tr.methods["_output"]
    # signature
    o.append("(* EspiritCalib.__init__  (mri/app.py line %d): parameter names, order, defaults *)" % f_init.lineno)
    o.append("Local Open Scope string_scope.")
    o.append("Definition gen_espirit_signature : list (string * ec_default) :=\n  [ %s ]." % ";\n    ".join('("%s", %s)' % p for p in sig))
    o.append("Local Close Scope string_scope.")
    o.append("Lemma gen_espirit_signature_ok : gen_espirit_signature = espirit_signature.\nProof. reflexivity. Qed.\n")
    # closures
    o.append(tr.closure_defs["forward"])
    o.append("Lemma gen_espirit_forward_ok : forall (E : EOps) (AHA : list (list %s)) (x : list %s),\n"
             "  gen_espirit_forward AHA x = matvec AHA x.\nProof. intros. unfold gen_espirit_forward. tie. Qed.\n" % (CT, CT))
    nf = "None"
    if tr.norm_given:
        nf = "(Some gen_espirit_normalize)"
        o.append(tr.closure_defs["normalize"])
        o.append("Lemma gen_espirit_normalize_ok : forall (E : EOps) (x : list %s),\n  gen_espirit_normalize x = norm x.\n"
                 "Proof. intros. unfold gen_espirit_normalize, norm, norm2, cabs2. tie. Qed.\n" % CT)
    gen_upd = GEN_UPD_UNFOLD % (", gen_espirit_normalize" if tr.norm_given else "")
    # __init__
    o.append("(* EspiritCalib.__init__  (mri/app.py line %d); [inf] is np.inf (PowerMethod.__init__: self.max_eig = np.inf) *)" % f_init.lineno)
    o.append("Definition gen_espirit_init {E : EOps} (O : CalibOps E) %s : calib_state O :=\n  %s." % (INIT_BINDERS, "\n  ".join(init_lines)))
    o.append("Lemma gen_espirit_init_ok : forall (E : EOps) (O : CalibOps E) %s,\n"
             "  gen_espirit_init O %s show_pbar inf\n  = calib_init O %s inf.\n"
             "Proof. intros. unfold gen_espirit_init, gen_pm_init, gen_espirit_forward, %s. tie. Qed.\n"
             % (INIT_BINDERS, INIT_ARGS, INIT_ARGS, HAND_INIT_UNFOLD))
    # the update as configured by the PowerMethod(...) call
    o.append("(* self.alg._update() with the constructor constants __init__ hands to PowerMethod: A = forward, norm_func = %s *)"
             % ("normalize" if tr.norm_given else "None"))
    o.append("Definition gen_espirit_update {E : EOps} (O : CalibOps E) (st : calib_state O) : calib_state O :=\n"
             "  mkCalib (ec_crop st) (ec_output_eigenvalue st) (ec_AHA st)\n"
             "    (gen_pm__update (VIP O) (gen_espirit_forward (ec_AHA st)) %s (ec_alg st))." % nf)
    o.append("Lemma gen_espirit_update_ok : forall (E : EOps) (O : CalibOps E) (st : calib_state O),\n"
             "  gen_espirit_update O st = calib_update O st.\n"
             "Proof. intros. destruct st as [crop oe AHA [x eig it mi]]. unfold %s, calib_update, %s.\n  proj. tie. Qed.\n" % (gen_upd, HAND_STEP_UNFOLD))
    o.append("(* the hand model's iteration unrolls into generated updates *)")
    o.append("Lemma gen_espirit_power_iter_ok : forall (E : EOps) (O : CalibOps E) (st : calib_state O) (k : nat),\n"
             "  power_iter (S k) (ec_AHA st) (pm_x (ec_alg st)) (pm_max_eig (ec_alg st))\n"
             "  = let st' := gen_espirit_update O st in power_iter k (ec_AHA st') (pm_x (ec_alg st')) (pm_max_eig (ec_alg st')).\n"
             "Proof. intros. destruct st as [crop oe AHA [x eig it mi]]. unfold %s.\n"
             "  cbn [ec_crop ec_output_eigenvalue ec_AHA ec_alg pm_x pm_max_eig pm_iter pm_max_iter power_iter]. unfold %s. tie. Qed.\n"
             % (gen_upd, HAND_STEP_UNFOLD))
    # _output
    o.append("(* EspiritCalib._output  (mri/app.py line %d): (maps, Some eigenvalue) / (maps, None) *)" % f_out.lineno)
    o.append("Definition gen_espirit__output {E : EOps} (O : CalibOps E) (st : calib_state O) : list %s * option E :=\n  %s."
             % (CT, "\n  ".join(out_lines)))
    o.append("Lemma gen_espirit__output_ok : forall (E : EOps) (O : CalibOps E) (st : calib_state O),\n"
             "  gen_espirit__output O st = calib_output O st.\n"
             "Proof. intros. destruct st as [crop oe AHA [x eig it mi]].\n"
             "  unfold gen_espirit__output, calib_output, output, phase_ref, crop_factor, hd.\n"
             "  cbn [ec_crop ec_output_eigenvalue ec_AHA ec_alg pm_x pm_max_eig pm_iter pm_max_iter]. tie. Qed.\n")
    # the whole voxel
    o.append("(* the object of the theorems, espirit_voxel fed with what __init__ builds, consists of the generated pieces *)")
    o.append("Lemma gen_espirit_pipeline_ok : forall (E : EOps) (O : CalibOps E) %s,\n"
             "  calib_voxel O ksp calib_width thresh kernel_width crop max_iter inf\n"
             "  = let st := gen_espirit_init O %s show_pbar inf in\n"
             "    espirit_voxel (Z.to_nat (pm_max_iter (ec_alg st))) (ec_AHA st) (pm_x (ec_alg st)) (pm_max_eig (ec_alg st)) (ec_crop st).\n"
             "Proof. intros. unfold calib_voxel, gen_espirit_init, gen_pm_init, gen_espirit_forward, %s.\n"
             "  cbv beta iota zeta delta [ec_crop ec_output_eigenvalue ec_AHA ec_alg pm_x pm_max_eig pm_iter pm_max_iter]. tie. Qed."
             % (INIT_BINDERS, INIT_ARGS, HAND_INIT_UNFOLD.replace("calib_init, ", "")))
    return "\n".join(o) + "\n"


def read_sources(repo, mri_path=None):
    mri = open(mri_path or os.path.join(repo, "sigpy", "mri", "app.py")).read()
    alg = open(os.path.join(repo, "sigpy", "alg.py")).read()
    app = open(os.path.join(repo, "sigpy", "app.py")).read()
    return mri, alg, app


def translate_espirit(repo, mri_path=None):
    return translate_sources(*read_sources(repo, mri_path))


COVERED = ("EspiritCalib.__init__ incl. forward / normalize, PowerMethod set-up, _output; PowerMethod._update via Gen_alg.v")


def failing_lemma(gen_text, log):
    m = re.search(r'line (\d+), characters', log)
    if not m:
        return None
    lines = gen_text.split("\n")
    for i in range(min(int(m.group(1)), len(lines)) - 1, -1, -1):
        mm = re.match(r"\s*(?:Lemma|Definition)\s+([A-Za-z0-9_']+)", lines[i])
        if mm:
            return mm.group(1)
    return None


def tie(ctx):
    """The two obligations props/C17.py adds: regenerate gen/Gen_espirit.v (and gen/Gen_alg.v, whose gen_pm_* it applies) from
    the tree under test, then compile it (the `_ok` lemmas ARE the tie).  Returns None when both hold, else
    {"theorem": <translator or lemma>, "log": ...} for the no-failing-input report."""
    from tools import translate_all
    from vlib import core
    tr_err = translate_all.run(strict=False, only=["alg", "espirit"])
    ctx.source_hash("sigpy/mri/app.py", "sigpy/alg.py", "sigpy/app.py", "sigpy/util.py")
    ctx.obligation("translate:sigpy/mri/app.py (%s)" % COVERED, not tr_err)
    name = "tie:generated EspiritCalib == hand model (Gen_espirit.v lemmas gen_espirit_*_ok; Gen_alg.v gen_pm_*)"
    if tr_err:
        ctx.notes.append("translator failed closed: %s" % tr_err)
        ctx.obligation(name, False)
        return {"theorem": "translate:sigpy/mri/app.py", "log": str(tr_err)}
    ctx.checker_cmds.append("cd %s && make gen/Gen_espirit.vo" % core.COQ)
    ok, log = core.coq_make(["gen/Gen_espirit.vo"], timeout=900)
    ctx.obligation(name, ok)
    if ok:
        return None
    which = []
    for m in re.finditer(r'File "[^"]*?(Gen_espirit|Gen_alg)\.v", line (\d+)', log):
        try:
            lem = failing_lemma(open(os.path.join(core.COQ, "gen", m.group(1) + ".v")).read(), "line %s, characters" % m.group(2))
        except OSError:
            lem = None
        w = "%s (gen/%s.v)" % (lem or "?", m.group(1))
        if w not in which:
            which.append(w)
    ctx.notes.append("generated EspiritCalib no longer equals the hand model: %s: %s" % (", ".join(which), log[-1200:]))
    return {"theorem": "tie:" + (", ".join(which) or "gen/Gen_espirit.v"), "log": log[-2500:]}


if __name__ == "__main__":
    args = [a for a in sys.argv[1:] if not a.startswith("--")]
    sys.stdout.write(translate_espirit(args[0] if args else "/repo"))
