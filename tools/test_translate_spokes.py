#!/usr/bin/env python3
"""Self-test of tools/translate_spokes.py: textual defect mutations of spokes_grad must fail closed or break
gen_spokes_grad_ok; meaning-preserving edits must pass.  Usage: /venv/bin/python tools/test_translate_spokes.py"""
import os, subprocess, sys, tempfile
HERE = os.path.dirname(os.path.abspath(__file__)); sys.path.insert(0, os.path.dirname(HERE))
from tools import translate_spokes as ts
COQ = os.path.join(os.path.dirname(HERE), "coq")
SRC = open(os.path.join(os.environ.get("SIGPY_REPO", "/repo"), ts.SRC_REL)).read()

DEFECTS = [
    ("area = tbw / (sl_thick / 10) / 4257", "area = tbw / (sl_thick / 10) / 4258"),
    ("area = tbw / (sl_thick / 10) / 4257", "area = tbw / sl_thick / 10 / 4257"),
    ("[subgz, nramp] = min_trap_grad(area, gmax, dgdtmax, gts)", "[subgz, nramp] = trap_grad(area, gmax, dgdtmax, gts)"),
    ("[subgz, nramp] = min_trap_grad(area, gmax, dgdtmax, gts)", "[subgz, nramp] = min_trap_grad(area, gmax, gts, dgdtmax)"),
    ("gyarea = np.diff(np.concatenate((k[:, 1], np.zeros(1)))) / 4257", "gyarea = np.diff(np.concatenate((k[:, 0], np.zeros(1)))) / 4257"),
    ("gxarea = np.diff(np.concatenate((k[:, 0], np.zeros(1)))) / 4257", "gxarea = np.diff(np.concatenate((np.zeros(1), k[:, 0]))) / 4257"),
    ("gxarea = np.diff(np.concatenate((k[:, 0], np.zeros(1)))) / 4257", "gxarea = np.diff(np.concatenate((k[:, 0], np.zeros(1)))) / 425.7"),
    ("gz_sign = -1", "gz_sign = 1"),
    ("gz_sign *= -1", "gz_sign *= 1"),
    ("if np.absolute(gxarea[ii]) > 0:", "if gxarea[ii] > 0:"),
    ("trap_grad(abs(gxarea[ii]), gmax, dgdtmax, gts)", "trap_grad(gxarea[ii], gmax, dgdtmax, gts)"),
    ("trap_grad(abs(gyarea[ii]), gmax, dgdtmax, gts)", "trap_grad(abs(gxarea[ii]), gmax, dgdtmax, gts)"),
    ("gyblip = int(np.sign(gyarea[ii])) * gblip", "gyblip = int(np.sign(gxarea[ii])) * gblip"),
    ("gyblip = int(np.sign(gyarea[ii])) * gblip", "gyblip = gblip"),
    ("gx = gx[: len(gx) - len(gxblip.T)]", "gx = gx[: len(gx) - len(gxblip)]"),
    ("gy = gy[: len(gy) - len(gyblip.T)]", "gy = gy[: len(gx) - len(gyblip.T)]"),
    ("gy.extend([0] * np.size(subgz))", "gy.extend([0] * (np.size(subgz) - 1))"),
    ("trap_grad(gts * np.sum(subgz) / 2, gmax, dgdtmax, gts)", "trap_grad(gts * np.sum(subgz), gmax, dgdtmax, gts)"),
    ("trap_grad(gts * np.sum(subgz) / 2, gmax, dgdtmax, gts)", "trap_grad(gts * np.sum(subgz) / 2, gmax, dgdtmax / 2, gts)"),
    ("gzref = -gref", "gzref = gref"),
    ("gx.extend([0] * np.size(gzref))", "gx.extend([0] * np.size(subgz))"),
    ("    for ii in range(n_spokes):", "    for ii in range(n_spokes - 1):"),
    ("        gz.extend(np.squeeze(gz_sign * subgz).tolist())  # alt sign of gz", "        gz.extend(np.squeeze(subgz).tolist())"),
    ("    g = np.vstack((np.array(gx), np.array(gy), np.array(gz)))", "    g = np.vstack((np.array(gy), np.array(gx), np.array(gz)))"),
]
HARMLESS = [
    ("    # combine gradient waveforms", "    # put the three axes together"),
    ("    n_spokes = k.shape[0]\n", "    n_spokes = k.shape[0]\n\n\n"),
    ("Spokes gradient designer.", "Spokes gradient designer (documented)."),
]


def outcome(src):
    try:
        text = ts.translate_source(src)
    except ts.TranslationError as e:
        return "fail-closed", str(e)
    d = tempfile.mkdtemp(prefix="tsp_")
    os.makedirs(os.path.join(d, "gen"))
    p = os.path.join(d, "gen", "Gen_spokes_t.v")
    open(p, "w").write(text)
    r = subprocess.run(["coqc", "-Q", COQ, "SV", "-w", "-all", p], stdout=subprocess.PIPE, stderr=subprocess.STDOUT, text=True, timeout=300)
    subprocess.run(["rm", "-rf", d])
    return ("ok" if r.returncode == 0 else "lemma"), r.stdout[-300:]


def main():
    bad = 0
    assert outcome(SRC)[0] == "ok", outcome(SRC)
    n_fc = n_lem = 0
    for old, new in DEFECTS:
        assert SRC.count(old) == 1, old
        o, log = outcome(SRC.replace(old, new))
        if o == "ok":
            bad += 1; print("MISSED defect:", new)
        n_fc += o == "fail-closed"; n_lem += o == "lemma"
    for old, new in HARMLESS:
        assert SRC.count(old) >= 1, old
        o, log = outcome(SRC.replace(old, new, 1))
        if o != "ok":
            bad += 1; print("harmless edit rejected:", new, o, log)
    print("defects caught %d/%d (fail closed %d, lemma %d); harmless accepted %d/%d" %
          (len(DEFECTS) - bad, len(DEFECTS), n_fc, n_lem, len(HARMLESS), len(HARMLESS)))
    return 1 if bad else 0


if __name__ == "__main__":
    sys.exit(main())
