#!/usr/bin/env python3
"""Fail-closed translator of the `_adjoint_linop` / `_normal_linop` TABLE of sigpy/linop.py.

For every operator class whose method body is a single `return <Ctor>(self.attr, ..., kw=self.attr)`
(or `return self`, list comprehensions over `.H`, `[-s for s in self.shift]`, `not self.flag`)
it emits, from the source text,
    Definition gen_adj_<Class> <model args> : linop := <translated expression>.
    Lemma gen_adj_<Class>_ok : forall args, gen_adj_<Class> args = adj (<Class> args).   (by computation)
so the hand model `adj` / `normal` of coq/model/Linop.v is re-checked against what linop.py says on
every run: a swapped argument, a changed callee or a dropped keyword breaks the lemma.
Classes with multi-statement bodies (Transpose, MatMul, RightMatMul, Multiply, NUFFT's normal) are tied
by the object-graph correspondence only; if a class of the simple set stops matching the simple
shape the translation FAILS CLOSED.
"""
import ast
import hashlib

# model constructor arguments: (model name, Coq type, python attribute of self holding the value)
L, OL, B, Z, OZ, A, LO = "list Z", "option (list Z)", "bool", "Z", "option Z", "aref", "list linop"
MODEL = {
    "Identity": [("shape", L, "ishape")],
    "Conj": [("A", "linop", "A")],
    "Add": [("linops", LO, "linops")],
    "Compose": [("linops", LO, "linops")],
    "Hstack": [("linops", LO, "linops"), ("axis", OZ, "axis")],
    "Vstack": [("linops", LO, "linops"), ("axis", OZ, "axis")],
    "Diag": [("linops", LO, "linops"), ("oaxis", OZ, "oaxis"), ("iaxis", OZ, "iaxis")],
    "Reshape": [("oshape", L, "oshape"), ("ishape", L, "ishape")],
    "FFT": [("shape", L, "ishape"), ("axes", OL, "axes"), ("center", B, "center")],
    "IFFT": [("shape", L, "ishape"), ("axes", OL, "axes"), ("center", B, "center")],
    "Interpolate": [("ishape", L, "ishape"), ("coord", A, "coord"), ("kernel", Z, "kernel"), ("width", Z, "width"), ("param", Z, "param")],
    "Gridding": [("oshape", L, "oshape"), ("coord", A, "coord"), ("kernel", Z, "kernel"), ("width", Z, "width"), ("param", Z, "param")],
    "Resize": [("oshape", L, "oshape"), ("ishape", L, "ishape"), ("ishift", OL, "ishift"), ("oshift", OL, "oshift")],
    "Flip": [("shape", L, "ishape"), ("axes", OL, "axes")],
    "Downsample": [("ishape", L, "ishape"), ("factors", L, "factors"), ("shift", L, "shift")],
    "Upsample": [("oshape", L, "oshape"), ("factors", L, "factors"), ("shift", L, "shift")],
    "Circshift": [("shape", L, "ishape"), ("shift", L, "shift"), ("axes", OL, "axes")],
    "Wavelet": [("ishape", L, "ishape"), ("axes", OL, "axes"), ("wave_name", Z, "wave_name"), ("level", OZ, "level"), ("wshape", L, "oshape")],
    "InverseWavelet": [("oshape", L, "oshape"), ("axes", OL, "axes"), ("wave_name", Z, "wave_name"), ("level", OZ, "level"), ("wshape", L, "ishape")],
    # __init__ stores the NORMALISED axes: self.axes = tuple(i % len(shape) for i in axes)
    "Sum": [("ishape", L, "ishape"), ("axes", L, "axes", "(norm_axes_list axes (lenZ ishape))")],
    "Tile": [("oshape", L, "oshape"), ("axes", L, "axes", "(norm_axes_list axes (lenZ oshape))")],
    "ArrayToBlocks": [("ishape", L, "ishape"), ("blk_shape", L, "blk_shape"), ("blk_strides", L, "blk_strides")],
    "BlocksToArray": [("oshape", L, "oshape"), ("blk_shape", L, "blk_shape"), ("blk_strides", L, "blk_strides")],
    "NUFFT": [("ishape", L, "ishape"), ("coord", A, "coord"), ("oversamp", Z, "oversamp"), ("width", Z, "width"), ("toeplitz", B, "toeplitz")],
    "NUFFTAdjoint": [("oshape", L, "oshape"), ("coord", A, "coord"), ("oversamp", Z, "oversamp"), ("width", Z, "width")],
    "ConvolveData": [("data_shape", L, "ishape"), ("filt", A, "filt"), ("mode", B, "mode"), ("strides", OL, "strides"), ("multi_channel", B, "multi_channel")],
    "ConvolveDataAdjoint": [("data_shape", L, "oshape"), ("filt", A, "filt"), ("mode", B, "mode"), ("strides", OL, "strides"), ("multi_channel", B, "multi_channel")],
    "ConvolveFilter": [("filt_shape", L, "ishape"), ("data", A, "data"), ("mode", B, "mode"), ("strides", OL, "strides"), ("multi_channel", B, "multi_channel")],
    "ConvolveFilterAdjoint": [("filt_shape", L, "oshape"), ("data", A, "data"), ("mode", B, "mode"), ("strides", OL, "strides"), ("multi_channel", B, "multi_channel")],
    "Slice": [("ishape", L, "ishape"), ("idx", "list sl", "idx")],
    "Embed": [("oshape", L, "oshape"), ("idx", "list sl", "idx")],
}
# classes that have ONE shape (ishape == oshape): self.oshape also denotes the model's shape argument
SQUARE = {"Identity", "FFT", "IFFT", "Flip", "Circshift"}
ADJ_SIMPLE = [c for c in MODEL]          # every class of MODEL must have a simple _adjoint_linop
NORMAL_IDENTITY = ["Reshape", "FFT", "IFFT", "Circshift"]   # `return Identity(self.ishape)`; Transpose likewise but not in MODEL


class TranslationError(Exception):
    pass


def class_defs(tree):
    return {c.name: c for c in tree.body if isinstance(c, ast.ClassDef)}


def method(cls, name):
    for m in cls.body:
        if isinstance(m, ast.FunctionDef) and m.name == name:
            return m
    return None


def init_params(cls):
    m = method(cls, "__init__")
    args = [a.arg for a in m.args.args[1:]]
    ndef = len(m.args.defaults)
    defaults = dict(zip(args[len(args) - ndef:], m.args.defaults))
    return args, defaults


def single_return(fn):
    body = [s for s in fn.body if not (isinstance(s, ast.Expr) and isinstance(s.value, ast.Constant))]
    if len(body) != 1 or not isinstance(body[0], ast.Return):
        raise TranslationError("%s: body is not a single return" % fn.name)
    return body[0].value


class Tr:
    def __init__(self, classes, caller):
        self.classes = classes
        self.caller = caller
        self.env = {}
        for ent in MODEL[caller]:
            self.env[ent[2]] = ent[3] if len(ent) > 3 else ent[0]
        if caller in SQUARE:
            self.env["oshape"] = self.env["ishape"]

    def attr(self, node):
        if isinstance(node, ast.Attribute) and isinstance(node.value, ast.Name) and node.value.id == "self":
            if node.attr not in self.env:
                # Wavelet-type classes: the other shape is the oracle-provided wshape; anything else is unknown
                raise TranslationError("%s: self.%s is not a model argument" % (self.caller, node.attr))
            return self.env[node.attr]
        return None

    def expr(self, node, want=None):
        a = self.attr(node)
        if a is not None:
            return a
        if isinstance(node, ast.Name) and node.id == "self":
            return "(%s %s)" % (self.caller, " ".join(n for n, *_ in MODEL[self.caller]))
        if isinstance(node, ast.UnaryOp) and isinstance(node.op, ast.Not):
            return "(negb %s)" % self.expr(node.operand)
        if isinstance(node, ast.Constant) and isinstance(node.value, bool):
            return "true" if node.value else "false"
        if isinstance(node, ast.Attribute) and node.attr == "H":           # x.H
            return "(adj %s)" % self.expr(node.value)
        if isinstance(node, ast.ListComp) and len(node.generators) == 1 and not node.generators[0].ifs:
            g = node.generators[0]
            if not isinstance(g.target, ast.Name):
                raise TranslationError("comprehension target")
            v = g.target.id
            it = g.iter
            rev = False
            if isinstance(it, ast.Subscript) and isinstance(it.slice, ast.Slice) and it.slice.lower is None and it.slice.upper is None \
                    and isinstance(it.slice.step, ast.UnaryOp) and isinstance(it.slice.step.op, ast.USub) \
                    and isinstance(it.slice.step.operand, ast.Constant) and it.slice.step.operand.value == 1:
                rev, it = True, it.value
            src = self.expr(it)
            if rev:
                src = "(rev %s)" % src
            e = node.elt
            if isinstance(e, ast.Attribute) and e.attr == "H" and isinstance(e.value, ast.Name) and e.value.id == v:
                return "(map adj %s)" % src
            if isinstance(e, ast.UnaryOp) and isinstance(e.op, ast.USub) and isinstance(e.operand, ast.Name) and e.operand.id == v:
                return "(map Z.opp %s)" % src
            raise TranslationError("comprehension element " + ast.dump(e))
        if isinstance(node, ast.Call) and isinstance(node.func, ast.Name) and node.func.id in MODEL:
            return self.call(node)
        raise TranslationError("%s: expression %s" % (self.caller, ast.dump(node)[:160]))

    def call(self, node):
        callee = node.func.id
        params, defaults = init_params(self.classes[callee])
        given = {}
        for p, a in zip(params, node.args):
            given[p] = a
        for kw in node.keywords:
            if kw.arg is None or kw.arg in given or kw.arg not in params:
                raise TranslationError("%s: bad keyword in call of %s" % (self.caller, callee))
            given[kw.arg] = kw.value
        args = []
        for mname, mtype, mattr, *_ in MODEL[callee]:
            # python __init__ parameter that carries this model argument
            pname = {"shape": "shape", "wshape": None}.get(mname, mname)
            if mname == "A":
                pname = "A"
            if mname == "wshape":
                # coefficient shape of the partner transform = this operator's coefficient shape
                args.append(self.env["oshape"] if self.caller == "Wavelet" else self.env["ishape"])
                continue
            if pname not in params:
                raise TranslationError("%s.__init__ has no parameter %s" % (callee, pname))
            if pname in given:
                args.append(self.expr(given[pname]))
            elif pname in defaults:
                d = defaults[pname]
                if isinstance(d, ast.Constant) and d.value is None:
                    args.append("None")
                elif isinstance(d, ast.Constant) and isinstance(d.value, bool):
                    args.append("true" if d.value else "false")
                else:
                    raise TranslationError("%s: default of %s.%s not representable" % (self.caller, callee, pname))
            else:
                raise TranslationError("%s: call of %s misses %s" % (self.caller, callee, pname))
        ctor = "mkCompose" if callee == "Compose" else callee
        return "(%s %s)" % (ctor, " ".join(args))


HEADER = """(* Gen_linop_table.v — GENERATED by tools/translate_linop.py from sigpy/linop.py (sha256 %s). Do not edit.
   The adjoint / normal-operator table as written in the source, and its agreement with the hand model. *)
From Coq Require Import ZArith List Bool.
From SV Require Import lib.Scalar model.Block model.Linop.
Import ListNotations.
Local Open Scope Z_scope.

"""


def translate_table(repo):
    src = open(repo + "/sigpy/linop.py").read()
    sha = hashlib.sha256(src.encode()).hexdigest()
    classes = class_defs(ast.parse(src))
    out = [HEADER % sha]
    for c in ADJ_SIMPLE:
        if c not in classes:
            raise TranslationError("class %s missing" % c)
        m = method(classes[c], "_adjoint_linop")
        if m is None:
            raise TranslationError("%s has no _adjoint_linop" % c)
        e = Tr(classes, c).expr(single_return(m))
        binders = " ".join("(%s : %s)" % (n, t) for n, t, *_ in MODEL[c])
        names = " ".join(n for n, *_ in MODEL[c])
        out.append("Definition gen_adj_%s %s : linop := %s." % (c, binders, e))
        out.append("Lemma gen_adj_%s_ok : forall %s, gen_adj_%s %s = adj (%s %s).\n"
                   "Proof. intros. unfold gen_adj_%s. cbn [adj]. try rewrite map_rev. reflexivity. Qed.\n"
                   % (c, binders, c, names, c, names, c))
    for c in NORMAL_IDENTITY:
        m = method(classes[c], "_normal_linop")
        if m is None:
            raise TranslationError("%s lost its _normal_linop shortcut" % c)
        e = Tr(classes, c).expr(single_return(m))
        binders = " ".join("(%s : %s)" % (n, t) for n, t, *_ in MODEL[c])
        names = " ".join(n for n, *_ in MODEL[c])
        out.append("Definition gen_normal_%s %s : linop := %s." % (c, binders, e))
        out.append("Lemma gen_normal_%s_ok : forall %s, gen_normal_%s %s = normal (%s %s).\nProof. intros. reflexivity. Qed.\n"
                   % (c, binders, c, names, c, names))
    # classes that must NOT override _normal_linop (the model uses the default A.H * A for them)
    for c in MODEL:
        if c in NORMAL_IDENTITY or c in ("Identity", "ArrayToBlocks", "BlocksToArray", "NUFFT"):
            continue
        if method(classes[c], "_normal_linop") is not None:
            raise TranslationError("%s now overrides _normal_linop (model assumes the default)" % c)
    # the base class default
    base = method(classes["Linop"], "_normal_linop")
    r = single_return(base)
    if ast.unparse(r) != "self.H * self":
        raise TranslationError("Linop._normal_linop is no longer `self.H * self`")
    return "\n".join(out) + "\n"


if __name__ == "__main__":
    import sys
    sys.stdout.write(translate_table(sys.argv[1] if len(sys.argv) > 1 else "/repo"))
