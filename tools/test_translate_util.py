#!/usr/bin/env python3
"""Self-test of tools/translate_util.py: small textual mutations of a COPY of sigpy/util.py.

For every mutation the copy is translated; expected outcome: the translation FAILS CLOSED (TranslationError naming the
line) or the first `_ok` lemma that no longer compiles is named.  The unmodified source and the meaning-preserving edits
that keep the generated term must pass; meaning-preserving edits that change the generated TERM (or leave the accepted
fragment) are listed with the expectation "breaks" (accepted by the brief: the check then falls back to the
correspondence and the oracle).  Scratch copies: /verif/build/trutil_selftest/<name>/{sigpy/util.py,Gen_util.v}.

    /venv/bin/python tools/test_translate_util.py [repo] [--no-seeded]        exit 0 = everything as expected
"""
import concurrent.futures
import os
import shutil
import subprocess
import sys
import time

HERE = os.path.dirname(os.path.abspath(__file__))
sys.path.insert(0, os.path.dirname(HERE))
from tools import translate_util as T      # noqa: E402
from vlib import core                     # noqa: E402

SCRATCH = os.path.join(core.BUILD, "trutil_selftest")

ISHIFT = "ishift = [max(i // 2 - o // 2, 0) for i, o in zip(ishape1, oshape1)]"
OSHIFT = "oshift = [max(o // 2 - i // 2, 0) for i, o in zip(ishape1, oshape1)]"
ISLICE = "islice = tuple([slice(si, si + c) for si, c in zip(ishift, copy_shape)])"
OSLICE = "oslice = tuple([slice(so, so + c) for so, c in zip(oshift, copy_shape)])"
EARLY = "if ishape1 == oshape1 and ishift is None and oshift is None:"
SLC = "slc = tuple(slice(s, None, f) for s, f in zip(shift, factors))"
DEF_I = "    if ishift is None:\n        " + ISHIFT + "\n"
DEF_O = "    if oshift is None:\n        " + OSHIFT + "\n"

# (name, old text, new text, which occurrence (0-based; -1 = all), expectation)
#   "caught": a defect -- must fail closed or break a lemma;  "pass": meaning-preserving, must still be accepted;
#   "breaks": meaning-preserving but changes the generated term / leaves the fragment -- reported, and said so
MUTATIONS = [
    # ---- resize --------------------------------------------------------------------------------------------------
    ("rs_ishift_swapped", ISHIFT, "ishift = [max(o // 2 - i // 2, 0) for i, o in zip(ishape1, oshape1)]", 0, "caught"),
    ("rs_oshift_not_clamped", OSHIFT, "oshift = [o // 2 - i // 2 for i, o in zip(ishape1, oshape1)]", 0, "caught"),
    ("rs_shift_ceil_half", ISHIFT, "ishift = [max((i + 1) // 2 - (o + 1) // 2, 0) for i, o in zip(ishape1, oshape1)]", 0, "caught"),
    ("rs_shift_zip_swapped", ISHIFT, "ishift = [max(i // 2 - o // 2, 0) for i, o in zip(oshape1, ishape1)]", 0, "caught"),
    ("rs_copy_max", "min(i - si, o - so)", "max(i - si, o - so)", 0, "caught"),
    ("rs_copy_ignores_shifts", "min(i - si, o - so)", "min(i, o)", 0, "caught"),
    ("rs_copy_wrong_shift", "min(i - si, o - so)", "min(i - so, o - si)", 0, "caught"),
    ("rs_islice_one_longer", ISLICE, "islice = tuple([slice(si, si + c + 1) for si, c in zip(ishift, copy_shape)])", 0, "caught"),
    ("rs_islice_from_oshift", ISLICE, "islice = tuple([slice(si, si + c) for si, c in zip(oshift, copy_shape)])", 0, "caught"),
    ("rs_oslice_from_zero", OSLICE, "oslice = tuple([slice(0, 0 + c) for so, c in zip(oshift, copy_shape)])", 0, "caught"),
    ("rs_slices_swapped", "output[oslice] = input[islice]", "output[islice] = input[oslice]", 0, "caught"),
    ("rs_early_return_ignores_shifts", EARLY, "if ishape1 == oshape1:", 0, "caught"),
    ("rs_early_return_or", EARLY, "if ishape1 == oshape1 and ishift is None or oshift is None:", 0, "caught"),
    ("rs_early_return_one_shift", EARLY, "if ishape1 == oshape1 and ishift is None:", 0, "caught"),
    ("rs_no_final_reshape", "return output.reshape(oshape)", "return output", 0, "caught"),
    ("rs_input_not_reshaped", "    input = input.reshape(ishape1)\n", "", 0, "caught"),
    ("rs_zeros_unexpanded_shape", "xp.zeros(oshape1, dtype=input.dtype)", "xp.zeros(oshape, dtype=input.dtype)", 0, "caught"),
    ("rs_zeros_default_dtype", "xp.zeros(oshape1, dtype=input.dtype)", "xp.zeros(oshape1)", 0, "caught"),
    ("rs_ones", "xp.zeros(oshape1, dtype=input.dtype)", "xp.ones(oshape1, dtype=input.dtype)", 0, "caught"),
    ("rs_accumulate", "output[oslice] = input[islice]", "output[oslice] += input[islice]", 0, "caught"),
    # ---- _expand_shapes ------------------------------------------------------------------------------------------
    ("es_pad_on_the_right", "[1] * (max_ndim - len(shape)) + shape", "shape + [1] * (max_ndim - len(shape))", 0, "caught"),
    ("es_pad_with_zeros", "[1] * (max_ndim - len(shape)) + shape", "[0] * (max_ndim - len(shape)) + shape", 0, "caught"),
    ("es_min_ndim", "max_ndim = max(len(shape) for shape in shapes)", "max_ndim = min(len(shape) for shape in shapes)", 0, "caught"),
    ("es_pad_one_more", "(max_ndim - len(shape))", "(max_ndim - len(shape) + 1)", 0, "caught"),
    ("es_list_dropped", "shapes = [list(shape) for shape in shapes]", "shapes = [shape for shape in shapes]", 0, "caught"),
    # ---- _normalize_axes -----------------------------------------------------------------------------------------
    ("na_no_mod", "tuple(a % ndim for a in sorted(axes))", "tuple(a for a in sorted(axes))", 0, "caught"),
    ("na_abs_for_mod", "tuple(a % ndim for a in sorted(axes))", "tuple(abs(a) for a in sorted(axes))", 0, "caught"),
    ("na_mod_ndim_plus_1", "tuple(a % ndim for a in sorted(axes))", "tuple(a % (ndim + 1) for a in sorted(axes))", 0, "caught"),
    ("na_not_axes", "    if axes is None:\n        return tuple(range(ndim))", "    if not axes:\n        return tuple(range(ndim))", 0, "caught"),
    ("na_all_axes_short", "return tuple(range(ndim))", "return tuple(range(ndim - 1))", 0, "caught"),
    ("na_branches_swapped", "    if axes is None:\n        return tuple(range(ndim))", "    if axes is not None:\n        return tuple(range(ndim))", 0, "caught"),
    # ---- flip ----------------------------------------------------------------------------------------------------
    ("fl_no_reverse", "slc.append(slice(None, None, -1))", "slc.append(slice(None, None, 1))", 0, "caught"),
    ("fl_not_in", "if d in axes:", "if d not in axes:", 0, "caught"),
    ("fl_axes_not_normalized", "    axes = _normalize_axes(axes, input.ndim)\n\n    slc = []", "    slc = []", 0, "caught"),
    ("fl_loop_short", "for d in range(input.ndim):", "for d in range(input.ndim - 1):", 0, "caught"),
    ("fl_reverse_drops_last", "slc.append(slice(None, None, -1))", "slc.append(slice(None, 0, -1))", 0, "caught"),
    ("fl_returns_input", "    output = input[slc]\n\n    return output", "    output = input[slc]\n\n    return input", 0, "caught"),
    # ---- circshift -----------------------------------------------------------------------------------------------
    ("cs_negated_shift", "xp.roll(input, shift, axis=axis)", "xp.roll(input, -shift, axis=axis)", 0, "caught"),
    ("cs_swapped_arguments", "xp.roll(input, shift, axis=axis)", "xp.roll(input, axis, axis=shift)", 0, "caught"),
    ("cs_zip_swapped", "for axis, shift in zip(axes, shifts):", "for axis, shift in zip(shifts, axes):", 0, "caught"),
    ("cs_default_axes_short", "axes = range(input.ndim)", "axes = range(input.ndim - 1)", 0, "caught"),
    ("cs_flattened_roll", "xp.roll(input, shift, axis=axis)", "xp.roll(input, shift)", 0, "caught"),
    ("cs_shift_plus_1", "xp.roll(input, shift, axis=axis)", "xp.roll(input, shift + 1, axis=axis)", 0, "caught"),
    ("cs_default_changed", "def circshift(input, shifts, axes=None):", "def circshift(input, shifts, axes=(0,)):", 0, "caught"),
    # ---- downsample ----------------------------------------------------------------------------------------------
    ("ds_shift_mod_factor", SLC, "slc = tuple(slice(s % f, None, f) for s, f in zip(shift, factors))", 0, "caught"),
    ("ds_start_step_swapped", SLC, "slc = tuple(slice(f, None, s) for s, f in zip(shift, factors))", 0, "caught"),
    ("ds_start_plus_1", SLC, "slc = tuple(slice(s + 1, None, f) for s, f in zip(shift, factors))", 0, "caught"),
    ("ds_stop_minus_1", SLC, "slc = tuple(slice(s, -1, f) for s, f in zip(shift, factors))", 0, "caught"),
    ("ds_default_shift_one", "shift = [0] * len(factors)", "shift = [1] * len(factors)", 0, "caught"),
    ("ds_step_plus_1", SLC, "slc = tuple(slice(s, None, f + 1) for s, f in zip(shift, factors))", 0, "caught"),
    # ---- upsample ------------------------------------------------------------------------------------------------
    ("us_accumulate", "output[slc] = input", "output[slc] += input", 0, "caught"),
    ("us_default_dtype", "xp.zeros(oshape, dtype=input.dtype)", "xp.zeros(oshape)", 0, "caught"),
    ("us_start_step_swapped", SLC, "slc = tuple(slice(f, None, s) for s, f in zip(shift, factors))", 1, "caught"),
    ("us_default_shift_from_oshape", "shift = [0] * len(factors)", "shift = [0] * len(oshape)", 1, "caught"),
    ("us_returns_input", "    output[slc] = input\n\n    return output", "    output[slc] = input\n\n    return input", 0, "caught"),
    ("us_no_shift", SLC, "slc = tuple(slice(0, None, f) for s, f in zip(shift, factors))", 1, "caught"),
    ("us_alias_returned", "    output[slc] = input\n\n    return output", "    alias = output\n    output[slc] = input\n\n    return alias", 0, "breaks"),
    ("us_view_before_write", "    output[slc] = input\n\n    return output", "    view = output.reshape(oshape)\n    output[slc] = input\n\n    return view", 0, "breaks"),
    # ---- module level --------------------------------------------------------------------------------------------
    ("redefined_later", "def dirac(", "def flip(input, axes=None):\n    return input\n\n\ndef dirac(", 0, "caught"),
    ("builtin_shadowed", "def _normalize_axes(axes, ndim):", "def max(a, b):\n    return a\n\n\ndef _normalize_axes(axes, ndim):", 0, "caught"),
    # ---- meaning-preserving edits that keep the generated term: the tie must survive them -------------------------
    ("neutral_rename_local", "copy_shape", "window", -1, "pass"),
    ("neutral_comment", "    copy_shape = [", "    # per-axis length of the copied window\n    copy_shape = [  # min of what is left", 0, "pass"),
    ("neutral_unused_local", "    xp = backend.get_array_module(input)\n    output = xp.zeros(oshape1", "    rank = input.ndim\n    xp = backend.get_array_module(input)\n    output = xp.zeros(oshape1", 0, "pass"),
    ("neutral_generator_for_list", ISLICE, "islice = tuple(slice(si, si + c) for si, c in zip(ishift, copy_shape))", 0, "pass"),
    ("neutral_list_for_generator", SLC, "slc = tuple([slice(s, None, f) for s, f in zip(shift, factors)])", 0, "pass"),
    ("neutral_slice_lines_swapped", "    " + ISLICE + "\n    " + OSLICE + "\n", "    " + OSLICE + "\n    " + ISLICE + "\n", 0, "pass"),
    ("neutral_test_reordered", EARLY, "if ishift is None and oshift is None and ishape1 == oshape1:", 0, "pass"),
    ("neutral_zip_reordered", "for i, si, o, so in zip(ishape1, ishift, oshape1, oshift)", "for i, o, si, so in zip(ishape1, oshape1, ishift, oshift)", 0, "pass"),
    ("neutral_shift_zip_swapped", SLC, "slc = tuple(slice(s, None, f) for f, s in zip(factors, shift))", 0, "pass"),
    ("neutral_unrelated_function_added", "def resize(", "def _unused():\n    return None\n\n\ndef resize(", 0, "pass"),
    ("neutral_sorted_dropped", "for a in sorted(axes))", "for a in axes)", 0, "pass"),     # flip only asks `d in axes` (see notes)
    # ---- meaning-preserving edits that change the TERM or leave the fragment: reported (accepted) -------------------
    ("refactor_defaults_swapped", DEF_I + "\n" + DEF_O, DEF_O + "\n" + DEF_I, 0, "breaks"),
    ("refactor_min_commuted", "min(i - si, o - so)", "min(o - so, i - si)", 0, "breaks"),
    ("refactor_reverse_written_out", "slc.append(slice(None, None, -1))", "slc.append(slice(-1, None, -1))", 0, "breaks"),
    ("neutral_listcomp_slices_in_flip", "    slc = []\n    for d in range(input.ndim):\n        if d in axes:\n            slc.append(slice(None, None, -1))\n        else:\n            slc.append(slice(None))\n",
     "    slc = [slice(None, None, -1) if d in axes else slice(None) for d in range(input.ndim)]\n", 0, "pass"),
]


def nth_replace(text, old, new, k):
    if k == -1:
        assert old in text, old
        return text.replace(old, new)
    idx = -1
    for _ in range(k + 1):
        idx = text.find(old, idx + 1)
        if idx < 0:
            raise AssertionError("pattern not found (occurrence %d): %r" % (k, old))
    return text[:idx] + new + text[idx + len(old):]


def compile_gen(path):
    p = subprocess.run(["coqc", "-w", "-all", "-Q", core.COQ, "SV", path], cwd=os.path.dirname(path),
                       stdout=subprocess.PIPE, stderr=subprocess.STDOUT, text=True, timeout=600)
    return p.returncode, p.stdout


def one(name, src):
    d = os.path.join(SCRATCH, name.replace(":", "_"))
    shutil.rmtree(d, ignore_errors=True)
    os.makedirs(os.path.join(d, "sigpy"))
    with open(os.path.join(d, T.SRC_REL), "w") as f:
        f.write(src)
    try:
        text = T.translate_util(d)               # reads <d>/sigpy/util.py
    except T.TranslationError as e:
        return ("fails closed", str(e))
    except SyntaxError as e:
        return ("fails closed", "SyntaxError: %s" % e)
    path = os.path.join(d, "Gen_util.v")
    with open(path, "w") as f:
        f.write(text)
    rc, out = compile_gen(path)
    if rc == 0:
        return ("ok", "")
    return ("lemma fails", str(T.failing_lemma(text, out)))


def seeded_patches(src0):
    """the seeded changes of /verif/seeded for C09 that touch util.py (informational)"""
    out = []
    root = os.path.join(core.VERIF, "seeded")
    for name in sorted(os.listdir(root)) if os.path.isdir(root) else []:
        patch = os.path.join(root, name, "patch.diff")
        if not name.startswith("C09_") or not os.path.exists(patch):
            continue
        files = [l.split()[1][2:] for l in open(patch) if l.startswith("+++ ")]
        if T.SRC_REL not in files:
            out.append(("seeded:" + name, None, "does not touch util.py (%s)" % ", ".join(files)))
            continue
        d = os.path.join(SCRATCH, "seeded_src_" + name)
        shutil.rmtree(d, ignore_errors=True)
        os.makedirs(os.path.join(d, "sigpy"))
        open(os.path.join(d, T.SRC_REL), "w").write(src0)
        p = subprocess.run(["patch", "-p1", "-s", "--no-backup-if-mismatch", "-d", d, "-i", patch],
                           stdout=subprocess.PIPE, stderr=subprocess.STDOUT, text=True)
        if p.returncode:
            out.append(("seeded:" + name, None, "does not apply"))
            continue
        out.append(("seeded:" + name, open(os.path.join(d, T.SRC_REL)).read(), "info"))
        shutil.rmtree(d, ignore_errors=True)
    return out


def main():
    pos = [a for a in sys.argv[1:] if not a.startswith("--")]
    repo = pos[0] if pos else core.REPO
    t0 = time.time()
    ok, log = core.coq_make(["model/Rearrange.vo"], timeout=900)
    if not ok:
        print("cannot build the hand model:\n" + log[-1500:])
        return 2
    src0 = open(os.path.join(repo, T.SRC_REL)).read()
    jobs = [("UNMODIFIED", src0, "pass")]
    for name, old, new, k, expect in MUTATIONS:
        jobs.append((name, nth_replace(src0, old, new, k), expect))
    skipped = []
    if "--no-seeded" not in sys.argv:
        for j in seeded_patches(src0):
            (jobs if j[1] is not None else skipped).append(j)
    with concurrent.futures.ThreadPoolExecutor(max_workers=8) as ex:
        results = list(ex.map(lambda j: one(j[0], j[1]), jobs))
    bad = 0
    tally = {}
    print("%-34s %-8s %-9s %s" % ("mutation", "expected", "verdict", "how"))
    for (name, _, expect), (how, detail) in zip(jobs, results):
        verdict = "pass" if how == "ok" else "caught"
        good = expect == "info" or verdict == {"caught": "caught", "breaks": "caught", "pass": "pass"}[expect]
        bad += 0 if good else 1
        tally[(expect, how)] = tally.get((expect, how), 0) + 1
        print("%-34s %-8s %-9s %s%s" % (name, expect, verdict + ("" if good else " (!!)"), how, (": " + detail[:220]) if detail else ""))
    for name, _, why in skipped:
        print("%-34s %-8s %-9s %s" % (name, "info", "-", why))
    print("; ".join("%s/%s: %d" % (e, h, n) for (e, h), n in sorted(tally.items())))
    print("%d cases, %d unexpected, %.1fs" % (len(jobs), bad, time.time() - t0))
    return 1 if bad else 0


if __name__ == "__main__":
    sys.exit(main())
