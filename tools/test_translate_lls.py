#!/usr/bin/env python3
"""Self-test of tools/translate_lls.py: small textual mutations of a COPY of sigpy/app.py (and of alg.ADMM / util.axpy).

For every mutation the copy is translated; expected outcome: the translation FAILS CLOSED (TranslationError naming the
line) or the first `_ok` lemma of Gen_lls.v that no longer compiles is named.  The unmodified source and the
meaning-preserving edits marked "pass" must still be accepted.
Scratch copies: /verif/build/trlls_selftest/<name>/{sigpy/app.py,sigpy/alg.py,sigpy/util.py,Gen_lls.v}.

    /venv/bin/python tools/test_translate_lls.py [repo] [--no-seeded]       exit 0 = everything as expected
"""
import concurrent.futures
import os
import shutil
import subprocess
import sys
import time

HERE = os.path.dirname(os.path.abspath(__file__))
sys.path.insert(0, os.path.dirname(HERE))
from tools import translate_lls as T      # noqa: E402
from vlib import core                    # noqa: E402

SCRATCH = os.path.join(core.BUILD, "trlls_selftest")

# (name, file, old text, new text, which occurrence (0-based; -1 = all), expectation)
MUTATIONS = [
    # ---- _get_alg ----
    ("dec_default_gm_becomes_pdhg", "app", 'self.solver = "GradientMethod"', 'self.solver = "PrimalDualHybridGradient"', 0, "caught"),
    ("dec_default_test_inverted", "app", 'if self.proxg is None:\n                self.solver = "ConjugateGradient"',
     'if self.proxg is not None:\n                self.solver = "ConjugateGradient"', 0, "caught"),
    ("dec_cg_proxg_check_inverted", "app", "if self.proxg is not None:\n                raise ValueError(", "if self.proxg is None:\n                raise ValueError(", 0, "caught"),
    ("dec_gm_G_check_dropped", "app", '            if self.G is not None:\n                raise ValueError("GradientMethod cannot have G specified.")\n', "", 0, "caught"),
    ("dec_admm_branch_removed", "app", '        elif self.solver == "ADMM":\n            self._get_ADMM()\n', "", 0, "caught"),
    ("dec_wrong_method", "app", "            self._get_PrimalDualHybridGradient()\n", "            self._get_ADMM()\n", 0, "caught"),
    ("dec_solver_name_typo", "app", 'elif self.solver == "GradientMethod":', 'elif self.solver == "GradientDescent":', 0, "caught"),
    ("dec_wrong_error", "app", '"GradientMethod cannot have G specified."', '"Invalid solver: GradientMethod."', 0, "caught"),
    # ---- __init__ ----
    ("init_default_max_power_iter", "app", "        max_power_iter=30,\n        accelerate=True,", "        max_power_iter=10,\n        accelerate=True,", 0, "caught"),
    ("init_default_accelerate", "app", "        max_power_iter=30,\n        accelerate=True,", "        max_power_iter=30,\n        accelerate=False,", 0, "caught"),
    ("init_default_rho", "app", "        rho=1,\n        max_cg_iter=10,", "        rho=2,\n        max_cg_iter=10,", 0, "caught"),
    ("init_default_lamda", "app", "        proxg=None,\n        lamda=0,\n        G=None,", "        proxg=None,\n        lamda=1,\n        G=None,", 0, "caught"),
    ("init_tau_sigma_swapped", "app", "        self.tau = tau\n        self.sigma = sigma\n        self.rho = rho", "        self.tau = sigma\n        self.sigma = tau\n        self.rho = rho", 0, "caught"),
    ("init_param_order", "app", "        tau=None,\n        sigma=None,\n        rho=1,", "        sigma=None,\n        tau=None,\n        rho=1,", 0, "caught"),
    # ---- _get_ConjugateGradient ----
    ("cg_identity_dropped", "app", "            AHA += self.lamda * linop.Identity(self.x.shape)\n            if self.z is not None:", "            if self.z is not None:", 0, "caught"),
    ("cg_rhs_sign", "app", "AHy = AHy + self.lamda * self.z", "AHy = AHy - self.lamda * self.z", 0, "caught"),
    ("cg_rhs_in_place_F7", "app", "AHy = AHy + self.lamda * self.z", "AHy += self.lamda * self.z", 0, "caught"),
    ("cg_lamda_test_gt", "app", "        if self.lamda != 0:\n            AHA += self.lamda * linop.Identity(self.x.shape)\n            if self.z", "        if self.lamda > 0:\n            AHA += self.lamda * linop.Identity(self.x.shape)\n            if self.z", 0, "caught"),
    ("cg_wrong_max_iter", "app", "AHA, AHy, self.x, P=self.P, max_iter=self.max_iter, tol=self.tol", "AHA, AHy, self.x, P=self.P, max_iter=self.max_cg_iter, tol=self.tol", 0, "caught"),
    ("cg_tol_dropped", "app", "AHA, AHy, self.x, P=self.P, max_iter=self.max_iter, tol=self.tol", "AHA, AHy, self.x, P=self.P, max_iter=self.max_iter", 0, "caught"),
    ("cg_y_not_adjointed", "app", "        AHA = self.A.N\n        AHy = self.A.H(self.y)\n", "        AHA = self.A.N\n        AHy = self.A(self.y)\n", 0, "caught"),
    ("cg_normal_op_AAH", "app", "        AHA = self.A.N\n        AHy = self.A.H(self.y)\n", "        AHA = self.A * self.A.H\n        AHy = self.A.H(self.y)\n", 0, "caught"),
    # ---- _get_GradientMethod ----
    ("gm_gradf_sign", "app", "gradf_x = self.A.N(x) - AHy", "gradf_x = self.A.N(x) + AHy", 0, "caught"),
    ("gm_gradf_z_dropped", "app", "util.axpy(gradf_x, self.lamda, x - self.z)", "util.axpy(gradf_x, self.lamda, x)", 0, "caught"),
    ("gm_gradf_writes_linop_result", "app", "                gradf_x = self.A.N(x) - AHy\n", "                gradf_x = self.A.N(x)\n                gradf_x -= AHy\n", 0, "caught"),
    ("gm_alpha_not_inverted", "app", "self.alpha = 1 / max_eig", "self.alpha = max_eig", 0, "caught"),
    ("gm_alpha_zero_case", "app", "                self.alpha = 1\n", "                self.alpha = 0\n", 0, "caught"),
    ("gm_accelerate_dropped", "app", "            accelerate=self.accelerate,\n", "", 0, "caught"),
    ("gm_proxg_dropped", "app", "            self.alpha,\n            proxg=self.proxg,\n", "            self.alpha,\n", 0, "caught"),
    ("gm_maxeig_wrong_count", "app", "max_iter=self.max_power_iter,", "max_iter=self.max_iter,", 0, "caught"),
    # ---- _get_PrimalDualHybridGradient ----
    ("pdhg_dual_y_sign", "app", "proxfc = prox.L2Reg(self.y.shape, 1, y=-self.y)", "proxfc = prox.L2Reg(self.y.shape, 1, y=self.y)", 0, "caught"),
    ("pdhg_gamma_dual", "app", "                gamma_dual = 1\n", "                gamma_dual = 0\n", 0, "caught"),
    ("pdhg_gamma_primal", "app", "            gamma_primal = self.lamda\n", "            gamma_primal = 1\n", 0, "caught"),
    ("pdhg_tau_not_inverted", "app", "self.tau = 1 / max_eig", "self.tau = max_eig", 0, "caught"),
    ("pdhg_sigma_operator", "app", "AAH = A * T * A.H", "AAH = A * A.H", 0, "caught"),
    ("pdhg_sigma_default", "app", "                self.sigma = 1\n", "                self.sigma = 0\n", 0, "caught"),
    ("pdhgG_stack_shape", "app", "proxf2c = prox.Conj(prox.NoOp(self.G.oshape))", "proxf2c = prox.Conj(prox.NoOp(self.x.shape))", 1, "caught"),
    ("pdhgG_F6_primal_noop", "app", "                    proxg = prox.L2Reg(self.x.shape, self.lamda, y=self.z)\n", "                    proxg = prox.NoOp(self.x.shape)\n", 0, "caught"),
    ("pdhgG_conj_dropped", "app", "                        proxf2c = prox.Conj(self.proxg)\n", "                        proxf2c = self.proxg\n", 0, "caught"),
    ("pdhg_A_AH_swapped", "app", "            A,\n            A.H,\n            self.x,\n            u,", "            A.H,\n            A,\n            self.x,\n            u,", 0, "caught"),
    ("pdhg_tau_sigma_swapped", "app", "            self.tau,\n            self.sigma,\n            gamma_primal", "            self.sigma,\n            self.tau,\n            gamma_primal", 0, "caught"),
    ("pdhg_lamda_ge", "app", "        if self.lamda > 0:\n            gamma_primal = self.lamda", "        if self.lamda >= 0:\n            gamma_primal = self.lamda", 0, "caught"),
    ("pdhg_vstack_order", "app", "A = linop.Vstack([A, self.G])", "A = linop.Vstack([self.G, A])", 0, "caught"),
    # ---- _get_ADMM ----
    ("admm_v_not_copied", "app", "                v = self.x.copy()\n", "                v = self.x\n", 0, "caught"),
    ("admm_rhs_sign", "app", "AHy = AHy + self.rho * (v - u)", "AHy = AHy + self.rho * (v + u)", 0, "caught"),
    ("admm_lamda_dropped_from_system", "app", "AHA += (self.lamda + self.rho) * Id", "AHA += self.rho * Id", 0, "caught"),
    ("admm_prox_step", "app", "self.proxg(1 / self.rho, v)", "self.proxg(self.rho, v)", 0, "caught"),
    ("admm_B_sign", "app", "G, -I_v, 0, max_iter", "G, I_v, 0, max_iter", 0, "caught"),
    ("admm_c_nonzero", "app", "G, -I_v, 0, max_iter", "G, -I_v, 1, max_iter", 0, "caught"),
    ("admm_inner_max_iter", "app", "max_iter=self.max_cg_iter", "max_iter=self.max_iter", 0, "caught"),
    ("admm_GH_dropped", "app", "AHy = AHy + self.rho * self.G.H(v - u)", "AHy = AHy + self.rho * (v - u)", 0, "caught"),
    ("admm_GHG_scale", "app", "AHA += self.rho * self.G.H * self.G", "AHA += self.G.H * self.G", 0, "caught"),
    ("admm_v_update_drops_u", "app", "backend.copyto(v, self.x + u)", "backend.copyto(v, self.x)", 0, "caught"),
    ("admm_z_test_needs_lamda", "app", "            if self.z is not None:\n                AHy += self.lamda * self.z\n",
     "            if self.z is not None and self.lamda > 0:\n                AHy += self.lamda * self.z\n", 0, "caught"),
    # ---- alg.ADMM._update, util.axpy ----
    ("alg_admm_u_sign", "alg", "self.u += self.A(self.x) + self.B(self.z) - self.c", "self.u -= self.A(self.x) + self.B(self.z) - self.c", 0, "caught"),
    ("alg_admm_order", "alg", "        self.minL_x()\n        self.minL_z()\n", "        self.minL_z()\n        self.minL_x()\n", 0, "caught"),
    ("alg_pdhg_theta_default", "alg", "        theta=1,\n", "        theta=0,\n", 0, "caught"),
    ("util_axpy_minus", "util", "    y += a * x\n", "    y -= a * x\n", 0, "caught"),
    # ---- meaning-preserving edits: the tie must survive them ----
    ("neutral_rename_local", "app", "AHy", "AHy_vec", -1, "pass"),
    ("neutral_comment", "app", "        AHA = self.A.N\n        AHy = self.A.H(self.y)\n", "        AHA = self.A.N  # normal operator\n        # right-hand side\n        AHy = self.A.H(self.y)\n", 0, "pass"),
    ("neutral_docstring", "app", "    def _get_alg(self):\n", "    def _get_alg(self):\n        \"\"\"choose the solver\"\"\"\n", 0, "pass"),
    ("neutral_unused_local", "app", "    def _get_GradientMethod(self):\n", "    def _get_GradientMethod(self):\n        lam = self.lamda\n", 0, "pass"),
    ("neutral_branch_order", "app", '        elif self.solver == "PrimalDualHybridGradient":\n            self._get_PrimalDualHybridGradient()\n        elif self.solver == "ADMM":\n            self._get_ADMM()\n',
     '        elif self.solver == "ADMM":\n            self._get_ADMM()\n        elif self.solver == "PrimalDualHybridGradient":\n            self._get_PrimalDualHybridGradient()\n', 0, "pass"),
    ("neutral_test_polarity", "app", "                    if self.z is None:\n                        util.axpy(gradf_x, self.lamda, x)\n                    else:\n                        util.axpy(gradf_x, self.lamda, x - self.z)\n",
     "                    if self.z is not None:\n                        util.axpy(gradf_x, self.lamda, x - self.z)\n                    else:\n                        util.axpy(gradf_x, self.lamda, x)\n", 0, "pass"),
    ("neutral_keyword_order", "app", "AHA, AHy, self.x, P=self.P, max_iter=self.max_iter, tol=self.tol", "AHA, AHy, self.x, tol=self.tol, max_iter=self.max_iter, P=self.P", 0, "pass"),
    # harmless refactors that change the TERM are reported too (accepted: the check then relies on the correspondences / oracle)
    ("refactor_sum_commuted", "app", "AHy = AHy + self.lamda * self.z", "AHy = self.lamda * self.z + AHy", 0, "caught"),
    ("refactor_axpy_spelled_out", "app", "util.axpy(gradf_x, self.lamda, x)\n", "gradf_x = gradf_x + self.lamda * x\n", 0, "pass"),
]


def nth_replace(text, old, new, k):
    if k == -1:
        assert old in text, old
        return text.replace(old, new)
    idx = -1
    for _ in range(k + 1):
        idx = text.find(old, idx + 1)
        if idx < 0:
            raise AssertionError("pattern not found (occurrence %d): %r" % (k, old))
    return text[:idx] + new + text[idx + len(old):]


def compile_gen(path):
    p = subprocess.run(["coqc", "-w", "-all", "-Q", core.COQ, "SV", path], cwd=os.path.dirname(path),
                       stdout=subprocess.PIPE, stderr=subprocess.STDOUT, text=True, timeout=600)
    return p.returncode, p.stdout


def one(name, srcs):
    d = os.path.join(SCRATCH, name.replace(":", "_"))
    shutil.rmtree(d, ignore_errors=True)
    os.makedirs(os.path.join(d, "sigpy"))
    for f in ("app", "alg", "util"):
        with open(os.path.join(d, "sigpy", f + ".py"), "w") as fh:
            fh.write(srcs[f])
    try:
        text = T.translate_lls(d)
    except T.TranslationError as e:
        return ("fails closed", str(e))
    except SyntaxError as e:
        return ("fails closed", "SyntaxError: %s" % e)
    path = os.path.join(d, "Gen_lls.v")
    with open(path, "w") as fh:
        fh.write(text)
    rc, out = compile_gen(path)
    if rc == 0:
        return ("ok", "")
    return ("lemma fails", str(T.failing_lemma(text, out)))


def seeded_patches(srcs0):
    """the seeded changes of /verif/seeded/C14_* (and any other that touches only app.py / alg.py / util.py): informational"""
    out = []
    root = os.path.join(core.VERIF, "seeded")
    for name in sorted(os.listdir(root)) if os.path.isdir(root) else []:
        patch = os.path.join(root, name, "patch.diff")
        if not os.path.exists(patch):
            continue
        files = [l.split()[1][2:] for l in open(patch) if l.startswith("+++ ")]
        if not files or "sigpy/app.py" not in files or not set(files) <= {"sigpy/app.py", "sigpy/alg.py", "sigpy/util.py"}:
            continue
        d = os.path.join(SCRATCH, "seeded_src_" + name)
        shutil.rmtree(d, ignore_errors=True)
        os.makedirs(os.path.join(d, "sigpy"))
        for f in ("app", "alg", "util"):
            open(os.path.join(d, "sigpy", f + ".py"), "w").write(srcs0[f])
        p = subprocess.run(["patch", "-p1", "-s", "--no-backup-if-mismatch", "-d", d, "-i", patch],
                           stdout=subprocess.PIPE, stderr=subprocess.STDOUT, text=True)
        if p.returncode:
            print("seeded:%s does not apply: %s" % (name, p.stdout.strip()[:200]))
            continue
        out.append(("seeded:" + name, {f: open(os.path.join(d, "sigpy", f + ".py")).read() for f in ("app", "alg", "util")}, "info"))
        shutil.rmtree(d, ignore_errors=True)
    return out


def main():
    pos = [a for a in sys.argv[1:] if not a.startswith("--")]
    repo = pos[0] if pos else core.REPO
    t0 = time.time()
    ok, log = core.coq_make(["model/LLS.vo", "model/LLSExpr.vo"], timeout=900)
    if not ok:
        print("cannot build the hand models:\n" + log[-1500:])
        return 2
    app0, alg0, util0 = T.read_sources(repo)
    srcs0 = {"app": app0, "alg": alg0, "util": util0}
    jobs = [("UNMODIFIED", srcs0, "pass")]
    for name, which, old, new, k, expect in MUTATIONS:
        s = dict(srcs0)
        s[which] = nth_replace(s[which], old, new, k)
        jobs.append((name, s, expect))
    if "--no-seeded" not in sys.argv:
        jobs += seeded_patches(srcs0)
    with concurrent.futures.ThreadPoolExecutor(max_workers=8) as ex:
        futs = [ex.submit(one, n, s) for n, s, _ in jobs]
        results = [f.result() for f in futs]
    bad = 0
    print("%-34s %-8s %-9s %s" % ("mutation", "expected", "verdict", "how"))
    for (name, _, expect), res in zip(jobs, results):
        verdict = "pass" if res[0] == "ok" else "caught"
        good = verdict == expect or expect == "info"
        bad += 0 if good else 1
        print("%-34s %-8s %-9s %s%s" % (name, expect, verdict + ("" if good else " (!!)"), res[0], (": " + res[1][:230]) if res[1] else ""))
    print("%d cases, %d unexpected, %.1fs" % (len(jobs), bad, time.time() - t0))
    return 1 if bad else 0


if __name__ == "__main__":
    sys.exit(main())
