NOTES = ("Every check: (1) regenerates the generated Coq models from /repo, (2) rebuilds and re-checks the property's theorem file "
         "(Print Assumptions captured), (3) runs the model inside Coq (vm_compute) against the implementation on seeded cases, "
         "(4) runs the documented closed form / numeric oracle on the implementation to exhibit failing inputs. See DESIGN.md.")
NOT_APPLICABLE = {}
CHECKS = {
 "C09": {
  "text": "Coq theorems (unbounded in sizes, strides, shifts): the block kernels generated from block.py compute the documented "
          "window / overlap-add sums; resize's default window is exactly the centre-aligned copy set; every per-axis map has an "
          "inverse partial bijection. Hand models of the util functions and block wrappers are tied by exact correspondence.",
  "note": "Trusted: Coq kernel+vm_compute; translate_loops.py and LoopIR.exec as the reading of numba loops; numpy slicing/roll as "
          "modelled; 2-D/3-D block kernels match the N-D closed form by correspondence only (1-D+batch proved). No axioms.",
  "technique": "Coq proof over generated loop-nest IR + exact model/implementation correspondence (vm_compute)",
 },
 "C01": {
  "text": "Coq theorem over an arbitrary commutative *-ring: for EVERY expression tree over Conj / + / composition (hence scalar and sign "
          "overloads, with python's flattening) the operator returned by the modelled _adjoint_linop satisfies <A x,y> = <x,A^H y> with swapped "
          "shapes, provided each remaining node does; that node hypothesis is itself proved for Identity, Flip, Downsample, Upsample, Resize "
          "(all shift combinations) and generically for any kernel or partial-bijection gather. The model (adj, shapes, den) is tied to linop.py "
          "by exact comparison of the serialised A.H object graphs and of values on Gaussian-integer data.",
  "note": "Trusted: Coq kernel+vm_compute; hand model coq/model/Linop.v (checked against the implementation each run); serialiser. Node hypothesis NOT yet "
          "proved in Coq for Hstack/Vstack/Diag, Reshape, Transpose, Circshift, Multiply/MatMul (broadcast composite), Sum/Tile, blocks (1-D kernel facts in C09), "
          "Slice/Embed and the library-backed leaves (FFT, NUFFT, interpolation, wavelet, convolution): for those the complex dot-test oracle on the implementation decides. No axioms.",
  "technique": "Coq proof by structural induction over a deep embedding of the operator language + exact object-graph / value correspondence",
 },
 "C02": {
  "text": "Coq theorem: every Conj/+/composition tree is linear over the scalar ring (complex a included), given linear nodes; re-indexing, gather and "
          "finite-sum leaf families proved linear. Determinism and non-mutation are run-time aliasing facts: decided by a byte-snapshot sweep over every "
          "operator tree (input and captured arrays, after .H/.N are cached), every Prox class and every public array function in three memory layouts.",
  "note": "Trusted: Coq kernel; functional_extensionality_dep (stdlib axiom, used for linearity of compositions); the snapshot harness. "
          "No static alias analysis: a mutation on a path the sweep does not execute is not seen.",
  "technique": "Coq proof (linearity by induction over the deep embedding) + dynamic byte-snapshot purity sweep",
 },
 "C03": {
  "text": "Coq theorems: A*B applies B then A (incl. flattening of nested compositions), A+B / A-B add results, misfitting operands are rejected by the "
          "constructor model (Compose, Add) and accepted only with the advertised shapes. The constructor/shape model incl. Hstack/Vstack/Diag parameters "
          "is compared exactly with the implementation on random trees and on a malformed stream; values are compared exactly on integers; the dense matrix of "
          "each tree is compared with an independent numpy block-matrix assembly.",
  "note": "Trusted: Coq kernel+vm_compute; hand model Linop.v; the numpy block-matrix reference used as search oracle. Block-row/column/diagonal "
          "denotation of Hstack/Vstack/Diag is modelled as coded (start/end slices) and validated by correspondence, not yet proved equal to the abstract block matrix.",
  "technique": "Coq proof over the deep embedding + exact shape/value correspondence + rejection stream",
 },
 "C04": {
  "text": "Coq theorems: every class with the default _normal_linop (all combinators, block operators outside tiling/non-overlap) has A.N = A.H*A exactly; "
          "Identity and Reshape shortcuts proved; every other shortcut is shown correct whenever the operator is an isometry on its index box. The model of "
          "_normal_linop (incl. the repaired block side conditions) is compared exactly with the implementation's A.N object graph; A.N x vs A.H(A x) numerically.",
  "note": "Trusted: Coq kernel+vm_compute; hand model. Isometry of Transpose/Circshift/FFT/tiling blocks is hypothesis in Coq (validated numerically); "
          "NUFFT Toeplitz normal is only validated to interpolation accuracy (partial).",
  "technique": "Coq proof over the deep embedding + exact A.N object-graph correspondence",
 },
 "C07": {
  "text": "Coq theorems about the loop nests GENERATED from interp.py on every run: the 1-D interpolate kernel equals the sum over the integers in "
          "[ceil(k-W/2), floor(k+W/2)] of K((x-k)/(W/2),p)*in[b, x mod n]; those bounds are exactly the samples within half a width (ties included) for "
          "any ordering with Galois ceil/floor; gridding accumulates the same weights onto the wrapped position (duplicates add); the two are exact "
          "transposes; the generated _spline_kernel is the documented B-spline of order 0-2. Wrappers (batching, width/param broadcasting) and the 2-D/3-D "
          "kernels are tied to an N-D closed form and to the implementation by PrimFloat correspondence.",
  "note": "Trusted: Coq kernel+vm_compute(PrimFloat); translate_loops.py and LoopIR.exec; wrapper model Interp.v; Kaiser-Bessel kernel values measured on the "
          "implementation (I0 polynomial outside the model; compared with numpy.i0 to 3e-6). 2-D/3-D kernels: correspondence only. No axioms.",
  "technique": "Coq proof over loop-nest IR generated from the source + PrimFloat model/implementation correspondence",
 },
 "C11": {
  "text": "Coq theorems over R (real and complex elements in one generic proof): a point satisfying the prox variational inequality is THE strict minimiser; "
          "soft threshold (scalar/array lamda, any length) is that minimiser; hard threshold = documented map; clip, l2-ball (incl. boundary, zero), "
          "l-infinity (with bias) are Euclidean projections; the l1-ball sort/cumsum search returns theta >= 0 with sum(|y|-theta)+ = eps, which characterises the "
          "projection, feasible input returned unchanged; L2Reg closed form and proxh composition; Conj (Moreau), Stack (block separable), UnitaryTransform. "
          "Model mirrors thresh.py/prox.py line by line and is compared with the implementation on PrimFloat.",
  "note": "Trusted: Coq kernel+vm_compute(PrimFloat), stdlib real-number axioms (sig_forall_dec, sig_not_dec, functional_extensionality_dep) as printed per theorem; "
          "numpy eigh/sort as oracles (the eigendecomposition the implementation used is checked against its spec inside Coq and passed in). "
          "PsdProj: partial (proved from spectral consequences of the eigh spec).",
  "technique": "Coq proof over R of the prox variational inequalities + PrimFloat model/implementation correspondence",
  "design_ref": "DESIGN.md §3 C11, notes/C11.md",
 },
 "C16": {
  "text": "Coq theorems: for every batch size b >= 1 the coil-batched evaluation equals the explicit encoding y[c,k] = sqrt(w)[k] F(maps[c] x)[k] (forward), "
          "and the per-coil adjoint terms summed batch by batch (last batch partial) give the same image (chunked-sum lemma, any n, b); weighted least-squares identity. "
          "The operator tree returned by the Sense factory is compared exactly with the modelled factory tree for every coil_batch_size; explicit and batched encodings are "
          "evaluated in Coq against the implementation; recon apps checked for optimality numerically.",
  "note": "Trusted: Coq kernel+vm_compute; hand model Sense.v/Linop.v; single-coil Fourier matrix measured on the implementation (FFT/NUFFT correctness is C05/C06). "
          "Recon optimality (SenseRecon normal equations, TV solver agreement) is validated numerically only; tseg/comm/transp_nufft outside the model. No axioms.",
  "technique": "Coq proof (index algebra / chunked sums over any *-ring) + exact factory-tree correspondence + PrimFloat value correspondence",
 },
 "C19": {
  "text": "Coq theorems over R: SU(2) step identity and its product over ANY waveform; exact unitarity of abrm_hp, blochsim, abrm_ptx; exact product formula and bounds for "
          "abrm/abrm_nd with the epsilon regulariser (=1 at eps=0); zero RF => b = 0; composition as ordered SU(2) product (abrm_nd full, abrm_hp/blochsim per-sample loop: partial); "
          "ab2rf peeling recursion inverts the forward hard-pulse polynomials (final angle conversion: partial). One model over an ops record + trig oracle, run on PrimFloat with cos/sin "
          "tables keyed by the angle the model computes.",
  "note": "Trusted: Coq kernel+vm_compute(PrimFloat), stdlib real-number axioms; numpy cos/sin/exp values supplied as data; b2a/mag2mp minimum-phase numerics and abrm_ptx zero-RF/composition "
          "are validated numerically only.",
  "technique": "Coq proof over R (induction over waveforms) + PrimFloat model/implementation correspondence",
  "design_ref": "DESIGN.md §3 C19, notes/C19_C20.md",
 },
 "C20": {
  "text": "Coq theorems over R for ALL area, gmax, dgdt, dt > 0 (triangle, trapezoid and boundary in one statement): trap_grad starts/ends at 0, sum*dt = area exactly, 0 <= w <= gmax, "
          "|dw| <= dgdt*dt; min_trap_grad likewise with the area under its flat top (>= 1 flat sample). The designer model is written once over an ops record, run on PrimFloat against the implementation.",
  "note": "Trusted: Coq kernel+vm_compute(PrimFloat), stdlib real-number axioms (ceil via `up`); float rounding of ceil at exact integers (tolerance 1e-9). spokes_grad is checked by the numeric oracle only "
          "(restricted to spoke sets whose blips fit inside the slice lobe; see DESIGN.md findings).",
  "technique": "Coq proof over R (lra/nra with a real ceiling) + PrimFloat model/implementation correspondence",
  "design_ref": "DESIGN.md §3 C20, notes/C19_C20.md",
 },
 "C13": {
  "text": "Coq theorems over an abstract real inner-product space (any convex g with a variational-inequality prox, f with the descent and convexity inequalities, "
          "proved for 1/2||Ax-y||^2): ISTA quantitative descent for every alpha>0 and monotonicity for alpha*L<=2; O(1/k) rate; FISTA O(1/k^2) with the coded t-sequence and "
          "momentum coefficient (one-step potential + telescoping); resid=0 => fixed point and global minimiser (accelerated or not); PDHG saddle point <=> fixed point for "
          "scalar / diagonal / abstract steps, any theta, every gamma branch and along the accelerated schedules; Fejer monotonicity in the skewed pairing (x_k,u_{k+1}) under "
          "tau*sigma*||A||^2<=1 with summable step lengths. The update steps are one Gallina model run on PrimFloat against every iterate of the implementation.",
  "note": "Trusted: Coq kernel+vm_compute(PrimFloat); stdlib real-number axioms + functional extensionality as printed per theorem. Not proved (partial): convergence of the "
          "iterates to the minimiser, O(1/k^2) for accelerated PDHG, Fejer with array-valued steps (oracle only); in-place update of the caller's arrays is checked dynamically.",
  "technique": "Coq proof over an abstract inner-product space + PrimFloat trajectory correspondence",
  "design_ref": "DESIGN.md §3 C13, notes/C13.md",
 },
 "C12": {
  "text": "Coq theorems over an arbitrary real inner-product space (A self-adjoint, P absent or self-adjoint positive definite; complex Hermitian systems via the real embedding), "
          "for every k, max_iter, tol, x0, b: tracked residual r_k = b - A x_k while k < max_iter (and exactly what is stale after the final update); conjugacy of directions and "
          "P-orthogonality of residuals; x_k minimises phi over x0 + span{p_0..p_{k-1}} and over x0 + K_k(PA, P r0) (Krylov optimality), hence the A-norm error never increases; "
          "breakdown (pAp <= 0) leaves the state unchanged with done() true, and for PD A happens only when solved. The state machine mirrors __init__/_update attribute by attribute "
          "and is compared after every update with the implementation on PrimFloat.",
  "note": "Trusted: Coq kernel+vm_compute(PrimFloat); stdlib real-number axioms as printed. Finite termination within n steps is validated numerically only. "
          "'Written into the caller's array' is checked dynamically (object identity + contents).",
  "technique": "Coq proof over an abstract inner-product space (invariants by induction over updates) + PrimFloat trajectory correspondence",
  "design_ref": "DESIGN.md §3 C12, notes/C12_C15.md",
 },
 "C15": {
  "text": "Coq theorems: `while not done: update` performs min(max_iter, first stopping k) updates and iter counts them, for every max_iter (0 and negative included) and any "
          "interleaving of extra done() calls; with tol = 0 an early stop is a genuine fixed point for GradientMethod (non-accelerated and, after the repair, accelerated — unconditional), "
          "CG (rz = 0 => solved) and PDHG with scalar steps (resid = 0 => neither x nor u moved); power-iteration estimates are non-decreasing and <= L once normalised. "
          "The driver model must reproduce every done() answer, iter value and update count of 15 algorithm kinds under random interleavings.",
  "note": "Trusted: Coq kernel+vm_compute; stdlib real-number axioms. Early-stop statements for Newton, GerchbergSaxton, PDHG with array steps / step adaptation are checked by the oracle only "
          "(one more update leaves the solution unchanged).",
  "technique": "Coq proof (state-machine induction) + exact history correspondence (counters, flags) + oracle on extra updates",
  "design_ref": "DESIGN.md §3 C15, notes/C12_C15.md",
 },
 "C06": {
  "text": "Coq theorems over an abstract *-ring: nufft_adjoint is the EXACT adjoint of nufft for every shape, coordinate set, oversampling and width (all scalar factors, the real "
          "apodisation, the centred pad/crop pair proved; the un-normalised FFT pair derived from the DFT-sum oracle; interpolate/gridding pair from C07 as hypothesis); exact periodicity: "
          "adding N_d to a coordinate adds ceil(os*N_d) to the scaled coordinate and the interpolation window wraps by that; conformance of beta / scale / shift / apodisation formulas. "
          "Parameter functions and the step structure are run on PrimFloat against the implementation (Kaiser-Bessel values, sinh, twiddles as data).",
  "note": "Trusted: Coq kernel+vm_compute(PrimFloat); numpy.fft as DFT oracle; the accuracy bound itself (3% at defaults, 0.3% at oversamp 2) and the Toeplitz normal operator are "
          "VALIDATED NUMERICALLY ONLY against the explicit NUDFT (partial, as the property's accuracy clause is numerical analysis). No axioms.",
  "technique": "Coq proof (composition of adjoint pairs over an abstract *-ring) + PrimFloat correspondence + numeric NUDFT validation",
  "design_ref": "DESIGN.md §3 C06, notes/C06_C08.md",
 },
 "C08": {
  "text": "Coq theorems over any *-ring (one spatial axis, arbitrary batch shape, multi-channel, any stride, both modes): the model of _convolve over the recorded scipy specs equals "
          "y[b,c,p] = sum_i sum_t data[b,i,p*s+off-t] filt[c,i,t] with off = 0 / min(m,n)-1 and the advertised lengths; convolve_data_adjoint and convolve_filter_adjoint (zero-stuffing + "
          "correlate in the coded adjoint_mode) are the exact adjoints and return the requested shapes; inadmissible shape/stride/channel combinations are rejected. "
          "Exact Gaussian-integer correspondence for D = 1..3 incl. a malformed stream and the scipy specs themselves.",
  "note": "Trusted: Coq kernel+vm_compute; scipy.signal convolve/correlate specs (Gallina definitions, checked against the real scipy each run). D = 2,3 and multi_channel=False are tied by exact "
          "correspondence to the N-D closed form, not proved. No axioms.",
  "technique": "Coq proof (kernel operators + kernel_adjoint) + exact integer model/implementation correspondence",
  "design_ref": "DESIGN.md §3 C08, notes/C06_C08.md",
 },
 "C14": {
  "text": "Coq theorems over an abstract real inner-product space (g an extended-real convex function given by its prox): the configuration logic `_get_alg` as a total decision "
          "function rejects exactly CG+proxg, GradientMethod+G and unknown solvers; for each branch the configured iteration solves the DOCUMENTED problem: CG system <=> stationarity <=> "
          "minimiser (and meets C12's hypotheses); GradientMethod fixed points = minimisers for any alpha; PDHG without G: fixed points = minimisers for all tau, sigma > 0; PDHG / ADMM with G: "
          "fixed points = KKT pairs (=> minimiser; converse given a multiplier). All 1152 configurations are constructed and their wiring compared exactly with the model's descriptor; "
          "configured data and first updates compared on PrimFloat; every accepted solver's objective compared with an independent optimum.",
  "note": "Trusted: Coq kernel+vm_compute(PrimFloat); stdlib real-number axioms + funext. Partial: multiplier existence for g o G (chain rule) and convergence of PDHG/ADMM to the fixed point "
          "are not proved (the objective at the returned x is validated numerically against an independent optimum); complex data only through the numpy oracle.",
  "technique": "Coq proof (fixed points of the configured iteration = minimisers) + exhaustive configuration correspondence + PrimFloat step correspondence",
  "design_ref": "DESIGN.md §3 C14, notes/C14.md",
 },
}
