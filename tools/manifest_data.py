NOTES = ("Every check: (1) regenerates the generated Coq models from /repo, (2) rebuilds and re-checks the property's theorem file "
         "(Print Assumptions captured), (3) runs the model inside Coq (vm_compute) against the implementation on seeded cases, "
         "(4) runs the documented closed form / numeric oracle on the implementation to exhibit failing inputs. See DESIGN.md.")
NOT_APPLICABLE = {}
CHECKS = {
 "C09": {
  "text": "Coq theorems (unbounded in sizes, strides, shifts): the block kernels generated from block.py compute the documented "
          "window / overlap-add sums; resize's default window is exactly the centre-aligned copy set; every per-axis map has an "
          "inverse partial bijection. Hand models of the util functions and block wrappers are tied by exact correspondence.",
  "note": "Trusted: Coq kernel+vm_compute; translate_loops.py and LoopIR.exec as the reading of numba loops; numpy slicing/roll as "
          "modelled; 2-D/3-D block kernels match the N-D closed form by correspondence only (1-D+batch proved). No axioms.",
  "technique": "Coq proof over generated loop-nest IR + exact model/implementation correspondence (vm_compute)",
 },
}
