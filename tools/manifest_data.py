NOTES = "Every check: (1) regenerates the generated Coq models from /repo, (2) rebuilds and re-checks the property's theorem file (Print Assumptions captured), (3) runs the model inside Coq (vm_compute) against the implementation on seeded cases, (4) runs the documented closed form / numeric oracle on the implementation to exhibit failing inputs. See DESIGN.md."
NOT_APPLICABLE = {}
CHECKS = {
 'C01': {
  'text': "Coq theorems over an arbitrary commutative *-ring, by structural induction over a deep embedding of the operator language: for EVERY expression tree over ALL combinators (Conj, +, -, composition with python's flattening, scalar multiples, Hstack / Vstack / Diag for every axis in [-ndim, ndim) and None) the operator returned by the modelled _adjoint_linop satisfies <A x,y> = <x,A^H y> and has the shapes swapped, provided each library-backed leaf does; every leaf class with a modelled denotation is PROVED for all valid parameters (Identity, Flip, Down/Upsample, Reshape, the full Resize incl. shifts and rank changes, Circshift, Transpose incl. negative axes, Slice/Embed, Sum/Tile, Multiply with any broadcast pattern, MatMul/RightMatMul with batch broadcasting, ArrayToBlocks/BlocksToArray 1-3 D on the GENERATED kernels); the adjoint of the adjoint acts like the original; the fragment is closed under adjoints. The hand model is tied to linop.py by (i) the _adjoint_linop table regenerated from the source with equality lemmas and (ii) exact comparison of serialised A.H object graphs, shapes and values on every run.",
  'note': 'Trusted: Coq kernel+vm_compute; hand model coq/model/Linop.v; tools/translate_linop.py, vlib/linser.py. Library-backed leaves (FFT: C05, NUFFT: C06, interpolation: C07, convolution: C08, wavelets: C10) enter as an oracle with the adjoint-pair hypothesis, discharged in those developments / validated by the complex dot test here. MRI factories are covered through the trees they build (C16). No axioms (all theorems closed under the global context).',
  'technique': 'Coq proof by structural induction over a deep embedding of the operator language + exact object-graph / value correspondence',
 },
 'C02': {
  'text': 'Coq theorems: EVERY operator expression is linear over the scalar ring (complex scalars included: Conj conjugates on both sides) — every leaf class with a modelled denotation (incl. the block operators via a generic linearity theorem for loop nests applied to the six GENERATED kernels), every combinator incl. Hstack/Vstack/Diag, with linearity of the library oracle as the only hypothesis and not even well-formedness; the executed (re-tabulating) model is linear too. Determinism and non-mutation are run-time aliasing facts: decided by a byte-snapshot sweep over every operator tree (input and captured arrays, after .H/.N are cached), every Prox class and every public array function in three memory layouts, plus a static may-alias scan of the sources whose new reports trigger the sweep.',
  'note': 'Trusted: Coq kernel; functional_extensionality_dep (stdlib axiom) for linearity of compositions; the snapshot harness and tools/alias_scan.py (support tools, not proofs). A mutation on a path neither the sweep executes nor the scan recognises is not seen.',
  'technique': 'Coq proof (linearity by induction over the deep embedding) + dynamic byte-snapshot purity sweep',
 },
 'C03': {
  'text': "Coq theorems: A*B applies B then A (incl. flattening of nested compositions), A+B / A-B add results; Hstack, Vstack and Diag ARE the block-row, block-column and block-diagonal matrices along the axis (any axis in [-ndim, ndim), or flattened for None) with split points proved to be the prefix sums of the members' sizes; misfitting operands are rejected by the constructor model and accepted only with the advertised shapes. The constructor/shape model is compared exactly with the implementation on random trees and a malformed stream; values exactly on integers; the dense matrix of each tree against an independent numpy block-matrix assembly. The EXECUTED model (which re-tabulates intermediate arrays) is proved equal to the PROVED model on the output box for every well-formed tree over all modelled leaf classes (each shown to read its input only inside the index box).",
  'note': 'Trusted: Coq kernel+vm_compute; hand model Linop.v (checked against the implementation each run); the numpy block-matrix reference as search oracle. No axioms.',
  'technique': 'Coq proof over the deep embedding + exact shape/value correspondence + rejection stream',
 },
 'C04': {
  'text': 'Coq theorems: for EVERY operator class, A.N acts as A^H A on the input box: default _normal_linop exactly; Identity / Reshape; Transpose and Circshift (isometries proved); ArrayToBlocks exactly when blocks tile and BlocksToArray exactly when blocks do not overlap (1-3 block axes, on the generated kernels; the Gram of overlapping / gapped / partial blocks is shown NOT to be the identity, so the repaired side conditions are necessary); FFT/IFFT under unitarity of the oracle (C05). The _normal_linop table is regenerated from linop.py with equality lemmas; A.N object graphs are compared exactly; block operators with batch axes in every regime and NUFFT toeplitz on/off on square and non-square grids have dedicated streams.',
  'note': 'Trusted: Coq kernel+vm_compute; hand model; NUFFT Toeplitz normal operator is only validated numerically to interpolation accuracy (partial). No axioms.',
  'technique': 'Coq proof over the deep embedding + exact A.N object-graph correspondence',
 },
 'C05': {
  'text': 'Coq theorems over any commutative *-ring with a root of unity (hypotheses w^n = 1, sum_k w^(km) = 0, derived from primitivity in a domain): fftshift(dft(ifftshift x))[k] = sum_j x_j w^((j-n/2)(k-n/2)) for every n >= 1, odd and even in one statement, for fft and ifft under both norms; N-D: centred resize first, then one centred transform per normalised axis; axes order and sign irrelevant; ifft(fft x) = x, Parseval, FFT^H = IFFT (justifying the linop adjoint and the Identity normal); dtype rule. The model runs on PrimFloat with twiddle tables validated inside Coq, against the implementation for all shapes/axes/center/norm/oshape/dtypes.',
  'note': 'Trusted: Coq kernel+vm_compute(PrimFloat); numpy.fft is the DFT (oracle; compared with explicit DFT matrices every run). center=False with explicit oshape is validated by correspondence only. No axioms.',
  'technique': 'Coq proof (root-of-unity algebra over an abstract *-ring) + PrimFloat model/implementation correspondence',
  'design_ref': 'DESIGN.md §3 C05, notes/C05_C10.md',
 },
 'C06': {
  'text': 'Coq theorems over an abstract *-ring: nufft_adjoint is the EXACT adjoint of nufft for every shape, coordinate set, oversampling and width (all scalar factors, the real apodisation, the centred pad/crop pair proved; the un-normalised FFT pair derived from the DFT-sum oracle; interpolate/gridding pair from C07 as hypothesis); exact periodicity: adding N_d to a coordinate adds ceil(os*N_d) to the scaled coordinate and the interpolation window wraps by that; conformance of beta / scale / shift / apodisation formulas. Parameter functions and the step structure are run on PrimFloat against the implementation (Kaiser-Bessel values, sinh, twiddles as data).',
  'note': "Trusted: Coq kernel+vm_compute(PrimFloat); numpy.fft as DFT oracle; the accuracy bound itself (3% at defaults, 0.3% at oversamp 2) and the Toeplitz normal operator are VALIDATED NUMERICALLY ONLY against the explicit NUDFT (partial, as the property's accuracy clause is numerical analysis). No axioms.",
  'technique': 'Coq proof (composition of adjoint pairs over an abstract *-ring) + PrimFloat correspondence + numeric NUDFT validation',
  'design_ref': 'DESIGN.md §3 C06, notes/C06_C08.md',
 },
 'C07': {
  'text': 'Coq theorems about the loop nests GENERATED from interp.py on every run, for 1-D, 2-D and 3-D kernels: interpolate equals the separable kernel sum over the integers in [ceil(k-W/2), floor(k+W/2)] per axis with periodic wrap; those bounds are exactly the samples within half a width (ties included) for any ordering with Galois ceil/floor; gridding accumulates the same weights onto the wrapped position (duplicates add); interpolate/gridding are exact transposes (stated on the generated kernels); the generated _spline_kernel is the documented B-spline of order 0-2. The wrappers (batching, width/param broadcasting) are tied to an N-D closed form and to the implementation by PrimFloat correspondence.',
  'note': 'Trusted: Coq kernel+vm_compute(PrimFloat); translate_loops.py and LoopIR.exec; wrapper model Interp.v; Kaiser-Bessel kernel values measured on the implementation (I0 polynomial outside the model; compared with numpy.i0 to 3e-6). No axioms.',
  'technique': 'Coq proof over loop-nest IR generated from the source + PrimFloat model/implementation correspondence',
 },
 'C08': {
  'text': 'Coq theorems over any *-ring for ANY number D >= 1 of spatial axes (induction over the axes), arbitrary batch shape, multi_channel both ways, any strides, both modes: the model of _convolve over the recorded scipy specs equals y[b,c,p] = sum_i sum_{t in box} data[b,i,p*s+off-t] filt[c,i,t] with per-axis off = 0 / min(m,n)-1 and the advertised lengths; convolve_data_adjoint and convolve_filter_adjoint (zero-stuffing + correlate in the coded adjoint_mode) are the exact adjoints and return the requested shapes; inadmissible combinations are rejected. Exact Gaussian-integer correspondence for D = 1..3 incl. a malformed stream and the scipy specs themselves.',
  'note': 'Trusted: Coq kernel+vm_compute; scipy.signal convolve/correlate specs (Gallina definitions, checked against the real scipy each run). No axioms.',
  'technique': 'Coq proof (kernel operators + kernel_adjoint) + exact integer model/implementation correspondence',
  'design_ref': 'DESIGN.md §3 C08, notes/C06_C08.md',
 },
 'C09': {
  'text': "Coq theorems (unbounded in sizes, strides, shifts): the 1-D, 2-D and 3-D block kernels GENERATED from block.py compute the documented window / overlap-add sums and equal the N-D closed forms; nothing is written outside the box; resize's default window is exactly the centre-aligned copy set; every per-axis map has an inverse partial bijection. Hand models of the util functions and block wrappers are tied by exact correspondence on labelled integer arrays.",
  'note': 'Trusted: Coq kernel+vm_compute; translate_loops.py and LoopIR.exec as the reading of numba loops; numpy slicing/roll as modelled in Rearrange.v. No axioms.',
  'technique': 'Coq proof over generated loop-nest IR + exact model/implementation correspondence (vm_compute)',
 },
 'C10': {
  'text': "Coq theorems for any analysis/synthesis oracle pair (W, Wr) with Wr(W z) = z, <W a, W b> = <a, b>: crop(pad x) = x for any shape (odd lengths), iwt(fwt x) = x, ||fwt x|| = ||x||, iwt is the adjoint of fwt for arbitrary coefficient arrays, advertised coefficient shape = shape of W on the padded shape. The oracle hypotheses are validated on every run for all 75 orthogonal PyWavelets families (haar, db1-38, sym2-20, coif1-17) over shapes incl. odd and shorter-than-filter, axes subsets, levels None/1/2/3, real/complex; the wrapper (padding, crop, packing, dtype) is compared exactly with the model with pywt's own results passed in as data.",
  'note': "Trusted: Coq kernel+vm_compute; PyWavelets' orthogonality in mode='zero' (oracle, validated to 1e-7). No axioms.",
  'technique': 'Coq proof over an abstract orthonormal oracle + exact wrapper correspondence + per-wavelet oracle validation',
  'design_ref': 'DESIGN.md §3 C10, notes/C05_C10.md',
 },
 'C11': {
  'text': 'Coq theorems over R (real and complex elements in one generic proof): a point satisfying the prox variational inequality is THE strict minimiser; soft threshold (scalar/array lamda, any length) is that minimiser; hard threshold = documented map; clip, l2-ball (incl. boundary, zero), l-infinity (with bias) are Euclidean projections; the l1-ball sort/cumsum search returns theta >= 0 with sum(|y|-theta)+ = eps, which characterises the projection, feasible input returned unchanged; L2Reg closed form and proxh composition; Conj (Moreau), Stack (block separable), UnitaryTransform. PsdProj is the Frobenius projection onto the Hermitian PSD cone for matrices of any size, real and complex (given the eigh spec). Model mirrors thresh.py/prox.py line by line and is compared with the implementation on PrimFloat.',
  'note': 'Trusted: Coq kernel+vm_compute(PrimFloat), stdlib real-number axioms (sig_forall_dec, sig_not_dec, functional_extensionality_dep) as printed per theorem; numpy eigh/sort as oracles (the eigendecomposition the implementation used is checked against its spec inside Coq and passed in).',
  'technique': 'Coq proof over R of the prox variational inequalities + PrimFloat model/implementation correspondence',
  'design_ref': 'DESIGN.md §3 C11, notes/C11.md',
 },
 'C12': {
  'text': 'Coq theorems over an arbitrary real inner-product space (A self-adjoint, P absent or self-adjoint positive definite; complex Hermitian systems via the real embedding), for every k, max_iter, tol, x0, b: tracked residual r_k = b - A x_k while k < max_iter (and exactly what is stale after the final update); conjugacy of directions and P-orthogonality of residuals; x_k minimises phi over x0 + span{p_0..p_{k-1}} and over x0 + K_k(PA, P r0) (Krylov optimality), hence the A-norm error never increases; the exact solution is reached within n updates in dimension n (dimension hypothesis proved for R^n); breakdown (pAp <= 0) leaves the state unchanged with done() true, and for PD A happens only when solved. The state machine mirrors __init__/_update attribute by attribute and is compared after every update with the implementation on PrimFloat.',
  'note': "Trusted: Coq kernel+vm_compute(PrimFloat); stdlib real-number axioms as printed. 'Written into the caller's array' is checked dynamically (object identity + contents).",
  'technique': 'Coq proof over an abstract inner-product space (invariants by induction over updates) + PrimFloat trajectory correspondence',
  'design_ref': 'DESIGN.md §3 C12, notes/C12_C15.md',
 },
 'C13': {
  'text': 'Coq theorems over an abstract real inner-product space (any convex g with a variational-inequality prox, f with the descent and convexity inequalities, proved for 1/2||Ax-y||^2): ISTA quantitative descent for every alpha>0 and monotonicity for alpha*L<=2; O(1/k) rate; FISTA O(1/k^2) with the coded t-sequence and momentum coefficient (one-step potential + telescoping); resid=0 => fixed point and global minimiser (accelerated or not); PDHG saddle point <=> fixed point for scalar / diagonal / abstract steps, any theta, every gamma branch and along the accelerated schedules; Fejer monotonicity in the skewed pairing (x_k,u_{k+1}) under tau*sigma*||A||^2<=1 with summable step lengths. The update steps are one Gallina model run on PrimFloat against every iterate of the implementation.',
  'note': "Trusted: Coq kernel+vm_compute(PrimFloat); stdlib real-number axioms + functional extensionality as printed per theorem. Not proved (partial): convergence of the iterates to the minimiser, O(1/k^2) for accelerated PDHG, Fejer with array-valued steps (oracle only); in-place update of the caller's arrays is checked dynamically.",
  'technique': 'Coq proof over an abstract inner-product space + PrimFloat trajectory correspondence',
  'design_ref': 'DESIGN.md §3 C13, notes/C13.md',
 },
 'C14': {
  'text': "Coq theorems over an abstract real inner-product space (g an extended-real convex function given by its prox): the configuration logic `_get_alg` as a total decision function rejects exactly CG+proxg, GradientMethod+G and unknown solvers; for each branch the configured iteration solves the DOCUMENTED problem: CG system <=> stationarity <=> minimiser (and meets C12's hypotheses); GradientMethod fixed points = minimisers for any alpha; PDHG without G: fixed points = minimisers for all tau, sigma > 0; PDHG / ADMM with G: fixed points = KKT pairs (=> minimiser; converse given a multiplier). All 1152 configurations are constructed and their wiring compared exactly with the model's descriptor; configured data and first updates compared on PrimFloat; every accepted solver's objective compared with an independent optimum.",
  'note': 'Trusted: Coq kernel+vm_compute(PrimFloat); stdlib real-number axioms + funext. Partial: multiplier existence for g o G (chain rule) and convergence of PDHG/ADMM to the fixed point are not proved (the objective at the returned x is validated numerically against an independent optimum); complex data only through the numpy oracle.',
  'technique': 'Coq proof (fixed points of the configured iteration = minimisers) + exhaustive configuration correspondence + PrimFloat step correspondence',
  'design_ref': 'DESIGN.md §3 C14, notes/C14.md',
 },
 'C15': {
  'text': 'Coq theorems: `while not done: update` performs min(max_iter, first stopping k) updates and iter counts them, for every max_iter (0 and negative included) and any interleaving of extra done() calls; with tol = 0 an early stop is a genuine fixed point for GradientMethod (non-accelerated and, after the repair, accelerated — unconditional), CG (rz = 0 => solved) PDHG with scalar or array steps through the step-adaptation branches (resid = 0 => neither x nor u moved), NewtonsMethod and GerchbergSaxton (lamb = 0); power-iteration estimates are non-decreasing and <= L once normalised. The driver model must reproduce every done() answer, iter value and update count of 15 algorithm kinds under random interleavings.',
  'note': 'Trusted: Coq kernel+vm_compute; stdlib real-number axioms. GerchbergSaxton with lamb != 0 is checked by the oracle only.',
  'technique': 'Coq proof (state-machine induction) + exact history correspondence (counters, flags) + oracle on extra updates',
  'design_ref': 'DESIGN.md §3 C15, notes/C12_C15.md',
 },
 'C16': {
  'text': 'Coq theorems: for every batch size b >= 1 the coil-batched evaluation equals the explicit encoding y[c,k] = sqrt(w)[k] F(maps[c] x)[k] (forward), and the per-coil adjoint terms summed batch by batch (last batch partial) give the same image (chunked-sum lemma, any n, b); weighted least-squares identity. The operator tree returned by the Sense factory is compared exactly with the modelled factory tree for every coil_batch_size; explicit and batched encodings are evaluated in Coq against the implementation; recon apps checked for optimality numerically.',
  'note': 'Trusted: Coq kernel+vm_compute; hand model Sense.v/Linop.v; single-coil Fourier matrix measured on the implementation (FFT/NUFFT correctness is C05/C06). Recon optimality (SenseRecon normal equations, TV solver agreement) is validated numerically only; tseg/comm/transp_nufft outside the model. No axioms.',
  'technique': 'Coq proof (index algebra / chunked sums over any *-ring) + exact factory-tree correspondence + PrimFloat value correspondence',
 },
 'C17': {
  'text': 'Coq theorems over R for any per-voxel matrix, any start vector and any number >= 1 of normalised power iterations: unit l2 norm across coils; the phase reference keeps the norm and makes coil 0 real and >= 0; the crop multiplies by exactly 0 or 1, hence every voxel is unit-norm or exactly zero; eigenvalue estimate >= 0 (<= 1 from the second update under a contraction hypothesis: partial). The model reproduces `_output`, one PowerMethod update and whole voxels of the real EspiritCalib on PrimFloat.',
  'note': 'Trusted: Coq kernel+vm_compute(PrimFloat); stdlib real-number axioms. eig <= 1 needs AHA to be an l2 contraction (hypothesis; validated numerically); recovery of the true maps is validated numerically only (partial).',
  'technique': 'Coq proof over R + PrimFloat model/implementation correspondence',
  'design_ref': 'DESIGN.md §3 C17, notes/C17_C18.md',
 },
 'C18': {
  'text': "Coq theorems for EVERY stream of random draws and every fuel: mask entries are 0/1, ones are never erased, the calibration block is sampled, points are added only in range, the crop zeroes everything where the code's r >= 1; poisson returns only within tol and raises only outside it; the slope search strictly shrinks its interval on an abstract ordered float grid and terminates. The pure-Python kernel is replayed on its recorded random stream in Coq (mask compared exactly), the search on its own accelerations; end-to-end oracle with watchdog.",
  'note': "Trusted: Coq kernel+vm_compute(PrimFloat); floats modelled as an abstract finite ordered grid for termination; numba's private RNG (reproducibility / global RNG state checked at run time only: partial). Open known finding: with calib != 0 the crop keeps samples outside the TRUE inscribed ellipse (listed in known_findings.json).",
  'technique': 'Coq proof (state machine over arbitrary random streams) + exact stream-replay correspondence',
  'design_ref': 'DESIGN.md §3 C18, notes/C17_C18.md',
 },
 'C19': {
  'text': 'Coq theorems over R: SU(2) step identity and its product over ANY waveform; exact unitarity of abrm_hp, blochsim, abrm_ptx; exact product formula and bounds for abrm/abrm_nd with the epsilon regulariser; zero RF => b = 0; composition of back-to-back waveforms for abrm_nd, abrm_hp, blochsim (including the closing total-phase factor) and abrm_ptx; ab2rf inverts the forward hard-pulse (SLR) recursion for |theta_j| < pi with atan2/angle defined from atan; hard-pulse simulation of the designed pulse evaluates the forward SLR polynomials (|a| = |A|, |b| = |B|). One model over an ops record + trig oracle, run on PrimFloat with cos/sin tables keyed by the angle the model computes.',
  'note': "Trusted: Coq kernel+vm_compute(PrimFloat), stdlib real-number axioms; numpy cos/sin/exp values supplied as data. Partial: SLR realisability for arbitrary (A,B) on the unit circle, b2a/mag2mp minimum-phase numerics (validated numerically), abrm's length-dependent gradient (loop-level composition only).",
  'technique': 'Coq proof over R (induction over waveforms) + PrimFloat model/implementation correspondence',
  'design_ref': 'DESIGN.md §3 C19, notes/C19_C20.md',
 },
 'C20': {
  'text': 'Coq theorems over R for ALL area, gmax, dgdt, dt > 0 (triangle, trapezoid and boundary in one statement): trap_grad starts/ends at 0, sum*dt = area exactly, 0 <= w <= gmax, |dw| <= dgdt*dt; min_trap_grad likewise with the area under its flat top (>= 1 flat sample). The designer model is written once over an ops record, run on PrimFloat against the implementation.',
  'note': 'Trusted: Coq kernel+vm_compute(PrimFloat), stdlib real-number axioms (ceil via `up`); float rounding of ceil at exact integers (tolerance 1e-9). spokes_grad is checked by the numeric oracle only (restricted to spoke sets whose blips fit inside the slice lobe; see DESIGN.md findings).',
  'technique': 'Coq proof over R (lra/nra with a real ceiling) + PrimFloat model/implementation correspondence',
  'design_ref': 'DESIGN.md §3 C20, notes/C19_C20.md',
 },
}
