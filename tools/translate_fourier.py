#!/usr/bin/env python3
"""Fail-closed translator: sigpy/fourier.py (Python `ast`) -> Gallina, coq/gen/Gen_fourier.v.

From the SOURCE TEXT of fourier.py it regenerates, on every run, one Gallina definition per function

  part "fft"   (hand model coq/model/Fourier.v, property C05):
      _fftc, _ifftc -> gen__fftc, gen__ifftc            = fftc false / true
      fft, ifft     -> gen_fft, gen_ifft (values)       = fft_model false / true
                       gen_fft_dtype, gen_ifft_dtype    = fft_out_dtype          (the dtype rule)
  part "nufft" (hand model coq/model/Nufft.v + model/NufftExt.v, property C06):
      _get_oversamp_shape -> gen__get_oversamp_shape    = oversamp_shape
      _scale_coord        -> gen__scale_coord           = scale_coord
      _apodize            -> gen__apodize_factor, gen__apodize = apod_factor, apodize
      estimate_shape      -> gen_estimate_shape         = estimate_shape          (NufftExt.v)
      nufft               -> gen_nufft                  = nufft
      nufft_adjoint       -> gen_nufft_adjoint          = nufft_adjoint_opt (NufftExt.v); at `Some oshape` = nufft_adjoint
      toeplitz_psf        -> gen_toeplitz_psf           = toeplitz_psf            (NufftExt.v)

over the SAME abstract operations as the hand models (Section variables R C kern wt csqrt cpi csinh tw isc inv; numpy.fft stays
the oracle `fftn` / `fft_plain` of model/Fourier.v, interp.interpolate / gridding the wrappers of model/Interp.v, util.resize
the `resize` of model/Rearrange.v), each followed by a lemma `gen_<f>_ok : generated = hand model` proved by unfolding, case
analysis on the tests that occur and `reflexivity`.  Anything outside the accepted fragment raises TranslationError naming
the function and the source line (FAIL CLOSED).  See notes/translate_fourier.md for the fragment and the readings.

Entry points: translate_fourier(repo) -> text of gen/Gen_fourier.v (raises on any error); translate_parts(repo) -> per part
text / error; tie(ctx, part) for props/C05.py ("fft") and props/C06.py ("nufft"); tools/test_translate_fourier.py = self-test.
"""
import ast
import copy
import hashlib
import os
import re
import sys
from fractions import Fraction


class TranslationError(Exception):
    pass


SRC_REL = "sigpy/fourier.py"
UTIL_REL = "sigpy/util.py"
INTERP_REL = "sigpy/interp.py"

RESERVED = {"by", "at", "in", "as", "end", "fun", "let", "if", "then", "else", "with", "using", "return", "fix", "cofix",
            "match", "forall", "exists", "where", "for", "mod", "Set", "Prop", "Type", "IF", "R", "C", "idx", "n_ax", "k_ax",
            "dims", "ks", "e", "d", "kern", "wt", "csqrt", "cpi", "csinh", "tw", "isc", "inv", "fftn_dt", "axes_prod", "n_sh"}
PROTECTED = {"np", "util", "backend", "interp", "ceil", "range", "len", "int", "list", "tuple", "slice", "max", "min"}


def san(text):
    """Python source inside a Coq comment."""
    return " ".join(text.split()).replace("(*", "( *").replace("*)", "* )").replace('"', "'")      # Coq lexes strings inside comments


def zlit(n):
    return str(n) if n >= 0 else "(%d)" % n


# ---------------------------------------------------------------------------------------------
# symbolic values
# ---------------------------------------------------------------------------------------------
class V:
    """kind: Z NAT C LIT SHAPE OSHAPE OAXES AXES RANGE ARR CARR BOOL DBOOL NORM DTYPE NONE STR MOD DEVICE COL SLICES
    TUPLE AXVAR RES"""

    def __init__(self, kind, term=None, **kw):
        self.kind = kind
        self.term = term
        self.vec = False
        self.neg_of = None
        self.__dict__.update(kw)

    def __repr__(self):
        return "<%s %s>" % (self.kind, self.term)


class Buf:
    """the storage an array name refers to: current shape / value / dtype terms and what is known about aliasing"""

    def __init__(self, shape, term, dtype=None, owner="local", writable=True, forced=False, pending=False, pair=None,
                 maybe_alias=None, zeros=False, pname=None):
        self.shape, self.term, self.dtype = shape, term, dtype
        self.owner = owner              # "caller": an argument of the function being translated
        self.writable = writable        # caller's buffer that the function may update in place (its documented contract)
        self.forced = forced            # value is a table (parameter, forceA ...): no re-tabulation before an FFT / interpolation
        self.pending = pending          # index map (resize, shift) not yet tabulated
        self.pair = pair                # term of the (shape, values) pair this value is the second component of
        self.maybe_alias = maybe_alias  # buffer this one may or may not share memory with (util.resize, astype(copy=False))
        self.zeros = zeros
        self.pname = pname
        self.written = False
        self.poisoned = False


class Env:
    def __init__(self):
        self.locals = {}
        self.lines = []      # value lets of the current segment
        self.dlines = []     # dtype lets of the current segment
        self.counter = {}
        self.facts = {}

    def fork(self):
        e = copy.deepcopy(self)
        e.lines, e.dlines = [], []
        return e


class Tree:
    def __init__(self, kind, lines, dlines, **kw):
        self.kind, self.lines, self.dlines = kind, lines, dlines
        self.__dict__.update(kw)


def render(t, ind):
    out = [ind + x for x in t.lines]
    if t.kind == "leaf":
        out.append(ind + t.result)
    elif t.kind == "if":
        out.append(ind + "if %s then (   (* %s *)" % (t.cond, t.src))
        out += render(t.a, ind + "  ")
        out.append(ind + ") else (")
        out += render(t.b, ind + "  ")
        out.append(ind + ")")
    elif t.kind == "opt":
        out.append(ind + "match %s with   (* %s *)" % (t.scrut, t.src))
        out.append(ind + "| None =>")
        out += render(t.a, ind + "    ")
        out.append(ind + "| Some %s =>" % t.binder)
        out += render(t.b, ind + "    ")
        out.append(ind + "end")
    elif t.kind == "res":
        out.append(ind + "match %s with   (* %s *)" % (t.scrut, t.src))
        out.append(ind + "| Err e => Err e")
        out.append(ind + "| Ok %s =>" % t.pattern)
        out += render(t.a, ind + "    ")
        out.append(ind + "end")
    return out


def render_dtype(t, ind):
    """projection of the decision tree on the dtype: a test on values whose branches agree on the dtype disappears"""
    out = [ind + x for x in t.dlines]
    if t.kind == "leaf":
        out.append(ind + t.dresult)
        return out
    if t.kind == "res":
        return out + render_dtype(t.a, ind)
    a, b = render_dtype(t.a, ind + "  "), render_dtype(t.b, ind + "  ")
    if [x.strip() for x in a] == [x.strip() for x in b]:
        return out + [x[2:] for x in a]
    if t.kind == "if":
        return out + [ind + "if %s then (" % t.cond] + a + [ind + ") else ("] + b + [ind + ")"]
    return out + [ind + "match %s with" % t.scrut, ind + "| None =>"] + a + [ind + "| Some %s =>" % t.binder] + b + [ind + "end"]


# ---------------------------------------------------------------------------------------------
# one function
# ---------------------------------------------------------------------------------------------
ARITH = {ast.Add: "add", ast.Sub: "sub", ast.Mult: "mul", ast.Div: "div", ast.FloorDiv: "floordiv", ast.Mod: "mod", ast.Pow: "pow"}
ZFMT = {"add": "(%s + %s)", "sub": "(%s - %s)", "mul": "(%s * %s)", "floordiv": "(%s / %s)", "mod": "(%s mod %s)"}
CFMT = {"add": "(cadd %s %s)", "sub": "(csub %s %s)", "mul": "(cmul %s %s)", "div": "(cdiv %s %s)"}
DTYPES = {"complex64": "C64", "complex128": "C128", "float32": "F32", "float64": "F64"}
SCALARS = ("Z", "NAT", "C", "LIT")


class Fn:
    def __init__(self, mod, name):
        self.mod = mod
        self.name = name
        self.fn = mod.funcs[name]
        self.spec = SPECS[name]
        self.aux = []                 # auxiliary definitions emitted before the main one (text)
        self.partial = self.spec.get("partial", False)
        self.ret_alias = "unset"      # parameter whose buffer the returned array is (or None: a fresh array)
        self.stack = []               # remaining-statement lists (look-ahead of assignments)

    # ---- errors / naming -----------------------------------------------------------------------
    def err(self, node, msg):
        ln = getattr(node, "lineno", 0)
        seg = ""
        try:
            seg = ast.unparse(node) if isinstance(node, ast.AST) else ""
        except Exception:
            pass
        raise TranslationError("%s, fourier.py line %d: %s%s" % (self.name, ln, msg, (": `%s`" % " ".join(seg.split())[:160]) if seg else ""))

    def fresh(self, env, hint):
        hint = re.sub(r"[^A-Za-z0-9_]", "_", hint)
        k = env.counter.get(hint, 0) + 1
        env.counter[hint] = k
        return "%s_%d" % (hint, k)

    def let(self, env, hint, term, node, dtype=False):
        name = self.fresh(env, hint)
        cm = "   (* L%d: %s *)" % (node.lineno, san(ast.unparse(node))[:150]) if node is not None else ""
        (env.dlines if dtype else env.lines).append("let %s := %s in%s" % (name, term, cm))
        return name

    # ---- coercions -----------------------------------------------------------------------------
    def c_of(self, v, node):
        if v.kind == "C":
            return v.term
        if v.kind == "Z":
            return "(cofZ %s)" % v.term
        if v.kind == "NAT":
            return "(cofZ (Z.of_nat %s))" % v.term
        if v.kind == "LIT":
            if isinstance(v.lit, int):
                return "(cofZ %s)" % zlit(v.lit)
            fr = v.lit
            if fr.denominator == 1:
                return "(cofZ %s)" % zlit(fr.numerator)
            if abs(fr.numerator) >= 2 ** 53 or fr.denominator >= 2 ** 53:
                self.err(node, "float literal that is not a quotient of two exactly representable integers")
            return "(cdiv (cofZ %s) (cofZ %s))" % (zlit(fr.numerator), zlit(fr.denominator))   # correctly rounded quotient = the literal
        self.err(node, "a value of kind %s where a real scalar is expected" % v.kind)

    def z_of(self, v, node):
        if v.kind == "Z":
            return v.term
        if v.kind == "NAT":
            return "(Z.of_nat %s)" % v.term
        if v.kind == "LIT" and isinstance(v.lit, int):
            return zlit(v.lit)
        self.err(node, "a value of kind %s where a Python int is expected" % v.kind)

    @staticmethod
    def is_int(v):
        return v.kind in ("Z", "NAT") or (v.kind == "LIT" and isinstance(v.lit, int))

    def neg(self, v, node):
        if v.kind == "LIT":
            return V("LIT", lit=-v.lit)
        if v.neg_of is not None:
            return V("Z", v.neg_of, vec=v.vec)
        if self.is_int(v):
            t = self.z_of(v, node)
            r = V("Z", "(- %s)" % t, neg_of=t)
            r.vec = v.vec
            r.neg_nat = v.term if v.kind == "NAT" else None
            return r
        self.err(node, "unary minus on a real scalar (the models have no negation)")

    def arith(self, op, a, b, node):
        for v in (a, b):
            if v.kind not in SCALARS:
                self.err(node, "arithmetic on a value of kind %s" % v.kind)
        vec = a.vec or b.vec
        r = self._arith(op, a, b, node)
        r.vec = vec
        return r

    def _arith(self, op, a, b, node):
        if op == "pow":
            if b.kind == "LIT" and b.lit == 2 and a.kind == "C":
                return V("C", "(csq C %s)" % a.term)                         # e ** 2: the model's csq
            if b.kind == "LIT" and b.lit == Fraction(1, 2) and a.kind != "LIT":
                return V("C", "(csqrt %s)" % self.c_of(a, node))             # e ** 0.5: the sqrt oracle
            if b.kind == "NAT" and a.kind == "C":
                return V("C", "(cpow C %s %s)" % (a.term, b.term))           # float ** ndim
            if b.kind == "NAT" and self.is_int(a):
                return V("Z", "(%s ^ Z.of_nat %s)" % (self.z_of(a, node), b.term))
            self.err(node, "power other than `** 2`, `** 0.5`, `<scalar> ** ndim`")
        if a.kind == "LIT" and b.kind == "LIT":
            x, y = a.lit, b.lit
            try:
                val = {"add": lambda: x + y, "sub": lambda: x - y, "mul": lambda: x * y,
                       "div": lambda: Fraction(x) / Fraction(y), "floordiv": lambda: x // y, "mod": lambda: x % y}[op]()
            except ZeroDivisionError:
                self.err(node, "division by the literal zero")
            if isinstance(val, Fraction) and val.denominator == 1 and op != "div" and isinstance(x, int) and isinstance(y, int):
                val = int(val)
            return V("LIT", lit=val)
        if self.is_int(a) and self.is_int(b):
            if op == "div":                                                   # true division of ints gives a float
                return V("C", CFMT["div"] % (self.c_of(a, node), self.c_of(b, node)))
            return V("Z", ZFMT[op] % (self.z_of(a, node), self.z_of(b, node)))
        if op not in CFMT:
            self.err(node, "`//` or `%` on real scalars")
        return V("C", CFMT[op] % (self.c_of(a, node), self.c_of(b, node)))

    # ---- buffers -------------------------------------------------------------------------------
    def use(self, v, node):
        """value term of an array that is consumed by an operation (an index map is tabulated first)"""
        b = v.buf
        if b.poisoned:
            self.err(node, "array read after an in-place update of an array that may or may not share its memory")
        if b.pending:
            return "(forceA %s %s)" % (b.shape, b.term)
        return b.term

    def use_forced(self, v, node):
        """argument of fft / ifft / interpolate: tabulated unless it already is a table"""
        b = v.buf
        if b.forced and not b.pending:
            return self.use(v, node)
        if b.pending:
            return self.use(v, node)
        return "(forceA %s %s)" % (b.shape, self.use(v, node))

    def write(self, v, node):
        """an in-place update of the array v is about to happen"""
        b = v.buf
        if b.poisoned:
            self.err(node, "in-place update of an array whose value is no longer determined")
        chain, seen = b, set()
        while chain is not None and id(chain) not in seen:
            seen.add(id(chain))
            if chain.owner == "caller" and not chain.writable:
                self.err(node, "in-place update of an array of the caller (parameter `%s`%s)"
                         % (chain.pname, "" if chain is b else ", possibly through a view"))
            if chain is not b:
                chain.poisoned = True
            chain = chain.maybe_alias
        b.written = True
        b.pair = None
        b.zeros = False

    # ---- expressions ---------------------------------------------------------------------------
    def dotted(self, n, env):
        """`a.b.c` whose base is a module marker -> 'a.b.c' (else None)"""
        parts = []
        while isinstance(n, ast.Attribute):
            parts.append(n.attr)
            n = n.value
        if not isinstance(n, ast.Name):
            return None
        base = n.id
        if base in env.locals:
            v = env.locals[base]
            if v.kind != "MOD":
                return None
            base = v.term
        elif base not in self.mod.modules:
            return None
        return ".".join([base] + parts[::-1])

    def ev(self, n, env):
        if isinstance(n, ast.Constant):
            c = n.value
            if c is None:
                return V("NONE")
            if isinstance(c, bool):
                return V("BOOL", "true" if c else "false", lit=c)
            if isinstance(c, int):
                return V("LIT", lit=c)
            if isinstance(c, float):
                return V("LIT", lit=Fraction(repr(c)))
            if isinstance(c, str):
                return V("STR", s=c)
            if c is Ellipsis:
                return V("ELLIPSIS")
            self.err(n, "constant not understood")
        if isinstance(n, ast.Name):
            if n.id in env.locals:
                return env.locals[n.id]
            self.err(n, "unknown name (not a parameter, not assigned on this path)")
        if isinstance(n, ast.UnaryOp):
            if isinstance(n.op, ast.USub):
                return self.neg(self.ev(n.operand, env), n)
            if isinstance(n.op, ast.Not):
                v = self.ev(n.operand, env)
                if v.kind == "DBOOL":
                    return V("DBOOL", "(negb %s)" % v.term)
                if v.kind == "OPTTEST":
                    return V("OPTTEST", opt=v.opt, is_none=not v.is_none)
                self.err(n, "`not` of something that is not a dtype test")
            self.err(n, "unary operator not understood")
        if isinstance(n, ast.BoolOp):
            vals = [self.ev(x, env) for x in n.values]
            if all(v.kind == "DBOOL" for v in vals):
                op = " && " if isinstance(n.op, ast.And) else " || "
                t = vals[0].term
                for v in vals[1:]:
                    t = "(%s%s%s)" % (t, op, v.term)
                return V("DBOOL", t)
            self.err(n, "`and` / `or` of something other than dtype tests")
        if isinstance(n, ast.BinOp):
            if type(n.op) not in ARITH:
                self.err(n, "binary operator not understood")
            return self.binop(ARITH[type(n.op)], self.ev(n.left, env), self.ev(n.right, env), n)
        if isinstance(n, ast.Compare):
            return self.compare(n, env)
        if isinstance(n, ast.Attribute):
            return self.attribute(n, env)
        if isinstance(n, ast.Subscript):
            return self.subscript(n, env)
        if isinstance(n, ast.Call):
            return self.call(n, env)
        if isinstance(n, ast.ListComp):
            return self.listcomp(n, env)
        if isinstance(n, ast.List):
            return V("PYLIST", items=[self.ev(e, env) for e in n.elts])
        if isinstance(n, ast.Tuple):
            return V("TUPLE", items=[self.ev(e, env) for e in n.elts])
        self.err(n, "expression form not understood (%s)" % type(n).__name__)

    def binop(self, op, a, b, node):
        if a.kind in SCALARS and b.kind in SCALARS:
            return self.arith(op, a, b, node)
        if a.kind == "SHAPE" and b.kind == "SHAPE" and op == "add":
            return V("SHAPE", "(%s ++ %s)" % (a.term, b.term))             # list concatenation
        if a.kind == "PYLIST" and op == "mul" and len(a.items) == 1 and a.items[0].kind == "SLICEALL" \
                and b.kind == "Z" and getattr(b, "len_of", None):
            return V("SLICES", over=b.len_of, entries=None)                  # [slice(None)] * len(shape)
        if a.kind == "ARR" and b.kind in SCALARS and op == "mul":
            return self.arr_scale(a, b, False, node)
        if b.kind == "ARR" and a.kind in SCALARS and op == "mul":
            return self.arr_scale(b, a, False, node)
        if a.kind == "ARR" and b.kind in SCALARS and op == "div":
            return self.arr_scale(a, b, True, node)
        self.err(node, "operator `%s` between values of kind %s and %s" % (op, a.kind, b.kind))

    def scal_term(self, arr_term, s, divide, node):
        c = self.c_of(s, node)
        if s.vec:
            self.err(node, "array combined with a per-axis vector outside the broadcast pattern")
        if divide:
            c = "(cdiv (cofZ 1) %s)" % c          # division of an array by a real scalar c = multiplication by wt (1 / c)
        return "(scal R C wt %s %s)" % (c, arr_term)

    def arr_scale(self, a, s, divide, node):
        b = a.buf
        nb = Buf(b.shape, self.scal_term(self.use(a, node), s, divide, node), dtype=b.dtype)
        return V("ARR", buf=nb)

    def compare(self, n, env):
        if len(n.ops) != 1:
            self.err(n, "chained comparison")
        op, l, r = n.ops[0], n.left, n.comparators[0]
        a, b = self.ev(l, env), self.ev(r, env)
        if isinstance(op, (ast.Is, ast.IsNot)) and b.kind == "NONE":
            if a.kind in ("OSHAPE", "OAXES"):
                return V("OPTTEST", opt=a, is_none=isinstance(op, ast.Is))
            if a.kind == "NONE":
                return V("STATIC", val=isinstance(op, ast.Is))
            if a.kind in ("SHAPE", "AXES", "RANGE"):
                return V("STATIC", val=isinstance(op, ast.IsNot))
            self.err(n, "`is None` on a value of kind %s" % a.kind)
        if isinstance(op, (ast.Eq, ast.NotEq)) and a.kind == "DTYPE" and b.kind == "DTYPE":
            t = "(gen_dtype_eqb %s %s)" % (a.term, b.term)
            return V("DBOOL", t if isinstance(op, ast.Eq) else "(negb %s)" % t)
        self.err(n, "comparison not understood")

    def attribute(self, n, env):
        d = self.dotted(n, env)
        if d is not None:
            if d == "np.pi":
                return V("C", "cpi")
            m = re.fullmatch(r"(?:np|xp)\.(complex64|complex128|float32|float64)", d)
            if m:
                return V("DTYPE", DTYPES[m.group(1)])
            if d == "np.complexfloating":
                return V("DTCLASS", "complexfloating")
            return V("FUNC", d)
        v = self.ev(n.value, env)
        if v.kind in ("ARR", "CARR"):
            b = v.buf
            if n.attr == "shape":
                return V("SHAPE", b.shape, of=v)
            if n.attr == "ndim":
                return V("Z", "(Z.of_nat (length %s))" % b.shape)
            if n.attr == "dtype":
                if v.kind == "ARR" and b.dtype is not None:
                    return V("DTYPE", b.dtype)
                return V("DTYPE_UNTRACKED", of=v)
            return V("METHOD", n.attr, of=v)
        if v.kind in ("COL", "C") and n.attr in ("max", "min", "reshape"):
            return V("METHOD", n.attr, of=v)
        self.err(n, "attribute not understood")

    def subscript(self, n, env):
        v = self.ev(n.value, env)
        s = n.slice
        if v.kind == "SHAPE":
            if isinstance(s, ast.Slice):
                if s.step is not None:
                    self.err(n, "slice with a step")
                if s.lower is None and s.upper is not None:
                    u = self.ev(s.upper, env)
                    if getattr(u, "neg_nat", None):
                        return V("SHAPE", "(droplast %s %s)" % (u.neg_nat, v.term))          # shape[:-ndim]  (ndim >= 1)
                    if self.is_int(u):
                        return V("SHAPE", "(py_upto %s %s)" % (v.term, self.z_of(u, n)))     # shape[:stop]
                if s.upper is None and s.lower is not None:
                    lo = self.ev(s.lower, env)
                    if getattr(lo, "neg_nat", None):
                        return V("SHAPE", "(lastn %s %s)" % (lo.neg_nat, v.term))            # shape[-ndim:]  (ndim >= 1)
                self.err(n, "slice of a shape other than [:-ndim], [-ndim:], [:stop]")
            i = self.ev(s, env)
            if i.kind == "LIT" and i.lit == -1 and getattr(v, "of", None) is not None and v.of.kind == "CARR":
                return V("NAT", "(Z.to_nat (last %s 0))" % v.term, lastdim_of=v.term)        # coord.shape[-1]
            if i.kind == "AXVAR":
                return self.axis_entry(v, i, n)
            self.err(n, "subscript of a shape not understood")
        if v.kind == "CARR" and isinstance(s, ast.Tuple) and len(s.elts) == 2 \
                and isinstance(s.elts[0], ast.Constant) and s.elts[0].value is Ellipsis:
            i = self.ev(s.elts[1], env)
            if i.kind == "Z" and getattr(i, "compvar", False):
                return V("COL", "(ccol C %s %s %s)" % (v.buf.shape, v.buf.term, i.term))       # coord[..., i]
            self.err(n, "coord[..., i] with i not the variable of a comprehension over range(ndim)")
        self.err(n, "subscript not understood")

    def axis_entry(self, shp, ax, node):
        """shape[i] / array.shape[a] for the variable of a loop over the last ndim axes"""
        st = ax.state
        if st["mode"] == "bcast":
            arr = getattr(shp, "of", None)
            if arr is None or arr.kind != "ARR" or arr.buf is not st["target"].buf:
                self.err(node, "shape[a] of something other than the array the loop multiplies")
            return V("Z", "n_ax")
        if st.get("dims") not in (None, shp.term):
            self.err(node, "two different shapes indexed by the loop variable")
        st["dims"] = shp.term
        return V("Z", "n_sh")

    def listcomp(self, n, env):
        if len(n.generators) != 1:
            self.err(n, "comprehension with several generators")
        g = n.generators[0]
        if g.ifs or g.is_async or not isinstance(g.target, ast.Name):
            self.err(n, "comprehension form not understood")
        var = g.target.id
        if var in RESERVED or var in PROTECTED or var in self.spec["pnames"] or re.fullmatch(r".*_\d+", var):
            self.err(n, "comprehension variable `%s` clashes with the generated text" % var)
        it = self.ev(g.iter, env)
        if it.kind == "SHAPE":
            dom = it.term
        elif it.kind == "RANGE" and it.step == 1:
            dom = "(zrange %s %s 1)" % (it.lo, it.hi)
        else:
            self.err(n, "comprehension over something other than a shape or an ascending range")
        sub = env.fork()
        sub.locals = dict(env.locals)
        sub.locals[var] = V("Z", var, compvar=True)
        e = self.ev(n.elt, sub)
        if sub.lines:
            self.err(n, "comprehension element with assignments")
        if not self.is_int(e):
            self.err(n, "comprehension whose element is not a Python int")
        return V("SHAPE", "(map (fun %s => %s) %s)" % (var, self.z_of(e, n), dom))

    # ---- calls ---------------------------------------------------------------------------------
    def bind(self, n, sig, what):
        """sig: [(name, default AST or None-object REQUIRED)] -> {name: AST node}"""
        out = {}
        if len(n.args) > len(sig):
            self.err(n, "too many positional arguments for %s" % what)
        for a, (nm, _) in zip(n.args, sig):
            if isinstance(a, ast.Starred):
                self.err(n, "starred argument")
            out[nm] = a
        names = [nm for nm, _ in sig]
        for k in n.keywords:
            if k.arg is None or k.arg not in names or k.arg in out:
                self.err(n, "keyword argument `%s` of %s not understood" % (k.arg, what))
            out[k.arg] = k.value
        for nm, dflt in sig:
            if nm not in out:
                if dflt is REQUIRED:
                    self.err(n, "argument `%s` of %s missing" % (nm, what))
                out[nm] = dflt
        return out

    def opt_term(self, v, node, what):
        """option (list Z) argument: None / an optional parameter passed through / a list / a range"""
        if v.kind == "NONE":
            return "None"
        if v.kind in ("OSHAPE", "OAXES"):
            return v.term
        if v.kind == "SHAPE":
            return "(Some %s)" % v.term
        if v.kind == "RANGE":
            if v.step == 1:
                return "(Some (zrange %s %s 1))" % (v.lo, v.hi)
            return "(Some (map Z.opp (zrange %s %s 1)))" % (v.nlo, v.nhi)       # range(a, b, -1) = -(range(-a, -b))
        self.err(node, "%s is neither None, an optional parameter, a list of ints nor a range" % what)

    def ortho_term(self, v, node):
        if v.kind == "NORM":
            return v.term
        if v.kind == "NONE":
            return "false"
        if v.kind == "STR" and v.s == "ortho":
            return "true"
        self.err(node, "norm is neither None, \"ortho\" nor the norm parameter")

    def call(self, n, env):
        f = n.func
        if isinstance(f, ast.Name) and f.id not in env.locals:
            if f.id in self.mod.funcs and f.id in SPECS:
                return self.call_sigpy(f.id, n, env)
            return self.call_builtin(f.id, n, env)
        if isinstance(f, ast.Attribute):
            d = self.dotted(f, env)
            if d is not None:
                return self.call_lib(d, n, env)
            m = self.ev(f, env)
            if m.kind == "METHOD":
                return self.call_method(m, n, env)
        self.err(n, "call not understood")

    def noargs(self, n, k, what):
        if n.keywords or len(n.args) != k or any(isinstance(a, ast.Starred) for a in n.args):
            self.err(n, "%s takes %d positional argument(s) here" % (what, k))
        return [x for x in n.args]

    def call_builtin(self, name, n, env):
        if name == "ceil" and self.mod.ceil_is_math:
            (a,) = self.noargs(n, 1, "ceil")
            v = self.ev(a, env)
            if v.kind != "C":
                self.err(n, "ceil of something that is not a float")
            r = V("Z", "(cceil %s)" % v.term)                                   # math.ceil: the integer
            r.vec = v.vec
            return r
        if name == "int":
            (a,) = self.noargs(n, 1, "int")
            v = self.ev(a, env)
            if v.kind == "C":
                return V("Z", "(ctrunc C %s)" % v.term)                           # truncation toward zero
            if self.is_int(v):
                return v
            self.err(n, "int() of a value of kind %s" % v.kind)
        if name == "len":
            (a,) = self.noargs(n, 1, "len")
            v = self.ev(a, env)
            if v.kind != "SHAPE":
                self.err(n, "len of something that is not a shape")
            return V("Z", "(Z.of_nat (length %s))" % v.term, len_of=v.term)
        if name == "list":
            (a,) = self.noargs(n, 1, "list")
            v = self.ev(a, env)
            if v.kind != "SHAPE":
                self.err(n, "list() of something that is not a shape")
            return V("SHAPE", v.term)
        if name == "tuple":
            (a,) = self.noargs(n, 1, "tuple")
            v = self.ev(a, env)
            if v.kind in ("SHAPE", "RANGE", "SLICES"):
                return v
            self.err(n, "tuple() of a value of kind %s" % v.kind)
        if name == "slice":
            (a,) = self.noargs(n, 1, "slice")
            if self.ev(a, env).kind != "NONE":
                self.err(n, "slice other than slice(None)")
            return V("SLICEALL")
        if name == "range":
            if n.keywords or not 1 <= len(n.args) <= 3:
                self.err(n, "range form not understood")
            vs = [self.ev(a, env) for a in n.args]
            if not all(self.is_int(v) for v in vs):
                self.err(n, "range of non-integers")
            if len(vs) == 1:
                vs = [V("LIT", lit=0), vs[0]]
            step = 1
            if len(vs) == 3:
                if vs[2].kind != "LIT" or vs[2].lit not in (1, -1):
                    self.err(n, "range step other than 1 / -1")
                step = vs[2].lit
            r = V("RANGE", lo=self.z_of(vs[0], n), hi=self.z_of(vs[1], n), step=step, lo_v=vs[0], hi_v=vs[1])
            if step == -1:
                r.nlo, r.nhi = self.z_of(self.neg(vs[0], n), n), self.z_of(self.neg(vs[1], n), n)
            return r
        self.err(n, "call of `%s` not understood" % name)

    def call_method(self, m, n, env):
        v = m.of
        if m.term == "copy" and v.kind in ("ARR", "CARR"):
            self.noargs(n, 0, ".copy()")
            b = v.buf
            if b.poisoned:
                self.err(n, "copy of an array whose value is no longer determined")
            nb = Buf(b.shape, b.term, dtype=b.dtype, forced=b.forced, pending=b.pending, pair=b.pair, zeros=b.zeros)
            return V(v.kind, buf=nb)                                              # a copy: same values, fresh memory
        if m.term == "astype" and v.kind == "ARR":
            a = self.bind(n, [("dtype", REQUIRED), ("copy", ast.Constant(True))], ".astype")
            dt = self.ev(a["dtype"], env)
            cp = self.ev(a["copy"], env)
            if dt.kind != "DTYPE" or cp.kind != "BOOL" or not hasattr(cp, "lit"):
                self.err(n, ".astype(<dtype>[, copy=<literal>]) expected")
            b = v.buf
            if b.dtype is None:
                self.err(n, ".astype in a function whose dtypes are not modelled")
            nb = Buf(b.shape, b.term, dtype=dt.term, forced=b.forced, pending=b.pending, pair=b.pair,
                     maybe_alias=None if cp.lit else b)                           # a cast is the identity on the model's values
            return V("ARR", buf=nb)
        if m.term in ("max", "min") and v.kind == "COL":
            self.noargs(n, 0, "." + m.term)
            return V("C", "(%s C %s)" % ("cmaxl" if m.term == "max" else "cminl", v.term))
        self.err(n, "method `.%s` not understood on a value of kind %s" % (m.term, v.kind))

    def arr_arg(self, node, env, what, kind="ARR"):
        v = self.ev(node, env)
        if v.kind != kind:
            self.err(node, "%s: a value of kind %s where %s is expected" % (what, v.kind, "an array" if kind == "ARR" else "a coordinate array"))
        if v.buf.poisoned:
            self.err(node, "array read after an in-place update of an array that may or may not share its memory")
        return v

    def call_lib(self, d, n, env):
        if d == "backend.get_array_module":
            (a,) = self.noargs(n, 1, d)
            if self.ev(a, env).kind not in ("ARR", "CARR"):
                self.err(n, "get_array_module of something that is not an array")
            return V("MOD", "xp")
        if d == "backend.get_device":
            (a,) = self.noargs(n, 1, d)
            if self.ev(a, env).kind not in ("ARR", "CARR"):
                self.err(n, "get_device of something that is not an array")
            return V("DEVICE")
        if d == "np.issubdtype":
            a, c = [self.ev(x, env) for x in self.noargs(n, 2, d)]
            if a.kind != "DTYPE":
                self.err(n, "np.issubdtype of something that is not the dtype of a modelled array")
            if c.kind == "DTCLASS":
                return V("DBOOL", "(is_complex %s)" % a.term)
            if c.kind == "DTYPE":
                return V("DBOOL", "(gen_dtype_eqb %s %s)" % (a.term, c.term))     # a concrete dtype has no proper sub-dtypes
            self.err(n, "np.issubdtype against something other than np.complexfloating / a concrete dtype")
        if d == "util._normalize_axes":
            a, nd = [self.ev(x, env) for x in self.noargs(n, 2, d)]
            if a.kind != "OAXES" or not self.is_int(nd):
                self.err(n, "util._normalize_axes(<axes parameter>, <int>) expected")
            return V("AXES", "(normalize_axes_sorted %s %s)" % (a.term, self.z_of(nd, n)))
        if d == "util.prod":
            (a,) = self.noargs(n, 1, d)
            v = self.ev(a, env)
            if v.kind != "SHAPE":
                self.err(n, "util.prod of something that is not a shape")
            return V("Z", "(prodZ %s)" % v.term)
        if d == "util.resize":
            a, s = self.noargs(n, 2, d)
            v, sh = self.arr_arg(a, env, d), self.ev(s, env)
            if sh.kind != "SHAPE":
                self.err(n, "util.resize to something that is not a list of ints (an optional shape must be resolved first)")
            b = v.buf
            nb = Buf(sh.term, "(resize %s %s None None %s)" % (b.shape, sh.term, self.use(v, n)), dtype=b.dtype, pending=True, maybe_alias=b)
            return V("ARR", buf=nb)
        if d in ("xp.fft.ifftshift", "xp.fft.fftshift"):
            a = self.bind(n, [("x", REQUIRED), ("axes", REQUIRED)], d)
            v, ax = self.arr_arg(a["x"], env, d), self.ev(a["axes"], env)
            if ax.kind != "AXES":
                self.err(n, "%s over axes that are not the result of util._normalize_axes" % d)
            b = v.buf
            g = "g_ifftshift" if d.endswith("ifftshift") else "g_fftshift"
            nb = Buf(b.shape, "(shiftn %s %s %s %s)" % (b.shape, ax.term, g, self.use(v, n)), dtype=b.dtype, pending=True)
            return V("ARR", buf=nb)
        if d in ("xp.fft.fftn", "xp.fft.ifftn"):
            inv = "true" if d.endswith("ifftn") else "false"
            a = self.bind(n, [("a", REQUIRED), ("s", ast.Constant(None)), ("axes", ast.Constant(None)), ("norm", ast.Constant(None))], d)
            v, ax, s = self.arr_arg(a["a"], env, d), self.ev(a["axes"], env), self.ev(a["s"], env)
            ortho = self.ortho_term(self.ev(a["norm"], env), n)
            b = v.buf
            dt = None if b.dtype is None else "(fftn_dt %s)" % b.dtype              # whatever numpy returns: an oracle
            if ax.kind == "AXES" and s.kind == "NONE":
                nb = Buf(b.shape, "(fftn tw isc inv %s %s %s %s %s)" % (inv, ortho, b.shape, ax.term, self.use(v, n)), dtype=dt, forced=True)
                return V("ARR", buf=nb)
            if ax.kind in ("OAXES", "NONE", "RANGE") and s.kind in ("OSHAPE", "NONE", "SHAPE"):
                pair = "(fft_plain tw isc inv %s %s %s %s %s %s)" % (inv, ortho, b.shape, self.opt_term(s, n, "s"),
                                                                     self.opt_term(ax, n, "axes"), self.use(v, n))
                nb = Buf("(fst %s)" % pair, "(snd %s)" % pair, dtype=dt, forced=True, pair=pair)
                return V("ARR", buf=nb)
            self.err(n, "numpy fftn / ifftn with this combination of s / axes is not an operation of the model")
        if d in ("interp.interpolate", "interp.gridding"):
            return self.call_interp(d, n, env)
        if d == "xp.arange":
            a = self.bind(n, [("n", REQUIRED), ("dtype", ast.Constant(None))], d)
            v = self.ev(a["n"], env)
            dt = self.ev(a["dtype"], env)
            if v.kind != "Z" or v.term != "n_ax" or dt.kind not in ("NONE", "DTYPE", "DTYPE_UNTRACKED"):
                self.err(n, "xp.arange other than over the length of the current axis")
            r = V("Z", "k_ax")          # the index vector, entry k (integers stay integers through + - with ints)
            r.vec = True
            return r
        if d == "xp.sinh":
            (a,) = self.noargs(n, 1, d)
            v = self.ev(a, env)
            if v.kind != "C":
                self.err(n, "sinh of something that is not a real scalar / vector")
            r = V("C", "(csinh %s)" % v.term)
            r.vec = v.vec
            return r
        if d == "xp.zeros":
            a = self.bind(n, [("shape", REQUIRED), ("dtype", ast.Constant(None))], d)
            sh = self.ev(a["shape"], env)
            if sh.kind != "SHAPE" or self.ev(a["dtype"], env).kind not in ("DTYPE", "NONE"):
                self.err(n, "xp.zeros(<shape>, dtype=<dtype>) expected")
            return V("ARR", buf=Buf(sh.term, "(fun _ : list Z => (zero : R))", zeros=True))
        self.err(n, "call of `%s` not understood" % d)

    def call_interp(self, d, n, env):
        which = d.split(".")[1]
        sig = self.mod.interp_sigs[which]
        a = self.bind(n, sig, d)
        ker = self.ev(a["kernel"], env)
        if ker.kind != "STR" or ker.s != "kaiser_bessel":
            self.err(n, "interpolation kernel other than \"kaiser_bessel\" (the model's `kern`)")
        x, co = self.arr_arg(a["input"], env, d), self.arr_arg(a["coord"], env, d, "CARR")
        w, p = self.ev(a["width"], env), self.ev(a["param"], env)
        for s in (w, p):
            if s.kind not in SCALARS or s.vec:
                self.err(n, "width / param that is not a real scalar")
        wp = "(WScalar C %s) (WScalar C %s)" % (self.c_of(w, n), self.c_of(p, n))
        if which == "interpolate":
            t = "interpolate R C kern wt %s %s %s %s %s" % (x.buf.shape, co.buf.shape, co.buf.term, wp, self.use_forced(x, n))
            return V("RES", t, shape=None, has_shape=True)
        sh = self.ev(a["shape"], env)
        if sh.kind != "SHAPE":
            self.err(n, "gridding onto something that is not a list of ints")
        t = "gridding R C kern wt %s %s %s %s %s %s" % (x.buf.shape, co.buf.shape, sh.term, co.buf.term, wp, self.use(x, n))
        return V("RES", t, shape=sh.term, has_shape=False)

    def call_sigpy(self, name, n, env):
        """a call of another function of fourier.py: the generated definition of the callee, applied"""
        callee = self.mod.done.get(name)
        if callee is None:
            self.err(n, "call of `%s`, which could not be translated before this function" % name)
        sp = SPECS[name]
        a = self.bind(n, self.mod.sig(name), name)
        g = sp["gen"]
        if name in ("_fftc", "_ifftc", "fft", "ifft"):
            x = self.arr_arg(a["input"], env, name)
            osh, ax = self.ev(a["oshape"], env), self.ev(a["axes"], env)
            ortho = self.ortho_term(self.ev(a["norm"], env), n)
            b = x.buf
            args = [ortho, b.shape, self.opt_term(osh, n, "oshape"), self.opt_term(ax, n, "axes")]
            if name in ("fft", "ifft"):
                c = self.ev(a["center"], env)
                if c.kind != "BOOL":
                    self.err(n, "center is not a bool")
                args = [c.term] + args
                xt = self.use_forced(x, n)
            else:
                xt = self.use(x, n)
            pair = "(%s %s %s)" % (g, " ".join(args), xt)
            shape = b.shape if osh.kind == "NONE" else osh.term if osh.kind == "SHAPE" else None
            dt = None
            if b.dtype is not None:
                dt = re.sub(r"\bd\b", lambda _m: b.dtype, callee["dtype_expr"])
                if not re.fullmatch(r"\([^()]*\)|\w+", dt):
                    dt = "(%s)" % dt
            if shape is None:
                nb = Buf("(fst %s)" % pair, "(snd %s)" % pair, dtype=dt, pair=pair)
            else:
                nb = Buf(shape, "(snd %s)" % pair, dtype=dt)
            return V("ARR", buf=nb)
        if name == "_get_oversamp_shape":
            s, nd, o = self.ev(a["shape"], env), self.ev(a["ndim"], env), self.ev(a["oversamp"], env)
            if s.kind != "SHAPE" or nd.kind != "NAT" or o.kind not in SCALARS:
                self.err(n, "_get_oversamp_shape(<shape>, <ndim>, <scalar>) expected")
            return V("SHAPE", "(%s %s %s %s)" % (g, s.term, nd.term, self.c_of(o, n)))
        if name == "_scale_coord":
            co, s, o = self.arr_arg(a["coord"], env, name, "CARR"), self.ev(a["shape"], env), self.ev(a["oversamp"], env)
            if s.kind != "SHAPE" or o.kind not in SCALARS:
                self.err(n, "_scale_coord(<coord>, <shape>, <scalar>) expected")
            if callee["writes"] or callee["ret_alias"] is not None:
                self.err(n, "_scale_coord no longer returns a fresh array")
            t = "(%s %s %s %s %s)" % (g, co.buf.shape, s.term, self.c_of(o, n), co.buf.term)
            return V("CARR", buf=Buf(co.buf.shape, t))
        if name == "_apodize":
            x = self.arr_arg(a["input"], env, name)
            nd = self.ev(a["ndim"], env)
            sc = [self.ev(a[k], env) for k in ("oversamp", "width", "beta")]
            if nd.kind != "NAT" or any(s.kind not in SCALARS or s.vec for s in sc):
                self.err(n, "_apodize(<array>, <ndim>, <scalar>, <scalar>, <scalar>) expected")
            b = x.buf
            t = "(%s %s %s %s %s)" % (g, b.shape, nd.term, " ".join(self.c_of(s, n) for s in sc), self.use(x, n))
            if callee["writes"] == {"input"} and callee["ret_alias"] == "input":
                return V("INPLACE", t, target=x)                 # updates its argument in place and returns it
            if not callee["writes"] and callee["ret_alias"] is None:
                return V("ARR", buf=Buf(b.shape, t, dtype=b.dtype))
            self.err(n, "_apodize neither updates its argument in place and returns it nor returns a fresh array")
        if name == "estimate_shape":
            co = self.arr_arg(a["coord"], env, name, "CARR")
            return V("SHAPE", "(%s %s %s)" % (g, co.buf.shape, co.buf.term))
        if name in ("nufft", "nufft_adjoint"):
            x, co = self.arr_arg(a["input"], env, name), self.arr_arg(a["coord"], env, name, "CARR")
            sc = [self.ev(a[k], env) for k in ("oversamp", "width")]
            if any(s.kind not in SCALARS or s.vec for s in sc):
                self.err(n, "oversamp / width that is not a real scalar")
            if callee["writes"] or callee["ret_alias"] is not None:
                self.err(n, "%s no longer leaves its arguments alone / returns a fresh array" % name)
            scs = " ".join(self.c_of(s, n) for s in sc)
            if name == "nufft":
                t = "%s %s %s %s %s %s" % (g, x.buf.shape, co.buf.shape, co.buf.term, scs, self.use(x, n))
            else:
                osh = self.ev(a["oshape"], env)
                t = "%s %s %s %s %s %s %s" % (g, x.buf.shape, co.buf.shape, self.opt_term(osh, n, "oshape"), co.buf.term, scs, self.use(x, n))
            return V("RES", t, shape=None, has_shape=True)
        self.err(n, "call of `%s` not understood" % name)

    # ---- statements ----------------------------------------------------------------------------
    @staticmethod
    def consumed_later(name, rest):
        """is the value bound to `name` read by a later statement other than a bare `return name`?"""
        for s in rest:
            if isinstance(s, ast.Return) and isinstance(s.value, ast.Name) and s.value.id == name:
                return False
            loads = stores = False
            for sub in ast.walk(s):
                if isinstance(sub, ast.Name) and sub.id == name:
                    if isinstance(sub.ctx, ast.Load):
                        loads = True
                    else:
                        stores = True
            if loads:
                return True
            if stores:
                return False
        return False

    def check_target(self, name, node):
        if name in PROTECTED or name in self.mod.modules or name in self.mod.funcs:
            self.err(node, "assignment to the name `%s` the reading relies on" % name)
        if not re.fullmatch(r"[A-Za-z_][A-Za-z0-9_]*", name):
            self.err(node, "identifier `%s` not usable in the generated text" % name)

    def rebound(self, v, term):
        r = copy.copy(v)
        r.term = term
        r.neg_of = None
        if hasattr(r, "neg_nat"):
            r.neg_nat = None
        return r

    def assign(self, env, name, v, node, rest):
        self.check_target(name, node)
        k = v.kind
        if k in ("MOD", "DEVICE", "LIT", "RANGE", "SLICES", "NONE", "OSHAPE", "OAXES", "NORM", "BOOL"):
            env.locals[name] = v
        elif k in ("C", "Z", "NAT", "SHAPE", "AXES"):
            if v.vec:
                self.err(node, "per-axis vector outside the broadcast loop")
            env.locals[name] = self.rebound(v, self.let(env, name, v.term, node))
        elif k == "CARR":
            if not isinstance(node.value, ast.Name):
                v.buf.term = self.let(env, name, v.buf.term, node)
            env.locals[name] = v
        elif k == "ARR":
            b = v.buf
            if not isinstance(node.value, ast.Name):                 # `output = input` is an alias: nothing to emit
                if b.pending and self.consumed_later(name, rest):
                    b.term = self.let(env, name, "(forceA %s %s)" % (b.shape, b.term), node)
                    b.pending, b.forced = False, True
                elif b.pair is not None and b.shape == "(fst %s)" % b.pair:
                    p = self.let(env, name, b.pair, node)
                    b.pair, b.shape, b.term = p, "(fst %s)" % p, "(snd %s)" % p
                else:
                    b.term = self.let(env, name, b.term, node)
            env.locals[name] = v
        elif k == "INPLACE":
            self.apply_inplace(env, v, node, name)
            env.locals[name] = v.target
        else:
            self.err(node, "a value of kind %s is assigned to a variable" % k)

    def apply_inplace(self, env, v, node, hint=None):
        t = v.target
        self.write(t, node)
        b = t.buf
        b.term = self.let(env, hint or b.pname or "output", v.term, node)
        b.pending, b.forced = False, False

    def name_of(self, v, env):
        for k, x in env.locals.items():
            if x is v:
                return k
        return "output"

    def aug(self, s, env):
        op = ARITH.get(type(s.op))
        if isinstance(s.target, ast.Name):
            if s.target.id not in env.locals:
                self.err(s, "augmented assignment to an unknown name")
            v = env.locals[s.target.id]
            r = self.ev(s.value, env)
            if v.kind == "ARR" and r.kind in SCALARS and op in ("mul", "div"):
                self.write(v, s)
                b = v.buf
                b.term = self.let(env, s.target.id, self.scal_term(self.use(v, s), r, op == "div", s), s)
                b.pending, b.forced = False, False
                return
            self.err(s, "in-place `%s=` between values of kind %s and %s" % (op, v.kind, r.kind))
        self.err(s, "augmented assignment target not understood")

    def opt_test(self, test, env):
        v = self.ev(test, env)
        if v.kind == "STATIC":
            return ("static", v.val)
        if v.kind == "BOOL":
            if hasattr(v, "lit"):
                return ("static", v.lit)
            if v.term in env.facts:
                return ("static", env.facts[v.term])
            return ("bool", v.term)
        if v.kind == "DBOOL":
            return ("dtype", v.term)
        if v.kind == "OPTTEST":
            return ("opt", v)
        self.err(test, "condition not understood")

    def join_dtype(self, s, cond, env):
        """`if <dtype test>: x = x.astype(..)`: the values do not depend on the test, the dtype does"""
        if s.orelse:
            self.err(s, "dtype test with an else branch")
        for st in s.body:
            ok = isinstance(st, ast.Assign) and len(st.targets) == 1 and isinstance(st.targets[0], ast.Name) \
                and isinstance(st.value, ast.Call) and isinstance(st.value.func, ast.Attribute) and st.value.func.attr == "astype" \
                and isinstance(st.value.func.value, ast.Name) and st.value.func.value.id == st.targets[0].id
            if not ok:
                self.err(st, "under a dtype test only `x = x.astype(..)` is understood (the values must not depend on the dtype)")
            nm = st.targets[0].id
            old = env.locals.get(nm)
            if old is None or old.kind != "ARR" or old.buf.dtype is None:
                self.err(st, "cast of something that is not a modelled array")
            new = self.ev(st.value, env)
            ob = old.buf
            d = self.let(env, "d", "if %s then %s else %s" % (cond, new.buf.dtype, ob.dtype), s, dtype=True)
            nb = Buf(ob.shape, ob.term, dtype=d, forced=ob.forced, pending=ob.pending, pair=ob.pair, maybe_alias=ob)
            env.locals[nm] = V("ARR", buf=nb)

    def run(self, stmts, env):
        stmts = list(stmts)
        while stmts:
            s = stmts.pop(0)
            if isinstance(s, ast.Pass) or (isinstance(s, ast.Expr) and isinstance(s.value, ast.Constant) and isinstance(s.value.value, str)):
                continue
            if isinstance(s, ast.With):
                if len(s.items) != 1 or s.items[0].optional_vars is not None or self.ev(s.items[0].context_expr, env).kind != "DEVICE":
                    self.err(s, "`with` other than `with backend.get_device(<array>):`")
                stmts = list(s.body) + stmts
                continue
            if isinstance(s, ast.Assign):
                if len(s.targets) != 1:
                    self.err(s, "multiple assignment targets")
                t = s.targets[0]
                if isinstance(t, ast.Name):
                    v = self.ev(s.value, env)
                    if v.kind == "RES":
                        return self.open_res(s, t.id, v, env, stmts)
                    self.assign(env, t.id, v, s, stmts)
                    continue
                if isinstance(t, ast.Subscript) and isinstance(t.value, ast.Name):
                    self.setitem(s, t, env)
                    continue
                self.err(s, "assignment target not understood")
            if isinstance(s, ast.AugAssign):
                self.aug(s, env)
                continue
            if isinstance(s, ast.Expr) and isinstance(s.value, ast.Call):
                v = self.ev(s.value, env)
                if v.kind == "INPLACE":
                    self.apply_inplace(env, v, s, self.name_of(v.target, env))
                elif v.kind not in ("ARR", "CARR", "SHAPE"):
                    self.err(s, "call statement not understood")
                continue                                              # the result of a pure call is dropped
            if isinstance(s, ast.For):
                self.loop(s, env)
                continue
            if isinstance(s, ast.If):
                c = self.opt_test(s.test, env)
                src = "L%d: if %s" % (s.lineno, san(ast.unparse(s.test))[:120])
                if c[0] == "static":
                    stmts = list(s.body if c[1] else s.orelse) + stmts
                    continue
                if c[0] == "dtype":
                    self.join_dtype(s, c[1], env)
                    continue
                lines, dlines = env.lines, env.dlines
                if c[0] == "bool":
                    e1, e2 = env.fork(), env.fork()
                    e1.facts[c[1]], e2.facts[c[1]] = True, False
                    return Tree("if", lines, dlines, cond=c[1], src=src,
                                a=self.run(list(s.body) + stmts, e1), b=self.run(list(s.orelse) + stmts, e2))
                ot = c[1]
                pname = [k for k, x in env.locals.items() if x is ot.opt]
                if len(pname) != 1:
                    self.err(s, "optional value tested is not a parameter")
                e1, e2 = env.fork(), env.fork()
                binder = "%s_v" % pname[0]
                e1.locals[pname[0]] = V("NONE")
                e2.locals[pname[0]] = V("SHAPE", binder)
                body_none, body_some = (s.body, s.orelse) if ot.is_none else (s.orelse, s.body)
                return Tree("opt", lines, dlines, scrut=ot.opt.term, binder=binder, src=src,
                            a=self.run(list(body_none) + stmts, e1), b=self.run(list(body_some) + stmts, e2))
            if isinstance(s, ast.Return):
                return self.leaf(s, env)
            self.err(s, "statement form not understood (%s)" % type(s).__name__)
        raise TranslationError("%s: a path ends without a return" % self.name)

    def open_res(self, s, name, v, env, rest):
        """binding the result of a partial operation: the rest of the function runs under `| Ok .. =>`"""
        if not self.partial:
            self.err(s, "a partial operation in a function the model treats as total")
        self.check_target(name, s)
        lines, dlines = env.lines, env.dlines
        sub = env.fork()
        nm = self.fresh(sub, name)
        if v.has_shape:
            sh = self.fresh(sub, "sh")
            pattern, shape = "(%s, %s)" % (sh, nm), sh
        else:
            pattern, shape = nm, v.shape
        sub.locals[name] = V("ARR", buf=Buf(shape, nm))
        src = "L%d: %s" % (s.lineno, san(ast.unparse(s))[:120])
        return Tree("res", lines, dlines, scrut=v.term, pattern=pattern, src=src, a=self.run(rest, sub))

    def leaf(self, s, env):
        if s.value is None:
            self.err(s, "return without a value")
        v = self.ev(s.value, env)
        kind = self.spec["ret"]
        dres = None
        if kind in ("pair", "arr"):
            if v.kind != "ARR":
                self.err(s, "the returned value is not an array")
            b = v.buf
            if b.poisoned:
                self.err(s, "the returned array's value is no longer determined")
            alias = b.pname if b.owner == "caller" else None
            chain = b.maybe_alias
            while chain is not None and alias is None:
                if chain.owner == "caller":
                    alias = "?" + str(chain.pname)
                chain = chain.maybe_alias
            if kind == "arr":
                res = b.term
            elif b.pair is not None and b.shape == "(fst %s)" % b.pair and b.term == "(snd %s)" % b.pair:
                res = b.pair
            else:
                res = "(%s, %s)" % (b.shape, b.term)
            dres = b.dtype
        elif kind == "carr":
            if v.kind != "CARR":
                self.err(s, "the returned value is not a coordinate array")
            b = v.buf
            alias = b.pname if b.owner == "caller" else None
            res = b.term
        else:
            if v.kind != "SHAPE":
                self.err(s, "the returned value is not a list of ints")
            alias, res = None, v.term
        if self.partial:
            res = "Ok %s" % res
        writes = set()
        for x in env.locals.values():
            if x.kind in ("ARR", "CARR"):
                chain, seen = x.buf, set()
                while chain is not None and id(chain) not in seen:
                    seen.add(id(chain))
                    if chain.owner == "caller" and chain.written:
                        writes.add(chain.pname)
                    chain = chain.maybe_alias
        eff = (alias, frozenset(writes))
        if self.ret_alias == "unset":
            self.ret_alias = eff
        elif self.ret_alias != eff:
            self.err(s, "paths disagree on which arrays are updated in place / returned")
        return Tree("leaf", env.lines, env.dlines, result=res + "   (* L%d: %s *)" % (s.lineno, san(ast.unparse(s))), dresult=dres)

    # ---- the three loop patterns over the last ndim axes --------------------------------------
    def setitem(self, s, t, env):
        """d[tuple(idx)] = 1 on a fresh array of zeros, idx = all batch positions x one entry per transformed axis"""
        d = env.locals.get(t.value.id)
        ix = self.ev(t.slice, env)
        r = self.ev(s.value, env)
        if d is None or d.kind != "ARR" or not d.buf.zeros or ix.kind != "SLICES" or ix.entries is None \
                or ix.over != d.buf.shape or r.kind != "LIT" or r.lit != 1:
            self.err(s, "item assignment other than `d[tuple(idx)] = 1` on a fresh array of zeros with idx the per-axis centre list")
        expr, nd = ix.entries
        self.write(d, s)
        term = "(fun idx => if zlist_eqb (lastn %s idx) (map (fun n_sh => %s) (lastn %s %s)) then one else zero)" % (nd, expr, nd, d.buf.shape)
        d.buf.term = self.let(env, t.value.id, term, s)

    def loop(self, s, env):
        if s.orelse or not isinstance(s.target, ast.Name):
            self.err(s, "loop form not understood")
        var = s.target.id
        self.check_target(var, s)
        rng = self.ev(s.iter, env)
        if rng.kind != "RANGE":
            self.err(s, "loop over something other than a range")
        for sub in ast.walk(s):
            if isinstance(sub, (ast.Break, ast.Continue, ast.Return, ast.For, ast.While, ast.If, ast.With, ast.Try)) and sub is not s:
                self.err(sub, "control flow inside a loop over the axes")
        # idx[k] = new_shape[k] // 2 for k in range(-1, -(ndim + 1), -1)
        if rng.step == -1:
            m = re.fullmatch(r"\(\(Z\.of_nat (\w+)\) \+ 1\)", rng.nhi)
            st0 = s.body[0] if len(s.body) == 1 else None
            if rng.nlo != "1" or not m or not any(x.kind == "NAT" and x.term == m.group(1) for x in env.locals.values()) or not (
                    isinstance(st0, ast.Assign) and len(st0.targets) == 1 and isinstance(st0.targets[0], ast.Subscript)
                    and isinstance(st0.targets[0].value, ast.Name) and isinstance(st0.targets[0].slice, ast.Name)
                    and st0.targets[0].slice.id == var):
                self.err(s, "descending loop other than `for k in range(-1, -(ndim + 1), -1): idx[k] = <expr of shape[k]>`")
            sl = env.locals.get(st0.targets[0].value.id)
            if sl is None or sl.kind != "SLICES" or sl.entries is not None:
                self.err(s, "the list indexed in the loop is not `[slice(None)] * len(shape)`")
            state = dict(mode="last", dims=None)
            sub = env.fork()
            sub.locals[var] = V("AXVAR", state=state)
            e = self.ev(st0.value, sub)
            if not self.is_int(e) or state["dims"] != sl.over or sub.lines:
                self.err(s, "per-axis index is not an integer expression of the entry of the same shape")
            new = V("SLICES", over=sl.over, entries=(self.z_of(e, s), m.group(1)))
            for k, x in list(env.locals.items()):
                if x is sl:
                    env.locals[k] = new
            return
        # ascending: for a in range(-ndim, 0)
        nd = getattr(rng.lo_v, "neg_nat", None)
        if rng.step != 1 or nd is None or rng.hi != "0":
            self.err(s, "loop other than `for a in range(-ndim, 0)`")
        ndv = [x for x in env.locals.values() if x.kind == "NAT" and x.term == nd]
        if not ndv:
            self.err(s, "loop bound is not the number of transformed axes")
        last = s.body[-1] if s.body else None
        if isinstance(last, ast.AugAssign) and isinstance(last.target, ast.Name):
            return self.loop_bcast(s, env, var, nd)
        return self.loop_last(s, env, var, nd, ndv[0])

    def loop_last(self, s, env, var, nd, ndv):
        """for i in range(-ndim, 0): output[..., i] op= <scalar of shape[i]>  --  entry idx sees the iteration of its LAST index"""
        tname = None
        for st in s.body:
            if isinstance(st, ast.AugAssign):
                t = st.target
                ok = isinstance(t, ast.Subscript) and isinstance(t.value, ast.Name) and isinstance(t.slice, ast.Tuple) \
                    and len(t.slice.elts) == 2 and isinstance(t.slice.elts[0], ast.Constant) and t.slice.elts[0].value is Ellipsis \
                    and isinstance(t.slice.elts[1], ast.Name) and t.slice.elts[1].id == var
                if not ok or tname not in (None, t.value.id):
                    self.err(st, "in-place update other than `<one coordinate array>[..., %s] op= <scalar>`" % var)
                tname = t.value.id
        tv = env.locals.get(tname) if tname else None
        if tv is None or tv.kind != "CARR":
            self.err(s, "loop over the axes that does not update a coordinate array")
        if getattr(ndv, "lastdim_of", None) != tv.buf.shape:
            self.err(s, "loop bound is not the last dimension of the coordinate array it updates")
        self.write(tv, s)
        state = dict(mode="last", dims=None)
        sub = env.fork()
        sub.locals = dict(env.locals)
        sub.locals[var] = V("AXVAR", state=state)
        cur = V("C", "(%s idx)" % tv.buf.term)
        for st in s.body:
            if isinstance(st, ast.Assign) and len(st.targets) == 1 and isinstance(st.targets[0], ast.Name):
                v = self.ev(st.value, sub)
                if v.kind not in ("C", "Z"):
                    self.err(st, "loop-local value that is not a scalar")
                self.check_target(st.targets[0].id, st)
                sub.locals[st.targets[0].id] = self.rebound(v, self.let(sub, st.targets[0].id, v.term, st))
            elif isinstance(st, ast.AugAssign):
                r = self.ev(st.value, sub)
                op = ARITH.get(type(st.op))
                if r.kind not in SCALARS or op not in CFMT:
                    self.err(st, "update of the coordinates by something that is not `+ - * /` with a scalar")
                cur = V("C", self.let(sub, tname, CFMT[op] % (cur.term, self.c_of(r, st)), st))
            else:
                self.err(st, "statement not understood inside the loop over the coordinate axes")
        inner = list(sub.lines)
        if state["dims"] is not None:
            inner.insert(0, "let n_sh := nth (Z.to_nat (last idx 0)) (lastn %s %s) 1 in" % (nd, state["dims"]))
        term = "(fun idx =>\n    " + "\n    ".join(inner + [cur.term]) + ")"
        tv.buf.term = self.let(env, tname, term, s)

    def loop_bcast(self, s, env, var, nd):
        """for a in range(-ndim, 0): i = X.shape[a]; v = f(arange(i)); X *= v.reshape([i] + [1] * (-a - 1))
        --  entry idx is multiplied by the product over the last ndim axes of v_axis[idx[axis]]"""
        last = s.body[-1]
        tname = last.target.id
        tv = env.locals.get(tname)
        if tv is None or tv.kind != "ARR" or not isinstance(last.op, ast.Mult):
            self.err(last, "the loop over the axes does not end in `<array> *= <vector>.reshape(..)`")
        self.write(tv, s)
        state = dict(mode="bcast", target=tv)
        sub = env.fork()
        sub.locals = {k: x for k, x in env.locals.items() if k in self.spec["pnames"] and x.kind in ("C", "NAT", "Z") or x.kind == "MOD" or x is tv}
        sub.locals[var] = V("AXVAR", state=state)
        sub.lines = []
        for st in s.body[:-1]:
            if isinstance(st, ast.Assign) and len(st.targets) == 1 and isinstance(st.targets[0], ast.Name):
                v = self.ev(st.value, sub)
                nm = st.targets[0].id
                self.check_target(nm, st)
                if v.kind == "Z" and v.term in ("n_ax", "k_ax"):
                    sub.locals[nm] = v
                elif v.kind in ("C", "Z"):
                    sub.locals[nm] = self.rebound(v, self.let(sub, nm, v.term, st))
                else:
                    self.err(st, "per-axis value that is not a scalar or a vector along the axis")
            elif isinstance(st, ast.AugAssign) and isinstance(st.target, ast.Name) and st.target.id in sub.locals:
                v, r = sub.locals[st.target.id], self.ev(st.value, sub)
                op = ARITH.get(type(st.op))
                if v.kind != "C" or r.kind not in SCALARS or op not in CFMT or v.term in self.spec["pnames"]:
                    self.err(st, "in-place update of a per-axis vector other than `+ - * /` with a scalar / vector")
                nv = self.rebound(v, self.let(sub, st.target.id, CFMT[op] % (v.term, self.c_of(r, st)), st))
                nv.vec = v.vec or r.vec
                sub.locals[st.target.id] = nv
            else:
                self.err(st, "statement not understood inside the loop over the broadcast axes")
        c = last.value
        ok = isinstance(c, ast.Call) and isinstance(c.func, ast.Attribute) and c.func.attr == "reshape" and not c.keywords and len(c.args) == 1 \
            and isinstance(c.func.value, ast.Name)
        if not ok:
            self.err(last, "the factor is not `<vector>.reshape([i] + [1] * (-a - 1))`")
        vec = sub.locals.get(c.func.value.id)
        want = ast.dump(ast.parse("[_] + [1] * (-%s - 1)" % var, mode="eval").body)
        sh = c.args[0]
        got = None
        if isinstance(sh, ast.BinOp) and isinstance(sh.left, ast.List) and len(sh.left.elts) == 1:
            first = self.ev(sh.left.elts[0], sub)
            probe = copy.deepcopy(sh)
            probe.left.elts[0] = ast.Name("_", ast.Load())
            got = ast.dump(probe)
            if first.kind != "Z" or first.term != "n_ax":
                got = None
        if vec is None or vec.kind != "C" or not vec.vec or got != want:
            self.err(last, "the factor is not a vector over the current axis reshaped to `[i] + [1] * (-%s - 1)` (broadcast along that axis)" % var)
        fp = self.spec["factor_params"]                         # [(name, kind)] : the scalar parameters, in signature order
        fname = self.spec["gen"] + "_factor"
        binders = " ".join("(%s : %s)" % (nm, "C" if kd == "C" else "nat") for nm, kd in fp)
        args = " ".join(nm for nm, _ in fp)
        self.aux.append(dict(name=fname, text="Definition %s %s (n_ax k_ax : Z) : C :=\n    %s." % (
            fname, binders, "\n    ".join(sub.lines + [vec.term])), args=args))
        term = ("(fun idx => mul ((fix axes_prod %s (dims ks : list Z) {struct dims} : R :=\n"
                "      match dims, ks with\n"
                "      | n_ax :: dims', k_ax :: ks' => mul (wt (%s %s n_ax k_ax)) (axes_prod %s dims' ks')\n"
                "      | _, _ => one\n"
                "      end) %s (lastn %s %s) (lastn %s idx)) (%s idx))") % (binders, fname, args, args, args, nd, tv.buf.shape, nd, self.use(tv, s))
        tv.buf.term = self.let(env, tname, term, s)
        tv.buf.pending, tv.buf.forced = False, False

    # ---- driver ----------------------------------------------------------------------------------
    def translate(self):
        sp = self.spec
        env = Env()
        for nm, kind, term in sp["params"]:
            if kind == "ARR":
                shape, val, dt = term
                env.locals[nm] = V("ARR", buf=Buf(shape, val, dtype=dt, owner="caller", writable=nm in sp.get("inplace", ()), forced=True, pname=nm))
            elif kind == "CARR":
                shape, val = term
                env.locals[nm] = V("CARR", buf=Buf(shape, val, owner="caller", writable=False, pname=nm))
            else:
                env.locals[nm] = V(kind, term)
        for node in ast.walk(self.fn):
            if isinstance(node, (ast.Global, ast.Nonlocal, ast.FunctionDef, ast.AsyncFunctionDef, ast.Lambda, ast.ClassDef,
                                 ast.Yield, ast.YieldFrom, ast.Await, ast.Try, ast.While, ast.Raise, ast.Delete, ast.Assert)) and node is not self.fn:
                raise TranslationError("%s, fourier.py line %d: %s not understood" % (self.name, node.lineno, type(node).__name__))
        tree = self.run(self.fn.body, env)
        alias, writes = self.ret_alias
        if alias is not None and alias.startswith("?"):
            if sp["ret"] in ("pair", "arr") and sp.get("may_return_view"):
                alias = None
            else:
                raise TranslationError("%s: the returned array may be a view of the parameter `%s`" % (self.name, alias[1:]))
        return dict(tree=tree, ret_alias=alias, writes=set(writes), aux=self.aux)


# ---------------------------------------------------------------------------------------------
# what is translated, against what
# ---------------------------------------------------------------------------------------------
REQUIRED = object()
FFT_SIG = [("input", REQUIRED), ("oshape", None), ("axes", None), ("norm", "ortho")]
FFT_PARAMS = [("input", "ARR", ("ishape", "input", "d")), ("oshape", "OSHAPE", "oshape"), ("axes", "OAXES", "axes"), ("norm", "NORM", "ortho")]
FFT_BIND = "(ishape : list Z) (oshape axes : option (list Z)) (input : farr)"
NUFFT_COMMON = ["gen__get_oversamp_shape", "oversamp_shape", "os_len", "gen__apodize", "apodize", "apod_w", "gen__apodize_factor",
                "apod_factor", "apod_arg", "gen__scale_coord", "scale_coord", "scale1", "coord_scale", "coord_shift", "beta_of",
                "fft_axes", "fftc"]

SPECS = {
    "_fftc": dict(gen="gen__fftc", part="fft", ret="pair", sig=FFT_SIG, params=FFT_PARAMS,
                  binders="(ortho : bool) " + FFT_BIND, rtype="list Z * farr", args="ortho ishape oshape axes input",
                  hand="fftc tw isc inv false ortho ishape oshape axes input", unfold=["fftc"]),
    "_ifftc": dict(gen="gen__ifftc", part="fft", ret="pair", sig=FFT_SIG, params=FFT_PARAMS,
                   binders="(ortho : bool) " + FFT_BIND, rtype="list Z * farr", args="ortho ishape oshape axes input",
                   hand="fftc tw isc inv true ortho ishape oshape axes input", unfold=["fftc"]),
    "fft": dict(gen="gen_fft", part="fft", ret="pair", sig=FFT_SIG[:3] + [("center", True), ("norm", "ortho")],
                params=FFT_PARAMS[:3] + [("center", "BOOL", "center"), ("norm", "NORM", "ortho")],
                binders="(center ortho : bool) " + FFT_BIND, rtype="list Z * farr", args="center ortho ishape oshape axes input",
                hand="fft_model tw isc inv false center ortho ishape oshape axes input", unfold=["gen__fftc", "fft_model", "fftc"],
                dtype_def=True, may_return_view=True),
    "ifft": dict(gen="gen_ifft", part="fft", ret="pair", sig=FFT_SIG[:3] + [("center", True), ("norm", "ortho")],
                 params=FFT_PARAMS[:3] + [("center", "BOOL", "center"), ("norm", "NORM", "ortho")],
                 binders="(center ortho : bool) " + FFT_BIND, rtype="list Z * farr", args="center ortho ishape oshape axes input",
                 hand="fft_model tw isc inv true center ortho ishape oshape axes input", unfold=["gen__ifftc", "fft_model", "fftc"],
                 dtype_def=True, may_return_view=True),
    "_get_oversamp_shape": dict(gen="gen__get_oversamp_shape", part="nufft", ret="shape",
                                sig=[("shape", REQUIRED), ("ndim", REQUIRED), ("oversamp", REQUIRED)],
                                params=[("shape", "SHAPE", "shape"), ("ndim", "NAT", "ndim"), ("oversamp", "C", "oversamp")],
                                binders="(shape : list Z) (ndim : nat) (oversamp : C)", rtype="list Z", args="shape ndim oversamp",
                                hand="oversamp_shape C shape ndim oversamp", unfold=["oversamp_shape", "os_len"]),
    "_scale_coord": dict(gen="gen__scale_coord", part="nufft", ret="carr",
                         sig=[("coord", REQUIRED), ("shape", REQUIRED), ("oversamp", REQUIRED)],
                         params=[("coord", "CARR", ("cshape", "coord")), ("shape", "SHAPE", "shape"), ("oversamp", "C", "oversamp")],
                         binders="(cshape shape : list Z) (oversamp : C) (coord : list Z -> C)", rtype="list Z -> C",
                         args="cshape shape oversamp coord", hand="scale_coord C cshape shape oversamp coord",
                         unfold=["scale_coord", "scale1", "coord_scale", "coord_shift", "os_len"]),
    "_apodize": dict(gen="gen__apodize", part="nufft", ret="arr", inplace=("input",),
                     sig=[("input", REQUIRED), ("ndim", REQUIRED), ("oversamp", REQUIRED), ("width", REQUIRED), ("beta", REQUIRED)],
                     params=[("input", "ARR", ("shape", "input", None)), ("ndim", "NAT", "ndim"), ("oversamp", "C", "oversamp"),
                             ("width", "C", "width"), ("beta", "C", "beta")],
                     factor_params=[("oversamp", "C"), ("width", "C"), ("beta", "C")],
                     factor_hand="apod_factor C csqrt cpi csinh oversamp width beta n_ax k_ax", factor_unfold=["apod_factor", "apod_arg", "os_len"],
                     binders="(shape : list Z) (ndim : nat) (oversamp width beta : C) (input : farr)", rtype="farr",
                     args="shape ndim oversamp width beta input", hand="apodize R C wt csqrt cpi csinh shape ndim oversamp width beta input",
                     unfold=["apodize", "apod_w", "gen__apodize_factor", "apod_factor", "apod_arg", "os_len"]),
    "estimate_shape": dict(gen="gen_estimate_shape", part="nufft", ret="shape", sig=[("coord", REQUIRED)],
                           params=[("coord", "CARR", ("cshape", "coord"))], binders="(cshape : list Z) (coord : list Z -> C)",
                           rtype="list Z", args="cshape coord", hand="estimate_shape C cshape coord", unfold=["estimate_shape"]),
    "nufft": dict(gen="gen_nufft", part="nufft", ret="pair", partial=True,
                  sig=[("input", REQUIRED), ("coord", REQUIRED), ("oversamp", 1.25), ("width", 4)],
                  params=[("input", "ARR", ("ishape", "input", None)), ("coord", "CARR", ("cshape", "coord")), ("oversamp", "C", "oversamp"),
                          ("width", "C", "width")],
                  binders="(ishape cshape : list Z) (coord : list Z -> C) (oversamp width : C) (input : farr)",
                  rtype="result (list Z * farr)", args="ishape cshape coord oversamp width input",
                  hand="nufft R C kern wt csqrt cpi csinh tw isc inv ishape cshape coord oversamp width input",
                  unfold=["nufft", "gen_fft", "gen__fftc"] + NUFFT_COMMON),
    "nufft_adjoint": dict(gen="gen_nufft_adjoint", part="nufft", ret="pair", partial=True,
                          sig=[("input", REQUIRED), ("coord", REQUIRED), ("oshape", None), ("oversamp", 1.25), ("width", 4)],
                          params=[("input", "ARR", ("in_shape", "input", None)), ("coord", "CARR", ("cshape", "coord")),
                                  ("oshape", "OSHAPE", "oshape"), ("oversamp", "C", "oversamp"), ("width", "C", "width")],
                          binders="(in_shape cshape : list Z) (oshape : option (list Z)) (coord : list Z -> C) (oversamp width : C) (input : farr)",
                          rtype="result (list Z * farr)", args="in_shape cshape oshape coord oversamp width input",
                          hand="nufft_adjoint_opt R C kern wt csqrt cpi csinh tw isc inv in_shape cshape oshape coord oversamp width input",
                          unfold=["nufft_adjoint_opt", "adjoint_oshape", "nufft_adjoint", "gen_ifft", "gen__ifftc", "gen_estimate_shape",
                                  "estimate_shape"] + NUFFT_COMMON,
                          extra=("  Lemma gen_nufft_adjoint_some_ok : forall in_shape cshape oshape coord oversamp width input,\n"
                                 "    gen_nufft_adjoint in_shape cshape (Some oshape) coord oversamp width input =\n"
                                 "    nufft_adjoint R C kern wt csqrt cpi csinh tw isc inv in_shape cshape oshape coord oversamp width input.\n"
                                 "  Proof. intros. apply gen_nufft_adjoint_ok. Qed.\n")),
    "toeplitz_psf": dict(gen="gen_toeplitz_psf", part="nufft", ret="pair", partial=True,
                         sig=[("coord", REQUIRED), ("shape", REQUIRED), ("oversamp", 1.25), ("width", 4)],
                         params=[("coord", "CARR", ("cshape", "coord")), ("shape", "SHAPE", "shape"), ("oversamp", "C", "oversamp"),
                                 ("width", "C", "width")],
                         binders="(cshape shape : list Z) (coord : list Z -> C) (oversamp width : C)", rtype="result (list Z * farr)",
                         args="cshape shape coord oversamp width",
                         hand="toeplitz_psf R C kern wt csqrt cpi csinh tw isc inv cshape shape coord oversamp width",
                         unfold=["toeplitz_psf", "centre_delta", "rev_axes", "gen_nufft", "nufft", "gen_nufft_adjoint", "nufft_adjoint_opt",
                                 "adjoint_oshape", "nufft_adjoint", "gen_fft", "gen__fftc", "gen_ifft", "gen__ifftc"] + NUFFT_COMMON),
}
for _sp in SPECS.values():
    _sp["pnames"] = [p[0] for p in _sp["params"]]
ORDER = ["_fftc", "_ifftc", "fft", "ifft", "_get_oversamp_shape", "_scale_coord", "_apodize", "estimate_shape", "nufft", "nufft_adjoint",
         "toeplitz_psf"]
PARTS = {"fft": [f for f in ORDER if SPECS[f]["part"] == "fft"], "nufft": [f for f in ORDER if SPECS[f]["part"] == "nufft"]}
COVERED = {"fft": "fft, ifft, _fftc, _ifftc", "nufft": "nufft, nufft_adjoint, _get_oversamp_shape, _scale_coord, _apodize, estimate_shape, toeplitz_psf"}

# the helpers of util.py the readings were written for (docstrings aside): compared as text
UTIL_TEMPLATES = {
    "_normalize_axes": "def _normalize_axes(axes, ndim):\n    if axes is None:\n        return tuple(range(ndim))\n    else:\n        return tuple(a % ndim for a in sorted(axes))\n",
    "prod": "def prod(shape):\n    return np.prod(shape, dtype=np.int64)\n",
}
UTIL_SIGS = {"resize": ["input", "oshape", "ishift", "oshift"]}
INTERP_SIGS = {"interpolate": [("input", REQUIRED), ("coord", REQUIRED), ("kernel", "spline"), ("width", 2), ("param", 1)],
               "gridding": [("input", REQUIRED), ("coord", REQUIRED), ("shape", REQUIRED), ("kernel", "spline"), ("width", 2), ("param", 1)]}


def strip_doc(fn):
    fn = copy.deepcopy(fn)
    if fn.body and isinstance(fn.body[0], ast.Expr) and isinstance(fn.body[0].value, ast.Constant) and isinstance(fn.body[0].value.value, str):
        fn.body = fn.body[1:] or [ast.Pass()]
    return fn


def read_sig(fn, what):
    a = fn.args
    if a.vararg or a.kwarg or a.kwonlyargs or a.posonlyargs or a.kw_defaults or fn.decorator_list:
        raise TranslationError("%s: signature / decorators not understood" % what)
    names = [x.arg for x in a.args]
    dfl = [REQUIRED] * (len(names) - len(a.defaults)) + list(a.defaults)
    return list(zip(names, dfl))


def check_sig(fn, expected, what):
    got = read_sig(fn, what)
    if [n for n, _ in got] != [n for n, _ in expected]:
        raise TranslationError("%s takes (%s), the reading expects (%s)" % (what, ", ".join(n for n, _ in got), ", ".join(n for n, _ in expected)))
    for (n, d), (_, e) in zip(got, expected):
        if (d is REQUIRED) != (e is REQUIRED):
            raise TranslationError("%s: parameter `%s` changed between required and optional" % (what, n))
        if d is not REQUIRED:
            try:
                val = ast.literal_eval(d)
            except Exception:
                raise TranslationError("%s: default of `%s` is not a literal" % (what, n))
            if val != e or type(val) is not type(e):
                raise TranslationError("%s: default of `%s` is %r, the reading expects %r" % (what, n, val, e))
    return got


class Mod:
    def __init__(self, src, util_src, interp_src):
        self.tree = ast.parse(src)
        self.funcs = {}
        self.modules = set()
        self.ceil_is_math = False
        self.done = {}
        self.errors = {}
        self.module_facts()
        self.util_facts(ast.parse(util_src))
        self.interp_sigs = {}
        itree = ast.parse(interp_src)
        for nm, exp in INTERP_SIGS.items():
            fns = [s for s in itree.body if isinstance(s, ast.FunctionDef) and s.name == nm]
            if len(fns) != 1:
                raise TranslationError("interp.py defines %s %d times" % (nm, len(fns)))
            self.interp_sigs[nm] = check_sig(fns[0], exp, "interp." + nm)

    def sig(self, name):
        return read_sig(self.funcs[name], name)

    def module_facts(self):
        want = {("numpy", None, "np"), ("sigpy", "backend", "backend"), ("sigpy", "interp", "interp"), ("sigpy", "util", "util"), ("math", "ceil", "ceil")}
        found = set()
        for s in self.tree.body:
            if isinstance(s, ast.Expr) and isinstance(s.value, ast.Constant) and isinstance(s.value.value, str):
                continue
            if isinstance(s, ast.Import):
                for a in s.names:
                    bound = a.asname or a.name.split(".")[0]
                    if (a.name, None, bound) in want:
                        found.add((a.name, None, bound))
                    elif bound in PROTECTED or bound in SPECS:
                        raise TranslationError("fourier.py line %d: import rebinds `%s`" % (s.lineno, bound))
                continue
            if isinstance(s, ast.ImportFrom):
                for a in s.names:
                    bound = a.asname or a.name
                    if a.name == "*":
                        raise TranslationError("fourier.py line %d: `import *`" % s.lineno)
                    if (s.module, a.name, bound) in want and not s.level:
                        found.add((s.module, a.name, bound))
                    elif bound in PROTECTED or bound in SPECS:
                        raise TranslationError("fourier.py line %d: import rebinds `%s`" % (s.lineno, bound))
                continue
            if isinstance(s, ast.Assign) and len(s.targets) == 1 and isinstance(s.targets[0], ast.Name) and s.targets[0].id == "__all__":
                continue
            if isinstance(s, ast.FunctionDef):
                if s.name in self.funcs or s.name in PROTECTED:
                    raise TranslationError("fourier.py line %d: `%s` is (re)defined" % (s.lineno, s.name))
                self.funcs[s.name] = s
                continue
            raise TranslationError("fourier.py line %d: module-level statement not understood (%s): `%s`"
                                   % (s.lineno, type(s).__name__, " ".join(ast.unparse(s).split())[:100]))
        if found != want:
            raise TranslationError("fourier.py no longer imports %s" % ", ".join(sorted("%s.%s" % (m, n) if n else m for m, n, _ in want - found)))
        self.modules = {"np", "backend", "interp", "util"}
        self.ceil_is_math = True
        watched = PROTECTED | self.modules | set(SPECS)
        for node in ast.walk(self.tree):
            if isinstance(node, ast.Name) and isinstance(node.ctx, (ast.Store, ast.Del)) and node.id in watched:
                raise TranslationError("fourier.py line %d: the name `%s` is rebound" % (node.lineno, node.id))
            if isinstance(node, ast.arg) and node.arg in watched:
                raise TranslationError("fourier.py line %d: a parameter shadows `%s`" % (node.lineno, node.arg))
            if isinstance(node, (ast.FunctionDef, ast.ClassDef, ast.AsyncFunctionDef)) and node.name in watched and node not in self.tree.body:
                raise TranslationError("fourier.py line %d: `%s` is redefined" % (node.lineno, node.name))
            if isinstance(node, (ast.Global, ast.Nonlocal)):
                raise TranslationError("fourier.py line %d: global / nonlocal" % node.lineno)

    def util_facts(self, utree):
        fns = {}
        for s in utree.body:
            if isinstance(s, ast.FunctionDef):
                if s.name in fns:
                    fns[s.name] = None
                else:
                    fns[s.name] = s
        for nm, text in UTIL_TEMPLATES.items():
            if fns.get(nm) is None:
                raise TranslationError("util.py does not define %s exactly once" % nm)
            want = ast.dump(ast.parse(text).body[0])
            if ast.dump(strip_doc(fns[nm])) != want:
                raise TranslationError("util.py line %d: util.%s is no longer the function the reading was written for" % (fns[nm].lineno, nm))
        for nm, names in UTIL_SIGS.items():
            if fns.get(nm) is None or [a.arg for a in fns[nm].args.args] != names:
                raise TranslationError("util.%s: signature not understood" % nm)

    def translate(self, name):
        if name not in self.funcs:
            raise TranslationError("fourier.py does not define %s" % name)
        sp = SPECS[name]
        check_sig(self.funcs[name], sp["sig"], name)
        r = Fn(self, name).translate()
        if sp.get("inplace") and (r["writes"] != set(sp["inplace"]) or r["ret_alias"] not in sp["inplace"]):
            raise TranslationError("%s no longer updates `%s` in place and returns it (the hand model's reading)" % (name, sp["inplace"][0]))
        if not sp.get("inplace") and (r["writes"] or r["ret_alias"] is not None):
            raise TranslationError("%s updates / returns an array of its caller" % name)
        if sp["params"][0][1] == "ARR" and sp["params"][0][2][2] is not None:
            r["dtype_expr"] = " ".join(x.split("(*")[0].strip() for x in render_dtype(r["tree"], ""))
        self.done[name] = r
        return r


# ---------------------------------------------------------------------------------------------
# rendering
# ---------------------------------------------------------------------------------------------
TACTICS = """(* case analysis on every test that occurs (innermost first), then computation *)
Ltac tie_case :=
  match goal with
  | |- context [match ?c with _ => _ end] =>
      lazymatch c with
      | context [match _ with _ => _ end] => fail
      | _ => destruct c
      end
  end.
Ltac tie := cbv beta iota zeta; first [ reflexivity | repeat (tie_case; cbv beta iota zeta; try reflexivity); reflexivity ].
Ltac tie_dtype f := repeat match goal with |- context [f ?x] => destruct (f x) end.

(* dtype equality (input.dtype != output.dtype) on the dtype table of model/Fourier.v *)
Definition gen_dtype_eqb (a b : dtype) : bool := dtype_code a =? dtype_code b.
"""

HEADER = """(* Gen_fourier.v -- GENERATED by tools/translate_fourier.py from sigpy/fourier.py (sha256 %s;
   util.py %s, interp.py %s).  Do not edit.
   Every function of fourier.py as written in the source, over the abstract operations of the hand models
   model/Fourier.v (part "fft", property C05) and model/Nufft.v + model/NufftExt.v (part "nufft", property C06),
   each followed by the lemma that it equals the hand model (unfolding, case analysis on the tests, reflexivity).
   Conventions (notes/translate_fourier.md): an array is (shape, index -> value); every Python assignment of a computed
   value is a `let` (comment: source line); numpy.fft.fftn / ifftn are the oracles `fftn` (axes normalised, no s) and
   `fft_plain` (s / raw axes) of model/Fourier.v, fftshift / ifftshift are `shiftn .. g_fftshift / g_ifftshift`,
   util.resize is model/Rearrange.v's `resize`, util._normalize_axes is `normalize_axes_sorted`; `.copy()` / `.astype` are the
   identity on values (aliasing and in-place updates are tracked by the translator, dtypes by the separate gen_*_dtype
   definitions); `forceA` (re-tabulation, the identity on values) is placed around resize / shift results that are consumed
   again and around computed arguments of fft / ifft / interpolate; array `*=` / `/=` real scalar is `scal`; interpolate /
   gridding are the partial operations of model/Interp.v (`match .. with Err e => Err e | Ok .. =>`). *)
From Coq Require Import ZArith List Bool.
From SV Require Import lib.Scalar lib.BigSum lib.LoopIR lib.NdArray lib.Gather lib.Coord gen.Gen_interp
  model.Rearrange model.Block model.Interp model.Fourier model.Nufft model.NufftExt.
Import ListNotations.
Local Open Scope Z_scope.

"""

SECTION = """Section Gen.
  Variable R : Ops.
  Variable C : COps.
  Variable kern : C -> C -> C.        (* interp._kaiser_bessel_kernel *)
  Variable wt : C -> R.               (* real scalars as elements of R *)
  Variable csqrt : C -> C.
  Variable cpi : C.
  Variable csinh : C -> C.
  Variable tw : Z -> Z -> R.          (* numpy.fft oracle data, see model/Fourier.v *)
  Variable isc inv : Z -> R.
  Notation farr := (list Z -> R).
"""


def indent_term(lines, ind):
    return "\n".join(x.replace("\n", "\n" + ind) for x in lines)


def render_fn(mod, name):
    """text of the definitions and lemmas of one translated function"""
    sp, r = SPECS[name], mod.done[name]
    fn = mod.funcs[name]
    out = []
    for aux in r["aux"]:
        out.append("  (* %s: the per-axis factor of the loop  (fourier.py line %d) *)" % (name, fn.lineno))
        out.append("  " + aux["text"])
        out.append("  Lemma %s_ok : forall %s n_ax k_ax, %s %s n_ax k_ax = %s.\n  Proof. intros. unfold %s, %s. tie. Qed.\n"
                   % (aux["name"], aux["args"], aux["name"], aux["args"], sp["factor_hand"], aux["name"], ", ".join(sp["factor_unfold"])))
    body = indent_term(render(r["tree"], "    "), "")
    out.append("  (* %s  (fourier.py line %d) *)" % (name, fn.lineno))
    out.append("  Definition %s %s : %s :=\n%s." % (sp["gen"], sp["binders"], sp["rtype"], body))
    out.append("  Lemma %s_ok : forall %s,\n    %s %s = %s.\n  Proof. intros. unfold %s, %s. tie. Qed.\n"
               % (sp["gen"], sp["args"], sp["gen"], sp["args"], sp["hand"], sp["gen"], ", ".join(sp["unfold"])))
    if sp.get("extra"):
        out.append(sp["extra"])
    if sp.get("dtype_def"):
        dbody = "\n".join(render_dtype(r["tree"], "    "))
        dn = sp["gen"] + "_dtype"
        out.append("  (* %s: the dtype of the result; fftn_dt = the dtype numpy's fftn / ifftn returns (an oracle) *)" % name)
        out.append("  Definition %s (fftn_dt : dtype -> dtype) (center : bool) (d : dtype) : dtype :=\n%s." % (dn, dbody))
        out.append("  Lemma %s_ok : forall fftn_dt center d, %s fftn_dt center d = fft_out_dtype d.\n"
                   "  Proof. intros. unfold %s, fft_out_dtype, gen_dtype_eqb. destruct center; destruct d;\n"
                   "    cbv beta iota zeta delta [is_complex negb andb orb]; tie_dtype fftn_dt; reflexivity. Qed.\n" % (dn, dn, dn))
    return "\n".join(out)


def lemma_names(part=None):
    out = []
    for f in ORDER:
        sp = SPECS[f]
        if part and sp["part"] != part:
            continue
        if "factor_params" in sp:
            out.append(sp["gen"] + "_factor_ok")
        out.append(sp["gen"] + "_ok")
        if sp.get("dtype_def"):
            out.append(sp["gen"] + "_dtype_ok")
        if f == "nufft_adjoint":
            out.append("gen_nufft_adjoint_some_ok")
    return out


def read_sources(repo, paths=None):
    paths = paths or {}
    return tuple(open(paths.get(rel) or os.path.join(repo, rel)).read() for rel in (SRC_REL, UTIL_REL, INTERP_REL))


def translate_parts(repo, paths=None):
    """-> {"fft": (text or None, error or None), "nufft": (...), "header": text}; part "nufft" needs part "fft"."""
    src, usrc, isrc = read_sources(repo, paths)
    res = {"header": HEADER % tuple(hashlib.sha256(s.encode()).hexdigest()[:16] for s in (src, usrc, isrc)) + TACTICS + "\n" + SECTION}
    try:
        mod = Mod(src, usrc, isrc)
    except (TranslationError, SyntaxError) as e:
        res["fft"] = res["nufft"] = (None, "%s: %s" % (type(e).__name__, e))
        return res
    for part in ("fft", "nufft"):
        texts, err = [], None
        if part == "nufft" and res["fft"][1]:
            err = "part fft (which nufft calls) failed: " + res["fft"][1]
        for f in PARTS[part]:
            if err:
                break
            try:
                mod.translate(f)
                texts.append(render_fn(mod, f))
            except TranslationError as e:
                err = "TranslationError: %s" % e
        res[part] = (None, err) if err else ("  (* ===== part %s: %s ===== *)\n" % (part, COVERED[part]) + "\n".join(texts), None)
    return res


def compose(res, parts=("fft", "nufft")):
    return res["header"] + "\n" + "\n".join(res[p][0] for p in parts) + "\nEnd Gen.\n"


def translate_fourier(repo, paths=None):
    """-> text of gen/Gen_fourier.v; raises TranslationError when any covered function is outside the fragment"""
    res = translate_parts(repo, paths)
    for p in ("fft", "nufft"):
        if res[p][1]:
            raise TranslationError(res[p][1].replace("TranslationError: ", ""))
    return compose(res)


def failing_lemma(gen_text, log):
    """name of the lemma / definition a coqc error message points into"""
    m = re.search(r'line (\d+), characters', log)
    if not m:
        return None
    lines = gen_text.split("\n")
    for i in range(min(int(m.group(1)), len(lines)) - 1, -1, -1):
        mm = re.match(r"\s*(?:Lemma|Definition)\s+([A-Za-z0-9_']+)", lines[i])
        if mm:
            return mm.group(1)
    return None


def tie(ctx, part):
    """The two obligations props/C05.py (part "fft") and props/C06.py (part "nufft") add (DESIGN 2.10 steps 1-2): regenerate
    gen/Gen_fourier.v from the tree under test, then compile it (the `_ok` lemmas ARE the tie).  Part "fft" precedes part "nufft"
    in the file and does not depend on it: a failure confined to the nufft part leaves C05's obligations discharged; part "nufft"
    calls gen_fft / gen_ifft, so it needs the whole file.  Returns None when both obligations hold, else
    {"theorem": <translator or lemma>, "log": ...} for the no-failing-input report."""
    from tools import translate_all
    from vlib import core
    tr_err = translate_all.run(strict=False, only=["fourier"])
    ctx.source_hash(SRC_REL, UTIL_REL, INTERP_REL)
    try:
        res = translate_parts(core.REPO)
        perr = res[part][1]
    except Exception as e:                                   # unreadable source ...
        res, perr = None, "%s: %s" % (type(e).__name__, e)
    ctx.obligation("translate:%s (%s)" % (SRC_REL, COVERED[part]), not perr)
    name = "tie:generated == hand model (gen/Gen_fourier.v, part %s: %s)" % (part, ", ".join(lemma_names(part)))
    if perr:
        ctx.notes.append("translator failed closed: %s" % perr)
        ctx.obligation(name, False)
        return {"theorem": "translate:" + SRC_REL, "log": str(perr)}
    if tr_err:
        # only possible for part "fft": the nufft part is outside the fragment, the file is a stub -> compile the fft part alone
        ok, log = core.coq_make(["model/NufftExt.vo"], timeout=900)
        text = compose(res, (part,))
        path = os.path.join(ctx.scratch, "Gen_fourier_%s.v" % part)
        with open(path, "w") as f:
            f.write(text)
        if ok:
            ctx.checker_cmds.append("coqc -Q %s SV %s" % (core.COQ, path))
            rc, log = core.coqc_file(path, timeout=600)
            ok = rc == 0
    else:
        ctx.checker_cmds.append("cd %s && make gen/Gen_fourier.vo" % core.COQ)
        ok, log = core.coq_make(["gen/Gen_fourier.vo"], timeout=900)
        try:
            text = open(os.path.join(core.COQ, "gen", "Gen_fourier.v")).read()
        except OSError:
            text = ""
    lem = None
    if not ok:
        m = re.search(r'File "[^"]*?Gen_fourier[^"]*\.v", line (\d+)', log)
        if m:
            lem = failing_lemma(text, "line %s, characters" % m.group(1))
            lines = text.split("\n")
            mark = [i for i, l in enumerate(lines) if l.startswith("  (* ===== part nufft")]
            if part == "fft" and mark and int(m.group(1)) > mark[0] + 1:
                ctx.notes.append("gen/Gen_fourier.v fails in the nufft part (%s); every lemma of the fft part was checked before it" % lem)
                ok = True
    ctx.obligation(name, ok)
    if ok:
        return None
    which = "%s (gen/Gen_fourier.v)" % (lem or "?")
    ctx.notes.append("generated fourier.py definitions no longer equal the hand model: %s: %s" % (which, log[-1200:]))
    return {"theorem": "tie:" + which, "log": log[-2500:]}


if __name__ == "__main__":
    args = [a for a in sys.argv[1:] if not a.startswith("--")]
    sys.stdout.write(translate_fourier(args[0] if args else "/repo"))
