#!/usr/bin/env python3
"""Markdown table of the seeded defects and which checks report them (from seeded/*/meta.json, detection.json)."""
import json, os, glob
V = os.path.dirname(os.path.dirname(os.path.abspath(__file__)))
rows = []
for d in sorted(glob.glob(os.path.join(V, "seeded", "*"))):
    name = os.path.basename(d)
    meta = json.load(open(os.path.join(d, "meta.json")))
    det = json.load(open(os.path.join(d, "detection.json"))) if os.path.exists(os.path.join(d, "detection.json")) else {}
    caught = []
    for pid, r in sorted(det.items()):
        if isinstance(r, dict) and r.get("rc") == 1:
            w = (r.get("what") or [""])[0]
            caught.append("%s: %s" % (pid, w[:110]))
        elif isinstance(r, dict):
            caught.append("%s: NOT reported" % pid)
    rows.append("| %s | %s | %s | %s |" % (name, meta.get("summary", "")[:150].replace("|", "/"), meta.get("needs", "")[:150].replace("|", "/"),
                                          "<br>".join(caught) or "(not run yet)"))
print("| seeded change | what was changed | needs | reported by |\n|---|---|---|---|")
print("\n".join(rows))
