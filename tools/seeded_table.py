#!/usr/bin/env python3
"""Markdown table of the seeded defects and which checks report them (from seeded/*/meta.json, detection.json).
Writes seeded/TABLE.md and refreshes the copy between the seeded-table markers of DESIGN.md."""
import json, os, glob, re
V = os.path.dirname(os.path.dirname(os.path.abspath(__file__)))
STRENGTH = {
    'C03_m9': 'first run: fail-closed translator only; overload oracle with operands that end in a conj=True scalar Multiply ((c*A).H, A*Multiply(.., c, conj=True)) and the expressions A*(a*B), (A*a)*a',
    'C19_m9': 'first run: fail-closed translator only; the same argument OBJECTS handed to each simulator twice (identical rotations, arguments untouched)',
    'C02_m9': 'first run: static alias scan only (no concrete input); purity cases at parameter values where an internal resize is the identity (nufft / nufft_adjoint with oversamp=1, fft / ifft with oshape = shape)',
    'C12_m11': 'first run: fail-closed translator only; two live ConjugateGradient objects of the same shape and dtype stepped alternately, the first compared with its solo run',
    'C15_m9': 'first run: fail-closed translator only; PDHG with array-valued dual steps, one of them exactly 0 (NaN residual: the solver must run on), quick tier now draws 6 variants',
    'C13_m11': 'first run: fail-closed translator only; caller iterate stored in single precision with double-precision data, gap bounds after k updates evaluated on the caller array',
    'C14_m11': 'first run: fail-closed translator only; PDHG with G and ONE of tau / sigma supplied (the other defaulted from the stacked operator), G of norm 2-4',
    'C16_m11': 'first run: dependency tie on linop.py only (C03 exhibits a Vstack of non-contiguous block outputs); TotalVariationRecon with the maps handed over as a channel-first VIEW of channel-last storage',
    'C01_m9': 'reported through the interpw translator tie; it exposed the genuine defect F25 (width / param truncated for integer-typed coord), repaired in 13e2703 -- the patch applies to 9d35b3e only; integer-typed coordinates are now generated in C07 and in the C01-C04 leaf generator',
    'C17_m7': 'first run: fail-closed translator only; nearly dead first (phase-reference) channel: coil 0 scaled to the precision of the k-space dtype (generator share 15 % + two corpus entries)',
    'C20_m7': 'reported by the existing oracle; since round 7 also by the float correspondence of model/Spokes.v (spoke sets designed twice)',
    'C01_m2': 'per-axis tuple widths / params added to the Interpolate/Gridding leaf generator',
    'C02_m1': 'Add cases whose FIRST term returns a view (Transpose/Reshape/Slice first) added to the tree generator',
    'C02_m2': 'inputs stored in a real dtype (also exposed F20/F21)',
    'C03_m1': 'malformed stream: operand pairs whose output shapes are rank-prefixes of each other',
    'C03_m2': 'real-dtype inputs under complex scalar multiples; A(x) compared with the matrix expression applied to x in the stored dtype',
    'C04_m1': 'dedicated block-normal stream with leading batch axes divisible by the block size',
    'C04_m2': 'NUFFT(toeplitz=True) stream on non-square grids',
    'C05_m3': 'the empty subset of axes added to the systematic axes sweep',
    'C06_m2': 'first run: only the fail-closed translator fired (no concrete input); accuracy stream widened to odd / fractional widths 3-6 so the adjoint dot test exhibits an input',
    'C11_m3': 'every prox / thresh case re-run on the same values in F, transposed-view, strided and reversed layouts',
    'C12_m1': 'pass-through preconditioners (Identity linop, lambda r: r)',
    'C12_m3': 'mixed-precision stream (x0 float32/complex64 with a double system) + caller-array snapshots after every update',
    'C12_m4': 'first run: one-step correspondence only (no concrete input); data scaled by 1e-12..1e8 so the Krylov-optimality oracle exhibits one',
    'C13_m3': 'gradf that returns its argument / a view / an incrementally maintained caller-owned buffer',
    'C14_m4': 'first run: configured-data correspondence only (no concrete input); dominant-l2 stream (lamda >> ||A||^2, default steps) so the optimum oracle exhibits one',
    'C15_m2': 'PowerMethod on genuinely 2-D operands',
    'C02_m7': 'first run: the harness itself hit a RecursionError on the self-referential operator (reported fail-closed); operand-purity stream and a cyclic-graph report',
    'C04_m7': 'the same A.N object applied to a real-dtype array before the judged complex application (warm-up)',
    'C04_m8': 'LinearLeastSquares (CG / GradientMethod / PDHG) on operators whose normal operator is an analytic shortcut, against the dense minimiser',
    'C05_m10': 'first run: fail-closed translator only; arrays of >= 65536 elements whose half-lengths sum to an odd / even number',
    'C08_m9': 'first run: fail-closed translator only; blocks of thousands of samples / dozens of batch signals (dot tests, scipy reference)',
    'C08_m10': 'first run: fail-closed translator only; the same flat list of extents regrouped into different data / filter shapes in consecutive calls',
    'C12_m9': 'first run: correspondence only; state right after construction (resid = sqrt <r0, P r0>) added to the oracle',
    'C12_m10': 'first run: fail-closed translator only; operator A that returns one persistent buffer on every call',
    'C13_m9': 'NO concrete input: Prox.__call__ caching of converted step arrays needs single-precision iterates with double-precision array steps under acceleration; reported through the dependency tie on prox.py',
    'C13_m10': 'NO concrete input: integer-typed dual step; reported through the dependency tie on prox.py',
    'C14_m10': 'NO concrete input (arguable defect: the caller edits the matrix of a MatMul in place between solves); reported through the dependency tie on linop.py',
    'C15_m7': 'JsenseRecon with max_iter != max_inner_iter, counting outer updates',
    'C15_m8': 'an Alg that received manual updates before being wrapped in an App',
    'C01_m6': 'first run: broken correspondence build only; same-shape Resize with ONE explicit shift in the leaf generator and the systematic grid',
    'C02_m5': 'first run: static alias scan only (no concrete input); interleaved application of convolution operators that differ only in strides / mode, each repeated and compared with its first output',
    'C02_m6': 'first run: fail-closed translator only; float32 / complex64 storage of the inputs in 30 % of the trees and in the systematic grid',
    'C03_m5': 'first run: fail-closed translator only; rank-changing blocks under stacks with negative axes, with the shapes the EXPRESSION must advertise computed from the definition',
    'C03_m6': 'first run: fail-closed translator only; expression-level overload oracle (a*A, A*a, -A, A+B, A-B, A*B against the matrix expression of the OPERANDS, incl. Conj operands)',
    'C06_m6': '2-D point sets with the sample array in F / permuted / strided layouts (vlib/layouts.py)',
    'C07_m5': 'first run: fail-closed translator only; call sequences float32 coords -> int coords -> float64 coords with fractional width / param',
    'C07_m6': 'first run: fail-closed translator only; data arrays in non-C-contiguous layouts',
    'C09_m5': 'first run: fail-closed translator only; the empty subset of axes for flip',
    'C09_m6': 'every function re-run on F / transposed / strided / real-part-of-complex layouts',
    'C11_m7': 'first run: fail-closed translator only; object reuse: P(alpha, P(alpha, y)) with ONE object against two fresh objects, earlier result must survive a later call',
    'C11_m8': 'first run: fail-closed translator only; non-Hermitian inputs whose Hermitian part is PSD',
    'C12_m7': 'first run: fail-closed translator only; 2-D iterates in F / transposed / volume-slice layouts that cannot be flattened without a copy',
    'C13_m7': 'the same 2-D layouts for the primal array of GradientMethod and PDHG',
    'C14_m8': 'data of magnitude 1e-7 .. 1e-12 (homogeneous problems) for every solver',
    'C15_m5': 'first run: fail-closed translator only; operators scaled by 1e-18 .. 1e8 in the power-iteration oracle',
    'C15_m6': 'LinearLeastSquares with a caller-supplied x narrower than the data: run() must return what the algorithm holds',
    'C16_m8': 'homogeneity recon(s*y) = s*recon(y) for s = 1e-6 .. 1e-12 in double and single precision',
    'C17_m5': 'first run: fail-closed translator only; k-space scaled by 1e-6 .. 1e3 in the recovery family',
    'C17_m6': 'NO concrete input: the defect is in util.resize (equal element count, different shape) and shows only when calib_width exceeds an image axis, where map recovery is poor (0.1-0.2) on the clean tree too; reported through the dependency tie on util.py',
    'C18_m5': 'first run: fail-closed translator only; prior RNG state with a cached Box-Muller value',
    'C19_m7': 'polynomials with bit-identical coefficient magnitudes and different phases designed right after each other',
    'C20_m5': 'first run: fail-closed translator only; near-duplicate requests (every argument within 1e-9) right after each other',
    'C20_m6': 'spoke locations given as integer / float32 arrays',
    'C05_m6': 'call sequences: consecutive centred calls with one oshape / dtype and shrinking input shapes',
    'C08_m6': 'mixed dtypes (real first array, complex second): rejected or equal to the definition',
    'C11_m5': 'first run: fail-closed translator only; real-valued y in a real dtype with complex parameters must give the same point as the same values stored as complex',
    'C13_m6': 'accelerate keyword omitted when off (documented default)',
    'C14_m6': 'l1 weight between 0.5 and 1 of the largest correlation, zero start, default steps (first primal step thresholded back to 0)',
    'C16_m5': 'SenseRecon with lamda above the largest eigenvalue of A^H A, default and GradientMethod',
    'C16_m6': 'TotalVariationRecon on 3-D images against an independent dense ADMM with differences along every axis (before: agreement of two solvers)',
    'C19_m6': 'polynomial lengths with prime factors 13..37',
    'C01_m3': 'systematic grid combinator x operand kind (fresh / input itself / view / non-contiguous view / complex scalar / fft) x storage dtype; flattening stacks get non-contiguous block outputs',
    'C01_m4': 'Interpolate / Gridding leaf stream over the C07 parameter space (3-D grids, coordinates on window ties)',
    'C02_m3': 'whiten / get_cov on 2-D and single-coil data (the internal reshape is then a view in every layout), non-trivial covariance',
    'C02_m4': 'real-dtype inputs also on trees with fft-like leaves (single-precision tolerance) + fft operand in the systematic grid',
    'C04_m3': 'non-default oversamp / width for NUFFT(toeplitz=True) with a per-case bound 8 e_A + 3e-5 measured against the exact non-uniform Gram matrix (the fixed 5e-2 was both too loose and, at width 3, too tight)',
    'C09_m3': 'closed-form oracle re-run on complex128 / complex64 / float32 / float64 element values',
    'C17_m4': 'crop ties: each run repeated with crop set exactly to one of its eigenvalues',
    'C20_m3': 'spoke locations on a 1/fov grid (increments of equal magnitude and opposite sign, diagonal return to 0)',
    'C16_m2': 'non-binary weights + byte snapshots of the caller arrays of SenseRecon',
    'C16_m3': 'L1WaveletRecon with ADMM and rho != 1 compared with an independent minimiser',
    'C16_m4': 'non-Cartesian SenseRecon with some samples exactly zero',
}
rows, total, own_conc = [], 0, 0
for d in sorted(glob.glob(os.path.join(V, "seeded", "*"))):
    if not os.path.isdir(d):
        continue
    n = os.path.basename(d)
    meta = json.load(open(os.path.join(d, "meta.json")))
    det = json.load(open(os.path.join(d, "detection.json"))) if os.path.exists(os.path.join(d, "detection.json")) else {}
    c = []
    total += 1
    for pid, r in sorted(det.items()):
        if not isinstance(r, dict):
            continue
        if r.get("rc") == 1:
            conc = [l for l in r.get("violations", []) if "no-failing-input-found" not in l]
            ws = r.get("what") or [""]
            # first violation that carries a concrete input, if any
            w = ws[0]
            for l, ww in zip(r.get("violations", []), ws):
                if "no-failing-input-found" not in l:
                    w = ww
                    break
            w = re.sub(r"^C\d\d: ", "", w)[:90].replace("|", "/")
            c.append("%s%s: %s" % (pid, "" if conc else " (no input)", w))
            if pid == n[:3] and conc:
                own_conc += 1
        else:
            c.append("%s: missed" % pid)
    s = meta.get("summary", "").replace("|", "/")
    s = s[:170] + ("…" if len(s) > 170 else "")
    rows.append("| %s | %s | %s | %s |" % (n, s, "<br>".join(c) or "(not run)", STRENGTH.get(n, "—")))
table = ("| seeded change | what was changed | reported by (first violation with an input) | strengthening that was needed |\n|---|---|---|---|\n"
         + "\n".join(rows) + "\n")
open(os.path.join(V, "seeded", "TABLE.md"), "w").write(table)
p = os.path.join(V, "DESIGN.md")
s = open(p).read()
b, e = "<!-- seeded-table-begin -->\n", "<!-- seeded-table-end -->\n"
if b in s and e in s:
    s = s[:s.index(b) + len(b)] + table + s[s.index(e):]
    open(p, "w").write(s)
print("%d seeded changes, %d reported by their own property's check with a concrete input, %d needed strengthening" % (total, own_conc, len(STRENGTH)))
