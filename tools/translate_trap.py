#!/usr/bin/env python3
"""Fail-closed translator: trap_grad / min_trap_grad of sigpy/mri/rf/trajgrad.py (Python `ast`) -> Gallina.

From the SOURCE TEXT of trajgrad.py it regenerates, on every run, Gallina definitions

    gen_trap_grad, gen_min_trap_grad : T -> T -> T -> T -> list T * Z        (T : RealOps)

written over the SAME operations record as the hand model coq/model/Trap.v (RealOps: radd rsub rmul rdiv rsqrt rabs
rceil rfloor rofZ rltb, and the model's list helpers ones / rsum / rmaxl / ziota), each followed by a machine-checked lemma

    Lemma gen_<f>_ok : forall area gmax dgdt dt : T, gen_<f> area gmax dgdt dt = <f> area gmax dgdt dt.

proved by unfolding, case analysis on the tests that occur, and `reflexivity` -- nothing else.  The definitions stay
polymorphic in RealOps, so the lemma holds for the PrimFloat instance that runs (run/RunC20.v) and for the instance over
R the theorems of props/Prop_C20.v are about.  A change of the source (round for ceil, a dropped abs, `a > gmax` for
`np.max(flat) > gmax`, max(.., 0) for max(.., 1), a dropped `* dt` ...) either is outside the accepted fragment
(TranslationError naming the line: FAIL CLOSED) or produces a different term, and the lemma no longer compiles.

How a function is read (see notes/translate_trap.md):
  * symbolic execution of the statements in order; every assignment of a computed value is emitted as a `let`;
    an `if` forks the path (the rest of the function is translated once per branch); a test on literals
    (`len(args) < 5` for the four-argument call, `if rampsamp:` with rampsamp = 1) is resolved statically, so the
    unreachable `else` of trap_grad is not read;
  * scalars: Python float -> T, Python int -> Z (rofZ when it meets a float), np.ceil / np.floor -> the INTEGER they
    hold (rceil / rfloor : T -> Z; `int(..)` is then the identity, `* 2` and `max(.., 1)` are Z operations);
    `a > b` on floats is `rltb b a` (the model has only `<`; `>=`, `<=`, `==` on floats fail closed);
  * arrays: np.linspace(0, r, num=r+1) / np.linspace(r, 0, num=r+1) with r an int is the index range 0..r / r..0
    (any other linspace fails closed); its first arithmetic operation is fused with the int->float conversion into ONE
    `map` over `ziota 0 (r+1)`; on a float array, consecutive elementwise operations with scalars inside one expression
    are ONE `map (fun x => ..)`; np.ones(n) -> ones n; np.ones((1, n)) -> a (1, n) array whose row is ones n;
    `flat[0]` its row; np.concatenate((a, b, c)) -> a ++ b ++ c; builtin sum -> rsum; np.sum -> rsum ONLY on an array of
    ones (any summation order gives the same number); np.max -> rmaxl; np.expand_dims(v, axis=0) -> the (1, n) array
    with row v (of the int 0: [r0]).

Entry points: translate_trap(repo[, path]) -> text of gen/Gen_trap.v; translate_source(src); tie(ctx) for props/C20.py;
tools/test_translate_trap.py is the self-test (mutations of a copy of trajgrad.py).
"""
import ast
import hashlib
import os
import re
import sys


class TranslationError(Exception):
    pass


SRC_REL = "sigpy/mri/rf/trajgrad.py"

# ---------------------------------------------------------------------------------------------
# types of symbolic values
# ---------------------------------------------------------------------------------------------
F = "float"          # Python / numpy float scalar          : T
Z = "int"            # Python int                           : Z
IZ = "intfloat"      # float holding an integer (np.ceil / np.floor and what is built from them) : the Z it holds
LIT = "literal"      # Python integer literal, not yet given a type
B = "bool"
IDX = "linspace"     # np.linspace over an integer index range, not yet converted to floats
L = "array1d"        # float array of shape (n,)            : list T
L2 = "array2d"       # float array of shape (1, n)          : list T (its only row)
TUP = "tuple"
ARGS = "varargs"     # the empty *args of the four-argument call
NP = "numpy"         # the module

XV, IV = "x__", "i__"                     # bound variables of the generated `map`s

RESERVED = {"by", "at", "in", "as", "end", "fun", "let", "if", "then", "else", "with", "using", "return", "fix", "cofix",
            "match", "forall", "exists", "where", "for", "mod", "Set", "Prop", "Type", "IF", "T",
            # names of model/Trap.v and of the Coq library the generated text uses
            "RealOps", "RT", "r0", "r1", "radd", "rsub", "rmul", "rdiv", "rsqrt", "rabs", "rceil", "rfloor", "rofZ", "rltb",
            "ziota", "rsum", "rmaxl", "ramp_up", "ramp_dn", "ones", "trap_pulse", "trap_grad", "flat_of", "min_trap_flat",
            "min_trap_grad", "min_trap_flat_part", "map", "app", "nil", "cons", "true", "false", "Z", "list", "nat", "bool",
            "gen_trap_grad", "gen_min_trap_grad", "tie", "tie_case"}
PROTECTED = {"np", "int", "max", "sum", "len", "abs"}      # names the reading relies on: never rebound

ARITH = {ast.Add: "add", ast.Sub: "sub", ast.Mult: "mul", ast.Div: "div"}
FOPS = {"add": "(radd %s %s)", "sub": "(rsub %s %s)", "mul": "(rmul %s %s)", "div": "(rdiv %s %s)"}
ZOPS = {"add": "(%s + %s)", "sub": "(%s - %s)", "mul": "(%s * %s)"}
CMP = {ast.Lt: "lt", ast.LtE: "le", ast.Gt: "gt", ast.GtE: "ge", ast.Eq: "eq"}


class Val:
    __slots__ = ("ty", "term", "lit", "ones", "chain", "idx", "items")

    def __init__(self, ty, term=None, lit=None, ones=False, chain=None, idx=None, items=None):
        self.ty, self.term, self.lit, self.ones = ty, term, lit, ones
        self.chain = chain        # arrays: (base list term, body over x__) -- elementwise operations not yet emitted
        self.idx = idx            # IDX: (integer expression over i__, number of samples)
        self.items = items        # TUP


def san(text):
    """Python source inside a Coq comment."""
    return " ".join(text.split()).replace("(*", "( *").replace("*)", "* )")


class Env:
    def __init__(self):
        self.locals = {}
        self.facts = {}
        self.lines = []

    def fork(self):
        e = Env()
        e.locals, e.facts = dict(self.locals), dict(self.facts)
        return e


# ---------------------------------------------------------------------------------------------
# one function
# ---------------------------------------------------------------------------------------------
class Fn:
    def __init__(self, fn, np_name):
        self.fn = fn
        self.np_name = np_name
        self.counter = {}

    def err(self, node, msg):
        ln = getattr(node, "lineno", 0)
        seg = ""
        try:
            seg = ast.unparse(node) if isinstance(node, ast.AST) else ""
        except Exception:
            pass
        raise TranslationError("%s, trajgrad.py line %d: %s%s" % (self.fn.name, ln, msg,
                                                                  (": `%s`" % " ".join(seg.split())[:140]) if seg else ""))

    # ---- naming ----------------------------------------------------------------------------
    def fresh(self, hint):
        hint = re.sub(r"[^A-Za-z0-9_]", "_", hint)
        k = self.counter.get(hint, 0) + 1
        self.counter[hint] = k
        return "%s_%d" % (hint, k)

    def let(self, env, hint, term, node):
        name = self.fresh(hint)
        env.lines.append("let %s := %s in   (* L%d: %s *)" % (name, term, node.lineno, san(ast.unparse(node))))
        return name

    # ---- coercions -------------------------------------------------------------------------
    def as_float(self, v, node):
        if v.ty == F:
            return v.term
        if v.ty == Z:
            return "(rofZ %s)" % v.term                      # int meeting a float: float(n), exact below 2^53
        if v.ty == LIT:
            if v.lit == 0:
                return "r0"
            if v.lit == 1:
                return "r1"
            return "(rofZ %s)" % self.zlit(v.lit)
        if v.ty == IZ:
            self.err(node, "the result of np.ceil / np.floor is used as a float (the model reads it only through int(), `* <literal>` and max)")
        self.err(node, "a value of kind %s where a float is expected" % v.ty)

    @staticmethod
    def zlit(n):
        return str(n) if n >= 0 else "(%d)" % n

    def as_int(self, v, node):
        if v.ty == Z:
            return v.term
        if v.ty == LIT:
            return self.zlit(v.lit)
        self.err(node, "a value of kind %s where a Python int is expected" % v.ty)

    def mat(self, v, node):
        """the list term of an array value (pending elementwise operations become one `map`)"""
        if v.ty not in (L, L2):
            self.err(node, "a value of kind %s where a float array is expected" % v.ty)
        if v.chain is None:
            return v.term
        base, body = v.chain
        return "(map (fun %s => %s) %s)" % (XV, body, base)

    # ---- operators -------------------------------------------------------------------------
    def binop(self, name, a, b, node):
        for v in (a, b):
            if not isinstance(v, Val) or v.ty in (TUP, ARGS, NP, B):
                self.err(node, "arithmetic on something that is not a number or an array")
        arr_a, arr_b = a.ty in (L, L2, IDX), b.ty in (L, L2, IDX)
        if arr_a and arr_b:
            self.err(node, "elementwise operation between two arrays (the model has only array-with-scalar operations)")
        if arr_a or arr_b:
            arr, sc = (a, b) if arr_a else (b, a)
            s = self.as_float(sc, node)

            def app(x):
                return FOPS[name] % ((x, s) if arr_a else (s, x))
            if arr.ty == IDX:                                 # first operation on the index range: fused with the conversion
                zexpr, count = arr.idx
                return Val(L, "(map (fun %s => %s) (ziota 0 (Z.to_nat %s)))" % (IV, app("(rofZ %s)" % zexpr), count))
            base, body = arr.chain if arr.chain is not None else (arr.term, XV)
            return Val(arr.ty, None, chain=(base, app(body)))
        # scalars
        if IZ in (a.ty, b.ty):
            other = b if a.ty == IZ else a
            if name == "mul" and other.ty == LIT:             # np.ceil(x) * 2: exact in floats
                return Val(IZ, ZOPS["mul"] % ((a.term, self.zlit(b.lit)) if a.ty == IZ else (self.zlit(a.lit), b.term)))
            self.err(node, "the result of np.ceil / np.floor enters arithmetic other than `* <integer literal>`")
        if a.ty == LIT and b.ty == LIT:
            self.err(node, "arithmetic on integer literals only")
        if a.ty in (Z, LIT) and b.ty in (Z, LIT):
            if name == "div":                                 # true division of ints gives a float
                return Val(F, FOPS["div"] % (self.as_float(a, node), self.as_float(b, node)))
            return Val(Z, ZOPS[name] % (self.as_int(a, node), self.as_int(b, node)))
        return Val(F, FOPS[name] % (self.as_float(a, node), self.as_float(b, node)))

    def compare(self, name, a, b, node):
        for v in (a, b):
            if not isinstance(v, Val) or v.ty not in (F, Z, LIT):
                self.err(node, "comparison of something that is not a float or an int")
        if a.ty == LIT and b.ty == LIT:
            r = {"lt": a.lit < b.lit, "le": a.lit <= b.lit, "gt": a.lit > b.lit, "ge": a.lit >= b.lit, "eq": a.lit == b.lit}[name]
            return Val(B, "true" if r else "false")
        if F in (a.ty, b.ty):
            x, y = self.as_float(a, node), self.as_float(b, node)
            if name == "lt":
                return Val(B, "(rltb %s %s)" % (x, y))
            if name == "gt":
                return Val(B, "(rltb %s %s)" % (y, x))         # a > b  is  b < a
            self.err(node, "the model's only comparison on floats is `<` (and `>` read as the swapped `<`)")
        x, y = self.as_int(a, node), self.as_int(b, node)
        fmt = {"lt": "(%s <? %s)", "le": "(%s <=? %s)", "eq": "(%s =? %s)"}
        if name in fmt:
            return Val(B, fmt[name] % (x, y))
        return Val(B, {"gt": "(%s <? %s)", "ge": "(%s <=? %s)"}[name] % (y, x))

    # ---- expressions -----------------------------------------------------------------------
    def ev(self, n, env):
        if isinstance(n, ast.Constant):
            if isinstance(n.value, bool) or not isinstance(n.value, int):
                self.err(n, "constant other than an integer literal")
            return Val(LIT, None, lit=n.value)
        if isinstance(n, ast.Name):
            if n.id in env.locals:
                return env.locals[n.id]
            if n.id == self.np_name:
                return Val(NP)
            self.err(n, "unknown name (not a parameter, not assigned on this path)")
        if isinstance(n, ast.UnaryOp) and isinstance(n.op, ast.USub):
            v = self.ev(n.operand, env)
            if v.ty == LIT:
                return Val(LIT, None, lit=-v.lit)
            self.err(n, "unary minus on something other than a literal (the model has no negation)")
        if isinstance(n, ast.BinOp):
            if type(n.op) not in ARITH:
                self.err(n, "binary operator not understood")
            return self.binop(ARITH[type(n.op)], self.ev(n.left, env), self.ev(n.right, env), n)
        if isinstance(n, ast.Compare):
            if len(n.ops) != 1 or type(n.ops[0]) not in CMP:
                self.err(n, "comparison form not understood")
            return self.compare(CMP[type(n.ops[0])], self.ev(n.left, env), self.ev(n.comparators[0], env), n)
        if isinstance(n, ast.Tuple):
            return Val(TUP, items=[self.ev(e, env) for e in n.elts])
        if isinstance(n, ast.Subscript):
            v = self.ev(n.value, env)
            i = n.slice
            if not (isinstance(i, ast.Constant) and isinstance(i.value, int) and not isinstance(i.value, bool) and i.value == 0):
                self.err(n, "subscript other than [0]")
            if v.ty != L2:
                self.err(n, "[0] of something that is not a (1, n) array")
            return Val(L, self.mat(v, n), ones=v.ones)        # the only row
        if isinstance(n, ast.Call):
            return self.call(n, env)
        self.err(n, "expression form not understood")

    def np_attr(self, f, env):
        """name of the numpy function when f is `np.<name>` (np not shadowed)"""
        if isinstance(f, ast.Attribute) and isinstance(f.value, ast.Name) and f.value.id == self.np_name \
                and f.value.id not in env.locals:
            return f.attr
        return None

    def call(self, n, env):
        f = n.func
        kw = {}
        for k in n.keywords:
            if k.arg is None or k.arg in kw:
                self.err(n, "keyword arguments not understood")
            kw[k.arg] = k.value
        npf = self.np_attr(f, env)
        builtin = f.id if isinstance(f, ast.Name) and f.id not in env.locals else None
        nargs = len(n.args)

        def args():
            return [self.ev(a, env) for a in n.args]

        def scalar1(what):
            if kw or nargs != 1:
                self.err(n, "%s takes one argument here" % what)
            v = self.ev(n.args[0], env)
            if v.ty != F:
                self.err(n, "%s of something that is not a float of the model" % what)
            return v.term
        if npf in ("abs", "sqrt", "ceil", "floor"):
            t = scalar1("np." + npf)
            if npf == "abs":
                return Val(F, "(rabs %s)" % t)
            if npf == "sqrt":
                return Val(F, "(rsqrt %s)" % t)
            return Val(IZ, "(%s %s)" % ("rceil" if npf == "ceil" else "rfloor", t))   # the integer the float result holds
        if builtin == "abs":
            return Val(F, "(rabs %s)" % scalar1("abs"))
        if builtin == "int":
            if kw or nargs != 1:
                self.err(n, "int takes one argument here")
            v = self.ev(n.args[0], env)
            if v.ty in (IZ, Z):
                return Val(Z, v.term)                         # int(np.ceil(x)) = rceil x : Z
            self.err(n, "int() of something other than np.ceil / np.floor (and `* literal`, max of them) or an int")
        if builtin == "len":
            if kw or nargs != 1 or self.ev(n.args[0], env).ty != ARGS:
                self.err(n, "len of something other than *args")
            return Val(LIT, None, lit=0)                      # the model is the four-argument call: args == ()
        if builtin == "max":
            if kw or nargs != 2:
                self.err(n, "max with other than two positional arguments")
            a, b = args()
            if not all(v.ty in (IZ, Z, LIT) for v in (a, b)) or (a.ty == LIT and b.ty == LIT):
                self.err(n, "max of floats (the model has only the integer max of np.ceil / np.floor / int values)")
            term = "(Z.max %s %s)" % tuple(self.zlit(v.lit) if v.ty == LIT else v.term for v in (a, b))
            return Val(IZ if IZ in (a.ty, b.ty) else Z, term)
        if builtin == "sum":
            if kw or nargs != 1:
                self.err(n, "sum takes one argument here")
            v = self.ev(n.args[0], env)
            if v.ty != L:
                self.err(n, "builtin sum of something that is not a 1-d float array")
            return Val(F, "(rsum %s)" % self.mat(v, n))       # ((0 + p0) + p1) + ...
        if npf == "sum":
            if kw or nargs != 1:
                self.err(n, "np.sum takes one argument here")
            v = self.ev(n.args[0], env)
            if v.ty not in (L, L2) or not v.ones:
                self.err(n, "np.sum (pairwise summation) of an array that is not np.ones(..): the model's rsum is the left-to-right sum")
            return Val(F, "(rsum %s)" % self.mat(v, n))
        if npf == "max":
            if kw or nargs != 1:
                self.err(n, "np.max takes one argument here")
            v = self.ev(n.args[0], env)
            if v.ty not in (L, L2):
                self.err(n, "np.max of something that is not a float array")
            return Val(F, "(rmaxl %s)" % self.mat(v, n))
        if npf == "ones":
            if kw or nargs != 1:
                self.err(n, "np.ones takes exactly one argument (the shape) here")
            v = self.ev(n.args[0], env)
            if v.ty == Z:
                return Val(L, "(ones %s)" % v.term, ones=True)
            if v.ty == TUP and len(v.items) == 2 and v.items[0].ty == LIT and v.items[0].lit == 1 and v.items[1].ty == Z:
                return Val(L2, "(ones %s)" % v.items[1].term, ones=True)
            self.err(n, "np.ones of a shape other than <int> or (1, <int>)")
        if npf == "linspace":
            if nargs != 2 or set(kw) != {"num"}:
                self.err(n, "np.linspace other than np.linspace(a, b, num=..)")
            a, b = args()
            num = self.ev(kw["num"], env)
            for r, lo, zexpr in ((b, a, IV), (a, b, None)):
                if r.ty == Z and lo.ty == LIT and lo.lit == 0 and re.fullmatch(r"[A-Za-z0-9_]+", r.term):
                    if num.ty != Z or num.term != "(%s + 1)" % r.term:
                        self.err(n, "np.linspace between 0 and r whose num is not `r + 1` (the samples are then not the integers)")
                    return Val(IDX, idx=(zexpr or "(%s - %s)" % (r.term, IV), num.term))
            self.err(n, "np.linspace other than (0, r, num=r + 1) / (r, 0, num=r + 1) with r an int variable")
        if npf == "concatenate":
            if kw or nargs != 1:
                self.err(n, "np.concatenate takes one tuple here")
            v = self.ev(n.args[0], env)
            if v.ty != TUP or len(v.items) < 2 or not all(x.ty == L for x in v.items):
                self.err(n, "np.concatenate of something other than a tuple of 1-d float arrays")
            parts = [self.mat(x, n) for x in v.items]
            term = parts[-1]
            for p in reversed(parts[:-1]):
                term = "(%s ++ %s)" % (p, term)
            return Val(L, term)
        if npf == "expand_dims":
            ax = kw.get("axis")
            if nargs != 1 or set(kw) != {"axis"} or not (isinstance(ax, ast.Constant) and ax.value == 0 and not isinstance(ax.value, bool)):
                self.err(n, "np.expand_dims other than np.expand_dims(v, axis=0)")
            v = self.ev(n.args[0], env)
            if v.ty == L:
                return Val(L2, self.mat(v, n), ones=v.ones)
            if v.ty == LIT:
                return Val(L2, "[%s]" % self.as_float(v, n))   # np.expand_dims(0, axis=0) = array([0])
            self.err(n, "np.expand_dims of something other than a 1-d float array or an integer literal")
        self.err(n, "call not understood")

    # ---- statements ------------------------------------------------------------------------
    def bind(self, env, name, v, node):
        if name in PROTECTED or name == self.np_name or name.endswith("__"):
            self.err(node, "assignment to the name `%s` the reading relies on" % name)
        if not isinstance(v, Val) or v.ty in (NP, ARGS, TUP, B):
            self.err(node, "a value of kind %s is assigned to a variable" % (v.ty if isinstance(v, Val) else "?"))
        if v.ty in (LIT, IDX):
            env.locals[name] = v                              # symbolic: nothing to emit
        elif v.ty in (L, L2):
            env.locals[name] = Val(v.ty, self.let(env, name, self.mat(v, node), node), ones=v.ones)
        else:
            env.locals[name] = Val(v.ty, self.let(env, name, v.term, node))

    def simple(self, s, env):
        if isinstance(s, ast.Pass):
            return
        if isinstance(s, ast.Expr) and isinstance(s.value, ast.Constant) and isinstance(s.value.value, str):
            return
        if isinstance(s, ast.Assign):
            if len(s.targets) != 1:
                self.err(s, "multiple assignment targets")
            t = s.targets[0]
            if isinstance(t, ast.Name):
                self.bind(env, t.id, self.ev(s.value, env), s)
                return
            if isinstance(t, ast.Tuple) and isinstance(s.value, ast.Tuple) and len(t.elts) == len(s.value.elts) \
                    and all(isinstance(e, ast.Name) for e in t.elts):
                vals = [self.ev(e, env) for e in s.value.elts]          # right-hand side first, then the bindings
                for e, v in zip(t.elts, vals):
                    self.bind(env, e.id, v, s)
                return
            self.err(s, "assignment target not understood")
        self.err(s, "statement form not understood (%s)" % type(s).__name__)

    def cond(self, test, env):
        v = self.ev(test, env)
        if isinstance(v, Val) and v.ty == LIT:
            return ("static", v.lit != 0)                     # `if rampsamp:` with rampsamp = 1
        if not (isinstance(v, Val) and v.ty == B):
            self.err(test, "condition is not a comparison of the model")
        if v.term in ("true", "false"):
            return ("static", v.term == "true")
        if v.term in env.facts:
            return ("static", env.facts[v.term])
        return ("bool", v.term)

    @staticmethod
    def indent(lines):
        return ["  " + x for x in lines]

    def run(self, stmts, env):
        stmts = list(stmts)
        while stmts:
            s = stmts.pop(0)
            if isinstance(s, ast.If):
                c = self.cond(s.test, env)
                if c[0] == "static":
                    stmts = list(s.body if c[1] else s.orelse) + stmts
                    continue
                e1, e2 = env.fork(), env.fork()
                e1.facts[c[1]] = True
                e2.facts[c[1]] = False
                cm = "   (* L%d: if %s *)" % (s.lineno, san(ast.unparse(s.test)))
                return env.lines + ["if %s then (%s" % (c[1], cm)] + self.indent(self.run(list(s.body) + stmts, e1)) \
                    + [") else ("] + self.indent(self.run(list(s.orelse) + stmts, e2)) + [")"]
            if isinstance(s, ast.Return):
                return env.lines + self.leaf(s, env)
            self.simple(s, env)
        raise TranslationError("%s: a path ends without a return" % self.fn.name)

    def leaf(self, s, env):
        if s.value is None:
            self.err(s, "return without a value")
        v = self.ev(s.value, env)
        if v.ty != TUP or len(v.items) != 2:
            self.err(s, "the returned value is not a pair (waveform, ramp count)")
        w, r = v.items
        if w.ty != L2:
            self.err(s, "the returned waveform is not a (1, n) array (np.expand_dims(.., axis=0) of a 1-d array)")
        if r.ty not in (Z, LIT):
            self.err(s, "the returned ramp count is not a Python int")
        return ["(%s, %s)   (* L%d: %s *)" % (self.mat(w, s), self.as_int(r, s), s.lineno, san(ast.unparse(s)))]

    def translate(self, nparams):
        a = self.fn.args
        if a.kwarg or a.kwonlyargs or a.posonlyargs or a.defaults or a.kw_defaults or self.fn.decorator_list:
            raise TranslationError("%s: signature / decorators not understood" % self.fn.name)
        names = [x.arg for x in a.args]
        if len(names) != nparams:
            raise TranslationError("%s takes %d named parameters, the model %d" % (self.fn.name, len(names), nparams))
        for nm in names + ([a.vararg.arg] if a.vararg else []):
            if nm in RESERVED or nm in PROTECTED or nm == self.np_name or nm.endswith("__") or not re.fullmatch(r"[A-Za-z_][A-Za-z0-9_]*", nm) \
                    or re.fullmatch(r".*_\d+", nm):
                raise TranslationError("%s: parameter name `%s` clashes with the generated text" % (self.fn.name, nm))
        for node in ast.walk(self.fn):
            if isinstance(node, (ast.Global, ast.Nonlocal, ast.FunctionDef, ast.AsyncFunctionDef, ast.Lambda, ast.ClassDef)) \
                    and node is not self.fn:
                raise TranslationError("%s, trajgrad.py line %d: nested definition / global statement" % (self.fn.name, node.lineno))
        env = Env()
        for nm in names:
            env.locals[nm] = Val(F, nm)                       # positive floats in the property; any T in the model
        if a.vararg:
            env.locals[a.vararg.arg] = Val(ARGS)              # the model is the call with no extra positional argument
        return names, self.run(self.fn.body, env)


# ---------------------------------------------------------------------------------------------
# module-level facts, rendering
# ---------------------------------------------------------------------------------------------
SPECS = [
    dict(py="trap_grad", gen="gen_trap_grad", hand="trap_grad", unfold=["trap_grad", "trap_pulse"]),
    dict(py="min_trap_grad", gen="gen_min_trap_grad", hand="min_trap_grad", unfold=["min_trap_grad", "min_trap_flat", "flat_of"]),
]
COVERED = "trap_grad, min_trap_grad"

TACTICS = """(* case analysis on every test that occurs (innermost first), then computation *)
Ltac tie_case :=
  match goal with
  | |- context [match ?c with _ => _ end] =>
      lazymatch c with
      | context [match _ with _ => _ end] => fail
      | _ => destruct c
      end
  end.
Ltac tie := cbv beta iota zeta; repeat (tie_case; cbv beta iota zeta); reflexivity.
"""

HEADER = """(* Gen_trap.v -- GENERATED by tools/translate_trap.py from sigpy/mri/rf/trajgrad.py (sha256 %s).  Do not edit.
   trap_grad and min_trap_grad as written in the source, over the operations record RealOps of model/Trap.v, and their
   agreement with the hand model (each lemma: unfolding, case analysis on the tests, reflexivity).
   Conventions: every Python assignment of a computed value is a `let` (comment: source line); float -> T, int -> Z
   (rofZ where it meets a float), np.ceil / np.floor -> the integer they hold (rceil / rfloor), `a > b` -> rltb b a;
   np.linspace(0, r, num=r+1) / (r, 0, ..) is the index range 0..r / r..0 over `ziota 0 (r+1)`, its first operation is fused
   with the int->float conversion; consecutive array-with-scalar operations of one expression are one `map`;
   np.ones((1, n)) and np.expand_dims(v, axis=0) are (1, n) arrays given by their row; the model is the call with
   exactly four arguments (`len(args)` is 0), tests on literals are decided here. *)
From Coq Require Import ZArith List Bool.
From SV Require Import model.Trap.
Import ListNotations.
Local Open Scope Z_scope.

"""


def module_facts(tree):
    """-> the local name of numpy; fails closed when a name the reading relies on is (re)bound in the module"""
    np_names = []
    for node in ast.walk(tree):
        if isinstance(node, ast.Import):
            for a in node.names:
                if a.name == "numpy":
                    np_names.append(a.asname or "numpy")
    if len(set(np_names)) != 1:
        raise TranslationError("trajgrad.py no longer imports numpy under exactly one name")
    np_name = np_names[0]
    funcs = {sp["py"] for sp in SPECS}
    watched = PROTECTED | {np_name} | funcs
    count = {f: 0 for f in funcs}
    for node in ast.walk(tree):
        if isinstance(node, (ast.FunctionDef, ast.AsyncFunctionDef, ast.ClassDef)) and node.name in watched:
            if isinstance(node, ast.FunctionDef) and node.name in funcs and any(node is s for s in tree.body):
                count[node.name] += 1
            else:
                raise TranslationError("trajgrad.py line %d: `%s` is (re)defined" % (node.lineno, node.name))
        if isinstance(node, (ast.Global, ast.Nonlocal)) and set(node.names) & watched:
            raise TranslationError("trajgrad.py line %d: global / nonlocal on a name the reading relies on" % node.lineno)
        if isinstance(node, (ast.Import, ast.ImportFrom)):
            for a in node.names:
                if a.name == "*":
                    raise TranslationError("trajgrad.py line %d: `import *`" % node.lineno)
                bound = a.asname or a.name.split(".")[0]
                if bound in watched and not (isinstance(node, ast.Import) and a.name == "numpy"):
                    raise TranslationError("trajgrad.py line %d: import rebinds `%s`" % (node.lineno, bound))

    def stores(node):
        """assignments outside function bodies"""
        for ch in ast.iter_child_nodes(node):
            if isinstance(ch, (ast.FunctionDef, ast.AsyncFunctionDef, ast.Lambda)):
                continue
            if isinstance(ch, ast.Name) and isinstance(ch.ctx, (ast.Store, ast.Del)) and ch.id in watched:
                raise TranslationError("trajgrad.py line %d: module-level name `%s` is rebound" % (ch.lineno, ch.id))
            stores(ch)
    stores(tree)
    for f, k in count.items():
        if k != 1:
            raise TranslationError("trajgrad.py defines %s %d times at module level" % (f, k))
    return np_name


def translate_source(src):
    """-> text of gen/Gen_trap.v"""
    tree = ast.parse(src)
    np_name = module_facts(tree)
    out = [HEADER % hashlib.sha256(src.encode()).hexdigest(), TACTICS, "Section Gen.", "  Context {T : RealOps}.", ""]
    for sp in SPECS:
        fn = [s for s in tree.body if isinstance(s, ast.FunctionDef) and s.name == sp["py"]][0]
        names, lines = Fn(fn, np_name).translate(4)
        bnd = " ".join(names)
        out.append("  (* %s  (trajgrad.py line %d) *)" % (sp["py"], fn.lineno))
        out.append("  Definition %s (%s : T) : list T * Z :=\n    %s." % (sp["gen"], bnd, "\n    ".join(lines)))
        out.append("  Lemma %s_ok : forall %s : T, %s %s = %s %s.\n  Proof. intros. unfold %s, %s. tie. Qed.\n"
                   % (sp["gen"], bnd, sp["gen"], bnd, sp["hand"], bnd, sp["gen"], ", ".join(sp["unfold"])))
    out.append("End Gen.")
    return "\n".join(out) + "\n"


def translate_trap(repo, path=None):
    return translate_source(open(path or os.path.join(repo, SRC_REL)).read())


def failing_lemma(gen_text, log):
    """name of the lemma / definition a coqc error message points into"""
    m = re.search(r'line (\d+), characters', log)
    if not m:
        return None
    lines = gen_text.split("\n")
    for i in range(min(int(m.group(1)), len(lines)) - 1, -1, -1):
        mm = re.match(r"\s*(?:Lemma|Definition)\s+([A-Za-z0-9_']+)", lines[i])
        if mm:
            return mm.group(1)
    return None


def tie(ctx):
    """The two obligations props/C20.py adds (DESIGN 2.10 steps 1-2): regenerate gen/Gen_trap.v from the tree under test,
    then compile it (the `_ok` lemmas ARE the tie).  Returns None when both hold, else {"theorem": <translator or lemma>,
    "log": ...} for the no-failing-input report."""
    from tools import translate_all
    from vlib import core
    tr_err = translate_all.run(strict=False, only=["trap"])
    ctx.source_hash(SRC_REL)
    ctx.obligation("translate:%s (%s)" % (SRC_REL, COVERED), not tr_err)
    name = "tie:generated == hand model (gen/Gen_trap.v: gen_trap_grad_ok, gen_min_trap_grad_ok)"
    if tr_err:
        ctx.notes.append("translator failed closed: %s" % tr_err)
        ctx.obligation(name, False)
        return {"theorem": "translate:" + SRC_REL, "log": str(tr_err)}
    ctx.checker_cmds.append("cd %s && make gen/Gen_trap.vo" % core.COQ)
    ok, log = core.coq_make(["gen/Gen_trap.vo"], timeout=600)
    ctx.obligation(name, ok)
    if ok:
        return None
    lem = None
    m = re.search(r'File "[^"]*?Gen_trap\.v", line (\d+)', log)
    if m:
        try:
            lem = failing_lemma(open(os.path.join(core.COQ, "gen", "Gen_trap.v")).read(), "line %s, characters" % m.group(1))
        except OSError:
            lem = None
    which = "%s (gen/Gen_trap.v)" % (lem or "?")
    ctx.notes.append("generated trapezoid designers no longer equal the hand model: %s: %s" % (which, log[-1200:]))
    return {"theorem": "tie:" + which, "log": log[-2500:]}


if __name__ == "__main__":
    args = [a for a in sys.argv[1:] if not a.startswith("--")]
    sys.stdout.write(translate_trap(args[0] if args else "/repo"))
