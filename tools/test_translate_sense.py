#!/usr/bin/env python3
"""Self-test of tools/translate_sense.py: small textual mutations of a COPY of sigpy/mri/linop.py, sigpy/mri/app.py and of the
library signatures it reads (sigpy/linop.py).

For every mutation the copy is translated; expected outcome: the translation FAILS CLOSED (TranslationError naming the line) or
the first lemma of Gen_sense.v that no longer compiles is named.  The unmodified source and the meaning-preserving edits that
keep the AST shape must pass; meaning-preserving edits that change the generated TERM are listed with the expectation
"breaks" (accepted by the brief: the check then falls back to the correspondence and the oracle).  "uncov": a defect in a
part this translation does not read (tseg / comm branches) -- expected to pass, listed to be honest about the coverage.
Scratch copies: /verif/build/trsense_selftest/<name>/{sigpy/...,Gen_sense.v}.

    /venv/bin/python tools/test_translate_sense.py [repo] [--no-seeded]        exit 0 = everything as expected
"""
import concurrent.futures
import os
import shutil
import subprocess
import sys
import time

HERE = os.path.dirname(os.path.abspath(__file__))
sys.path.insert(0, os.path.dirname(HERE))
from tools import translate_sense as T      # noqa: E402
from vlib import core                      # noqa: E402

SCRATCH = os.path.join(core.BUILD, "trsense_selftest")
ML, MA, LL = T.SRC_LINOP, T.SRC_APP, T.LIB_LINOP

W_SLICE = "                return weights[\n                    c * coil_batch_size : ((c + 1) * coil_batch_size)\n                ]"
M_SLICE = "mps[c * coil_batch_size : ((c + 1) * coil_batch_size)]"
Y_W = "y = sp.to_device(y * weights**0.5, device=device)"

# (name, file, old text, new text, which occurrence (0-based; -1 = all), expectation)
MUTATIONS = [
    # ---- sigpy/mri/linop.py: Sense ------------------------------------------------------------------------------------------
    ("ishape_from_axis_2", ML, "ishape = mps.shape[1:]", "ishape = mps.shape[2:]", 0, "caught"),
    ("img_ndim_is_mps_ndim", ML, "img_ndim = mps.ndim - 1", "img_ndim = mps.ndim", 0, "caught"),
    ("img_ndim_len_minus_1", ML, "img_ndim = len(ishape)", "img_ndim = len(ishape) - 1", 0, "caught"),
    ("batch_test_le", ML, "if coil_batch_size < len(mps):", "if coil_batch_size <= len(mps):", 0, "caught"),
    ("batch_test_reversed", ML, "if coil_batch_size < len(mps):", "if len(mps) < coil_batch_size:", 0, "caught"),
    ("default_batch_is_1", ML, "        coil_batch_size = num_coils\n", "        coil_batch_size = 1\n", 0, "caught"),
    ("nbatches_floor", ML, "num_coil_batches = (num_coils + coil_batch_size - 1) // coil_batch_size", "num_coil_batches = num_coils // coil_batch_size", 0, "caught"),
    ("nbatches_off_by_one", ML, "num_coil_batches = (num_coils + coil_batch_size - 1) // coil_batch_size", "num_coil_batches = (num_coils + coil_batch_size) // coil_batch_size", 0, "caught"),
    ("ksp_ndim_cart", ML, "ksp_ndim = img_ndim + 1", "ksp_ndim = img_ndim", 0, "caught"),
    ("ksp_ndim_noncart", ML, "ksp_ndim = coord.ndim", "ksp_ndim = coord.ndim - 1", 0, "caught"),
    ("coil_axis_test_rank_dropped", ML, "                and weights.ndim == ksp_ndim\n", "", 0, "caught"),
    ("coil_axis_test_extent", ML, "and weights.shape[0] == num_coils", "and weights.shape[0] == coil_batch_size", 0, "caught"),
    ("coil_axis_test_last_axis", ML, "and weights.shape[0] == num_coils", "and weights.shape[-1] == num_coils", 0, "caught"),
    ("weights_slice_c_c_plus_b", ML, W_SLICE, "                return weights[c : c + coil_batch_size]", 0, "caught"),
    ("weights_slice_first_batch", ML, W_SLICE, "                return weights[0:coil_batch_size]", 0, "caught"),
    ("maps_slice_short", ML, M_SLICE, "mps[c * coil_batch_size : ((c + 1) * coil_batch_size - 1)]", 0, "caught"),
    ("maps_slice_c_c_plus_b", ML, M_SLICE, "mps[c : c + coil_batch_size]", 0, "caught"),
    ("plain_weights_dropped_when_batching", ML, "            return weights\n\n        A = sp.linop.Vstack(", "            return None\n\n        A = sp.linop.Vstack(", 0, "caught"),
    ("weights_not_split_F16", ML, "weights=batch_weights(c),", "weights=weights,", 0, "caught"),
    ("tseg_not_forwarded_F17", ML, "                    tseg=tseg,\n                    ishape=ishape,", "                    ishape=ishape,", 0, "caught"),
    ("transp_not_forwarded_F17", ML, "                    ishape=ishape,\n                    transp_nufft=transp_nufft,\n", "                    ishape=ishape,\n", 0, "caught"),
    ("ishape_not_forwarded", ML, "                    tseg=tseg,\n                    ishape=ishape,", "                    tseg=tseg,", 0, "caught"),
    ("coord_not_forwarded", ML, "                    coord=coord,\n                    weights=batch_weights(c),", "                    weights=batch_weights(c),", 0, "caught"),
    ("batch_size_forwarded", ML, "                    ishape=ishape,\n                    transp_nufft=transp_nufft,\n", "                    ishape=ishape,\n                    transp_nufft=transp_nufft,\n                    coil_batch_size=coil_batch_size,\n", 0, "caught"),
    ("vstack_axis_1", ML, "            axis=0,\n        )", "            axis=1,\n        )", 0, "caught"),
    ("vstack_axis_none", ML, "            ],\n            axis=0,\n        )", "            ],\n        )", 0, "caught"),
    ("hstack_for_vstack", ML, "A = sp.linop.Vstack(", "A = sp.linop.Hstack(", 0, "caught"),
    ("batches_one_short", ML, "for c in range(num_coil_batches)", "for c in range(num_coil_batches - 1)", 0, "caught"),
    ("batches_from_1", ML, "for c in range(num_coil_batches)", "for c in range(1, num_coil_batches)", 0, "caught"),
    ("multiply_conj", ML, "S = sp.linop.Multiply(ishape, mps)", "S = sp.linop.Multiply(ishape, mps, conj=True)", 0, "caught"),
    ("fft_axes_short", ML, "axes=range(-img_ndim, 0)", "axes=range(-img_ndim + 1, 0)", 0, "caught"),
    ("fft_all_axes", ML, "F = sp.linop.FFT(S.oshape, axes=range(-img_ndim, 0))", "F = sp.linop.FFT(S.oshape)", 0, "caught"),
    ("fft_not_centred", ML, "F = sp.linop.FFT(S.oshape, axes=range(-img_ndim, 0))", "F = sp.linop.FFT(S.oshape, axes=range(-img_ndim, 0), center=False)", 0, "caught"),
    ("ifft_for_fft", ML, "F = sp.linop.FFT(S.oshape,", "F = sp.linop.IFFT(S.oshape,", 0, "caught"),
    ("fft_on_ishape", ML, "F = sp.linop.FFT(S.oshape,", "F = sp.linop.FFT(S.ishape,", 0, "caught"),
    ("transp_minus_dropped", ML, "F = sp.linop.NUFFT(S.oshape, -coord).H", "F = sp.linop.NUFFT(S.oshape, coord).H", 0, "caught"),
    ("transp_adjoint_dropped", ML, "F = sp.linop.NUFFT(S.oshape, -coord).H", "F = sp.linop.NUFFT(S.oshape, -coord)", 0, "caught"),
    ("transp_branches_swapped", ML, "if transp_nufft is False:\n                F = sp.linop.NUFFT(S.oshape, coord)\n            else:\n                F = sp.linop.NUFFT(S.oshape, -coord).H\n\n        A = F * S",
     "if transp_nufft is False:\n                F = sp.linop.NUFFT(S.oshape, -coord).H\n            else:\n                F = sp.linop.NUFFT(S.oshape, coord)\n\n        A = F * S", 0, "caught"),
    ("nufft_oversamp_2", ML, "F = sp.linop.NUFFT(S.oshape, coord)\n            else:\n                F = sp.linop.NUFFT(S.oshape, -coord).H\n\n        A = F * S",
     "F = sp.linop.NUFFT(S.oshape, coord, oversamp=2)\n            else:\n                F = sp.linop.NUFFT(S.oshape, -coord).H\n\n        A = F * S", 0, "caught"),
    ("compose_order", ML, "        A = F * S\n", "        A = S * F\n", 0, "caught"),
    ("sqrt_dropped", ML, "P = sp.linop.Multiply(F.oshape, weights**0.5)", "P = sp.linop.Multiply(F.oshape, weights)", 0, "caught"),
    ("sqrt_is_square", ML, "P = sp.linop.Multiply(F.oshape, weights**0.5)", "P = sp.linop.Multiply(F.oshape, weights**2)", 0, "caught"),
    ("weights_on_image_side", ML, "P = sp.linop.Multiply(F.oshape, weights**0.5)", "P = sp.linop.Multiply(S.oshape, weights**0.5)", 0, "caught"),
    ("weights_applied_first", ML, "        A = P * A\n\n    if comm is not None:\n        C = sp.linop.AllReduceAdjoint(ishape, comm, in_place=True)\n        A = A * C\n\n    A.repr_str",
     "        A = A * P\n\n    if comm is not None:\n        C = sp.linop.AllReduceAdjoint(ishape, comm, in_place=True)\n        A = A * C\n\n    A.repr_str", 0, "caught"),
    ("weights_never_applied", ML, "        A = P * A\n\n    if comm is not None:\n        C = sp.linop.AllReduceAdjoint(ishape, comm, in_place=True)\n        A = A * C\n\n    A.repr_str",
     "        A = A\n\n    if comm is not None:\n        C = sp.linop.AllReduceAdjoint(ishape, comm, in_place=True)\n        A = A * C\n\n    A.repr_str", 0, "caught"),
    ("weights_test_inverted", ML, "    if weights is not None:\n        with sp.get_device(weights):\n            P = sp.linop.Multiply(F.oshape", "    if weights is None:\n        with sp.get_device(weights):\n            P = sp.linop.Multiply(F.oshape", 0, "caught"),
    ("returns_S", ML, "    A.repr_str = \"Sense\"\n    return A", "    A.repr_str = \"Sense\"\n    return S", 0, "caught"),
    ("default_transp_true", ML, "    transp_nufft=False,\n):\n    \"\"\"Sense linear operator.", "    transp_nufft=True,\n):\n    \"\"\"Sense linear operator.", 0, "caught"),
    ("parameter_order", ML, "    coord=None,\n    weights=None,\n    tseg=None,\n    ishape=None,\n    coil_batch_size=None,\n    comm=None,\n    transp_nufft=False,\n):\n    \"\"\"Sense",
     "    weights=None,\n    coord=None,\n    tseg=None,\n    ishape=None,\n    coil_batch_size=None,\n    comm=None,\n    transp_nufft=False,\n):\n    \"\"\"Sense", 0, "caught"),
    ("closure_variable_reassigned", ML, "        A = sp.linop.Vstack(\n", "        weights = None\n        A = sp.linop.Vstack(\n", 0, "caught"),
    ("module_rebinds_Sense", ML, "\n\ndef ConvImage(", "\n\nSense = ConvSense\n\n\ndef ConvImage(", 0, "caught"),
    # ---- sigpy/linop.py: the constructor signatures Sense relies on -----------------------------------------------------------
    ("lib_nufft_default_oversamp", LL, "def __init__(self, ishape, coord, oversamp=1.25, width=4, toeplitz=False):", "def __init__(self, ishape, coord, oversamp=1.5, width=4, toeplitz=False):", 0, "caught"),
    ("lib_nufft_default_width", LL, "def __init__(self, ishape, coord, oversamp=1.25, width=4, toeplitz=False):", "def __init__(self, ishape, coord, oversamp=1.25, width=3, toeplitz=False):", 0, "caught"),
    ("lib_fft_default_center", LL, "def __init__(self, shape, axes=None, center=True):", "def __init__(self, shape, axes=None, center=False):", 0, "caught"),
    ("lib_multiply_default_conj", LL, "def __init__(self, ishape, mult, conj=False):", "def __init__(self, ishape, mult, conj=True):", 0, "caught"),
    ("lib_multiply_param_order", LL, "def __init__(self, ishape, mult, conj=False):", "def __init__(self, mult, ishape, conj=False):", 0, "caught"),
    # ---- sigpy/mri/app.py ---------------------------------------------------------------------------------------------------
    ("ew_mask_for_noncart", MA, "if weights is None and coord is None:", "if weights is None:", 0, "caught"),
    ("ew_mask_overrides_weights", MA, "if weights is None and coord is None:", "if coord is None:", 0, "caught"),
    ("ew_mask_ge", MA, "(sp.rss(y, axes=(0,)) > 0).astype(y.dtype)", "(sp.rss(y, axes=(0,)) >= 0).astype(y.dtype)", 0, "caught"),
    ("ew_mask_axis_1", MA, "(sp.rss(y, axes=(0,)) > 0).astype(y.dtype)", "(sp.rss(y, axes=(1,)) > 0).astype(y.dtype)", 0, "caught"),
    ("ew_returns_none", MA, "\n    return weights\n\n\nclass SenseRecon", "\n    return None\n\n\nclass SenseRecon", 0, "caught"),
    ("sr_data_sqrt_dropped", MA, Y_W, "y = sp.to_device(y * weights, device=device)", 0, "caught"),
    ("sr_data_in_place", MA, Y_W, "y *= weights**0.5", 0, "caught"),
    ("sr_data_not_weighted", MA, Y_W, "y = sp.to_device(y, device=device)", 0, "caught"),
    ("sr_data_test_inverted", MA, "        if weights is not None:\n            " + Y_W, "        if weights is None:\n            " + Y_W, 0, "caught"),
    ("sr_operator_without_weights", MA, "            coord=coord,\n            weights=weights,\n            tseg=tseg,", "            coord=coord,\n            tseg=tseg,", 0, "caught"),
    ("sr_weights_before_estimate", MA, "        weights = _estimate_weights(y, weights, coord)\n        if weights is not None:\n            " + Y_W + "\n        else:\n            y = sp.to_device(y, device=device)\n\n        A = linop.Sense(\n            mps,\n            coord=coord,\n            weights=weights,\n            tseg=tseg,",
     "        w_est = _estimate_weights(y, weights, coord)\n        if w_est is not None:\n            y = sp.to_device(y * w_est**0.5, device=device)\n        else:\n            y = sp.to_device(y, device=device)\n\n        A = linop.Sense(\n            mps,\n            coord=coord,\n            weights=weights,\n            tseg=tseg,", 0, "caught"),
    ("sr_batch_not_passed", MA, "            tseg=tseg,\n            coil_batch_size=coil_batch_size,\n", "            tseg=tseg,\n", 0, "caught"),
    ("sr_transp_not_passed", MA, "            comm=comm,\n            transp_nufft=transp_nufft,\n        )\n\n        if comm is not None:\n            show_pbar = show_pbar and comm.rank == 0\n\n        super().__init__(A, y, lamda=lamda",
     "            comm=comm,\n        )\n\n        if comm is not None:\n            show_pbar = show_pbar and comm.rank == 0\n\n        super().__init__(A, y, lamda=lamda", 0, "caught"),
    ("sr_coord_weights_swapped", MA, "            coord=coord,\n            weights=weights,\n            tseg=tseg,", "            coord=weights,\n            weights=coord,\n            tseg=tseg,", 0, "caught"),
    ("sr_lamda_not_passed", MA, "super().__init__(A, y, lamda=lamda, show_pbar=show_pbar, **kwargs)", "super().__init__(A, y, show_pbar=show_pbar, **kwargs)", 0, "caught"),
    ("sr_kwargs_not_forwarded", MA, "super().__init__(A, y, lamda=lamda, show_pbar=show_pbar, **kwargs)", "super().__init__(A, y, lamda=lamda, show_pbar=show_pbar)", 0, "caught"),
    ("sr_fixes_solver", MA, "super().__init__(A, y, lamda=lamda, show_pbar=show_pbar, **kwargs)", "super().__init__(A, y, lamda=lamda, show_pbar=show_pbar, max_iter=30, **kwargs)", 0, "caught"),
    ("sr_default_lamda_1", MA, "        mps,\n        lamda=0,\n", "        mps,\n        lamda=1,\n", 0, "caught"),
    ("l1_img_shape_with_coils", MA, "img_shape = mps.shape[1:]", "img_shape = mps.shape", 0, "caught"),
    ("l1_prox_on_image_shape", MA, "sp.prox.L1Reg(W.oshape, lamda)", "sp.prox.L1Reg(W.ishape, lamda)", 0, "caught"),
    ("l1_prox_adjoint_transform", MA, "proxg = sp.prox.UnitaryTransform(sp.prox.L1Reg(W.oshape, lamda), W)", "proxg = sp.prox.UnitaryTransform(sp.prox.L1Reg(W.oshape, lamda), W.H)", 0, "caught"),
    ("l1_prox_not_transformed", MA, "proxg = sp.prox.UnitaryTransform(sp.prox.L1Reg(W.oshape, lamda), W)", "proxg = sp.prox.L1Reg(W.ishape, lamda)", 0, "caught"),
    ("l1_proxg_not_passed", MA, "super().__init__(A, y, proxg=proxg, g=g, show_pbar=show_pbar, **kwargs)", "super().__init__(A, y, g=g, show_pbar=show_pbar, **kwargs)", 0, "caught"),
    ("l1_adds_l2", MA, "super().__init__(A, y, proxg=proxg, g=g, show_pbar=show_pbar, **kwargs)", "super().__init__(A, y, proxg=proxg, g=g, lamda=lamda, show_pbar=show_pbar, **kwargs)", 0, "caught"),
    ("l1_objective_without_W", MA, "return lamda * xp.sum(xp.abs(W(input))).item()", "return lamda * xp.sum(xp.abs(input)).item()", 0, "caught"),
    ("l1_objective_without_abs", MA, "return lamda * xp.sum(xp.abs(W(input))).item()", "return lamda * xp.sum(W(input)).item()", 0, "caught"),
    ("l1_wavelet_level_1", MA, "W = sp.linop.Wavelet(img_shape, wave_name=wave_name)", "W = sp.linop.Wavelet(img_shape, wave_name=wave_name, level=1)", 0, "caught"),
    ("tv_in_plane_only", MA, "G = sp.linop.FiniteDifference(A.ishape)", "G = sp.linop.FiniteDifference(A.ishape, axes=(-2, -1))", 0, "caught"),
    ("tv_G_on_kspace_shape", MA, "G = sp.linop.FiniteDifference(A.ishape)", "G = sp.linop.FiniteDifference(A.oshape)", 0, "caught"),
    ("tv_prox_on_image_shape", MA, "proxg = sp.prox.L1Reg(G.oshape, lamda)", "proxg = sp.prox.L1Reg(A.ishape, lamda)", 0, "caught"),
    ("tv_G_not_passed", MA, "            A, y, proxg=proxg, g=g, G=G, show_pbar=show_pbar, **kwargs", "            A, y, proxg=proxg, g=g, show_pbar=show_pbar, **kwargs", 0, "caught"),
    ("tv_data_in_place", MA, Y_W, "y *= weights**0.5", 2, "caught"),
    ("tv_operator_without_weights", MA, "            coord=coord,\n            weights=weights,\n            comm=comm,", "            coord=coord,\n            comm=comm,", 1, "caught"),
    ("tv_overrides_objective", MA, "\n\nclass JsenseRecon", "\n    def objective(self):\n        return 0.0\n\n\nclass JsenseRecon", 0, "caught"),
    # ---- defects in the parts this translation does not read (tseg / comm branches): NOT caught, by construction ----------------
    ("uncov_tseg_loop", ML, "A = A + Bi * F * S * Cti", "A = A - Bi * F * S * Cti", 0, "uncov"),
    ("uncov_comm_allreduce", ML, "C = sp.linop.AllReduceAdjoint(ishape, comm, in_place=True)", "C = sp.linop.AllReduceAdjoint(ishape, comm, in_place=False)", -1, "uncov"),
    # ---- meaning-preserving edits that keep the AST shape: the tie must survive them -------------------------------------------
    ("neutral_rename_local", ML, "num_coil_batches", "nb", -1, "pass"),
    ("neutral_rename_closure", ML, "batch_weights", "bw", -1, "pass"),
    ("neutral_comments", ML, "    # Create Sense linear operator\n", "    # build the operator for all coils at once\n    # (no batching)\n", 0, "pass"),
    ("neutral_unused_local", ML, "    # Create Sense linear operator\n", "    ncoils_again = len(mps)\n", 0, "pass"),
    ("neutral_keyword_order", ML, "                    coord=coord,\n                    weights=batch_weights(c),", "                    weights=batch_weights(c),\n                    coord=coord,", 0, "pass"),
    ("neutral_inverted_test", ML, "        if coord is None:\n            ksp_ndim = img_ndim + 1\n        else:\n            ksp_ndim = coord.ndim\n",
     "        if coord is not None:\n            ksp_ndim = coord.ndim\n        else:\n            ksp_ndim = img_ndim + 1\n", 0, "pass"),
    ("neutral_intermediate_name", ML, "        A = F * S\n", "        FS = F * S\n        A = FS\n", 0, "pass"),
    ("neutral_explicit_defaults", ML, "S = sp.linop.Multiply(ishape, mps)", "S = sp.linop.Multiply(ishape, mps, conj=False)", 0, "pass"),
    ("neutral_positional_device", MA, Y_W, "y = sp.to_device(y * weights**0.5, device)", 0, "pass"),
    ("neutral_app_rename", MA, "img_shape", "image_shape", -1, "pass"),
    ("neutral_app_docstring", MA, "    r\"\"\"SENSE Reconstruction.", "    r\"\"\"SENSE reconstruction (edited docstring).", 0, "pass"),
    ("neutral_dead_tseg_edit", ML, "time = len(coord) * tseg[\"dt\"]", "duration = len(coord) * tseg[\"dt\"]\n        time = duration", 0, "pass"),
    # ---- meaning-preserving edits that change the TERM: reported (accepted) -----------------------------------------------------
    ("refactor_slice_bound_expanded", ML, M_SLICE, "mps[c * coil_batch_size : (c * coil_batch_size + coil_batch_size)]", 0, "breaks"),
    ("refactor_len_as_shape0", ML, "if coil_batch_size < len(mps):", "if coil_batch_size < mps.shape[0]:", 0, "breaks"),
    ("refactor_commuted_sum", ML, "ksp_ndim = img_ndim + 1", "ksp_ndim = 1 + img_ndim", 0, "breaks"),
    ("refactor_is_true", ML, "if transp_nufft is False:\n                F = sp.linop.NUFFT(S.oshape, coord)\n            else:\n                F = sp.linop.NUFFT(S.oshape, -coord).H\n\n        A = F * S",
     "if transp_nufft:\n                F = sp.linop.NUFFT(S.oshape, -coord).H\n            else:\n                F = sp.linop.NUFFT(S.oshape, coord)\n\n        A = F * S", 0, "breaks"),
]


def nth_replace(text, old, new, k):
    if k == -1:
        assert old in text, old
        return text.replace(old, new)
    idx = -1
    for _ in range(k + 1):
        idx = text.find(old, idx + 1)
        if idx < 0:
            raise AssertionError("pattern not found (occurrence %d): %r" % (k, old))
    return text[:idx] + new + text[idx + len(old):]


def compile_gen(path):
    p = subprocess.run(["coqc", "-w", "-all", "-Q", core.COQ, "SV", path], cwd=os.path.dirname(path),
                       stdout=subprocess.PIPE, stderr=subprocess.STDOUT, text=True, timeout=600)
    return p.returncode, p.stdout


def one(name, texts):
    """texts: {relative path: text} for all of T.SOURCES; written to the scratch copy, translated from there, compiled"""
    d = os.path.join(SCRATCH, name.replace(":", "_"))
    shutil.rmtree(d, ignore_errors=True)
    for rel, text in texts.items():
        os.makedirs(os.path.dirname(os.path.join(d, rel)), exist_ok=True)
        with open(os.path.join(d, rel), "w") as f:
            f.write(text)
    try:
        text = T.translate_sense(d)               # reads the copies under <d>/sigpy/
    except T.TranslationError as e:
        return ("fails closed", str(e))
    except SyntaxError as e:
        return ("fails closed", "SyntaxError: %s" % e)
    path = os.path.join(d, "Gen_sense.v")
    with open(path, "w") as f:
        f.write(text)
    rc, out = compile_gen(path)
    if rc == 0:
        return ("ok", "")
    return ("lemma fails", str(T.failing_lemma(text, out)))


def seeded_patches(texts0):
    """the seeded changes of /verif/seeded for C16 (informational): those that touch a file the translator reads"""
    out = []
    root = os.path.join(core.VERIF, "seeded")
    for name in sorted(os.listdir(root)) if os.path.isdir(root) else []:
        patch = os.path.join(root, name, "patch.diff")
        if not name.startswith("C16_") or not os.path.exists(patch):
            continue
        files = [l.split()[1][2:] for l in open(patch) if l.startswith("+++ ")]
        if not any(f in T.SOURCES for f in files):
            out.append(("seeded:" + name, None, "touches %s only (not read)" % ", ".join(files)))
            continue
        d = os.path.join(SCRATCH, "seeded_src_" + name)
        shutil.rmtree(d, ignore_errors=True)
        for rel, text in texts0.items():
            os.makedirs(os.path.dirname(os.path.join(d, rel)), exist_ok=True)
            open(os.path.join(d, rel), "w").write(text)
        p = subprocess.run(["patch", "-p1", "-s", "--no-backup-if-mismatch", "-d", d, "-i", patch],
                           stdout=subprocess.PIPE, stderr=subprocess.STDOUT, text=True)
        if p.returncode:
            out.append(("seeded:" + name, None, "does not apply"))
            continue
        out.append(("seeded:" + name + " (" + ", ".join(files) + ")", {rel: open(os.path.join(d, rel)).read() for rel in texts0}, "info"))
        shutil.rmtree(d, ignore_errors=True)
    return out


def main():
    pos = [a for a in sys.argv[1:] if not a.startswith("--")]
    repo = pos[0] if pos else core.REPO
    t0 = time.time()
    ok, log = core.coq_make(["model/SenseRecon.vo"], timeout=900)
    if not ok:
        print("cannot build the hand model:\n" + log[-1500:])
        return 2
    texts0 = T.read_sources(repo)
    jobs = [("UNMODIFIED", texts0, "pass")]
    for name, rel, old, new, k, expect in MUTATIONS:
        t = dict(texts0)
        t[rel] = nth_replace(texts0[rel], old, new, k)
        jobs.append((name, t, expect))
    notes = []
    if "--no-seeded" not in sys.argv:
        for j in seeded_patches(texts0):
            if j[1] is None:
                notes.append("%s: %s" % (j[0], j[2]))
            else:
                jobs.append(j)
    with concurrent.futures.ThreadPoolExecutor(max_workers=8) as ex:
        results = list(ex.map(lambda j: one(j[0], j[1]), jobs))
    bad = 0
    tally = {}
    print("%-38s %-8s %-9s %s" % ("mutation", "expected", "verdict", "how"))
    for (name, _, expect), (how, detail) in zip(jobs, results):
        verdict = "pass" if how == "ok" else "caught"
        good = expect == "info" or verdict == {"caught": "caught", "breaks": "caught", "pass": "pass", "uncov": "pass"}[expect]
        bad += 0 if good else 1
        tally[(expect, how)] = tally.get((expect, how), 0) + 1
        print("%-38s %-8s %-9s %s%s" % (name, expect, verdict + ("" if good else " (!!)"), how, (": " + detail[:230]) if detail else ""))
    for n in notes:
        print(n)
    print("; ".join("%s/%s: %d" % (e, h, n) for (e, h), n in sorted(tally.items())))
    print("%d cases, %d unexpected, %.1fs" % (len(jobs), bad, time.time() - t0))
    return 1 if bad else 0


if __name__ == "__main__":
    sys.exit(main())
