#!/usr/bin/env python3
"""Self-test of tools/translate_espirit.py: small textual mutations of a COPY of sigpy/mri/app.py (class EspiritCalib), and a few
of sigpy/alg.py (PowerMethod) and sigpy/app.py (App).

For every mutation the copy is translated; expected outcome: the translation FAILS CLOSED (TranslationError naming the line) or
the first `_ok` lemma of Gen_espirit.v (or of the regenerated Gen_alg.v) that no longer compiles is named.  The unmodified source
and the meaning-preserving edits marked "pass" must still be accepted.
Scratch copies: /verif/build/trespirit_selftest/<name>/{sigpy/...,Gen_espirit.v[,Gen_alg.v]}.

    /venv/bin/python tools/test_translate_espirit.py [repo] [--no-seeded]       exit 0 = everything as expected
"""
import concurrent.futures
import os
import shutil
import subprocess
import sys
import time

HERE = os.path.dirname(os.path.abspath(__file__))
sys.path.insert(0, os.path.dirname(HERE))
from tools import translate_espirit as T      # noqa: E402
from tools import translate_alg as TA         # noqa: E402
from vlib import core                         # noqa: E402

SCRATCH = os.path.join(core.BUILD, "trespirit_selftest")

# (name, file, old text, new text, which occurrence (0-based; -1 = all), expectation)
MUTATIONS = [
    # ---- _output ----
    ("out_crop_ge", "mri", "mps *= max_eig > self.crop", "mps *= max_eig >= self.crop", 0, "caught"),
    ("out_crop_swapped", "mri", "mps *= max_eig > self.crop", "mps *= max_eig < self.crop", 0, "caught"),
    ("out_crop_relative", "mri", "mps *= max_eig > self.crop", "mps *= max_eig > self.crop * max_eig.max()", 0, "caught"),
    ("out_crop_dropped", "mri", "            mps *= max_eig > self.crop\n", "", 0, "caught"),
    ("out_crop_on_thresh", "mri", "mps *= max_eig > self.crop", "mps *= max_eig > 0.95", 0, "caught"),
    ("out_phase_conj_dropped", "mri", "mps *= xp.conj(mps[0] / xp.abs(mps[0]))", "mps *= mps[0] / xp.abs(mps[0])", 0, "caught"),
    ("out_phase_abs_dropped", "mri", "mps *= xp.conj(mps[0] / xp.abs(mps[0]))", "mps *= xp.conj(mps[0] / mps[0])", 0, "caught"),
    ("out_phase_coil1", "mri", "mps *= xp.conj(mps[0] / xp.abs(mps[0]))", "mps *= xp.conj(mps[1] / xp.abs(mps[1]))", 0, "caught"),
    ("out_phase_not_normalised", "mri", "mps *= xp.conj(mps[0] / xp.abs(mps[0]))", "mps *= xp.conj(mps[0])", 0, "caught"),
    ("out_phase_after_crop", "mri", "            mps *= xp.conj(mps[0] / xp.abs(mps[0]))\n\n            # Crop maps by thresholding eigenvalue\n"
     "            max_eig = self.alg.max_eig.T[0]\n            mps *= max_eig > self.crop\n",
     "            max_eig = self.alg.max_eig.T[0]\n            mps *= max_eig > self.crop\n            mps *= xp.conj(mps[0] / xp.abs(mps[0]))\n", 0, "caught"),
    ("out_eig_not_transposed", "mri", "max_eig = self.alg.max_eig.T[0]", "max_eig = self.alg.max_eig", 0, "caught"),
    ("out_maps_not_transposed", "mri", "mps = self.mps.T[0]", "mps = self.mps[0]", 0, "caught"),
    ("out_returns_swapped", "mri", "            return mps, max_eig\n        else:\n            return mps\n",
     "            return mps\n        else:\n            return mps, max_eig\n", 0, "caught"),
    ("out_returns_eig_first", "mri", "return mps, max_eig", "return max_eig, mps", 0, "caught"),
    # ---- __init__: signature and attributes ----
    ("init_default_crop", "mri", "        crop=0.95,\n", "        crop=0.9,\n", 0, "caught"),
    ("init_default_thresh", "mri", "        thresh=0.02,\n        kernel_width=6,", "        thresh=0.01,\n        kernel_width=6,", 0, "caught"),
    ("init_default_kernel_width", "mri", "        thresh=0.02,\n        kernel_width=6,", "        thresh=0.02,\n        kernel_width=5,", 0, "caught"),
    ("init_default_eig_output", "mri", "        output_eigenvalue=False,\n", "        output_eigenvalue=True,\n", 0, "caught"),
    ("init_param_order", "mri", "        calib_width=24,\n        thresh=0.02,\n", "        thresh=0.02,\n        calib_width=24,\n", 0, "caught"),
    ("init_crop_or_default", "mri", "        self.crop = crop\n", "        self.crop = crop or 0.95\n", 0, "caught"),
    ("init_crop_is_thresh", "mri", "        self.crop = crop\n", "        self.crop = thresh\n", 0, "caught"),
    # ---- __init__: calibration matrix ----
    ("init_ndim_off_by_one", "mri", "img_ndim = ksp.ndim - 1", "img_ndim = ksp.ndim", 0, "caught"),
    ("init_calib_uses_kernel_width", "mri", "calib_shape = [num_coils] + [calib_width] * img_ndim", "calib_shape = [num_coils] + [kernel_width] * img_ndim", 0, "caught"),
    ("init_calib_coil_axis_lost", "mri", "calib_shape = [num_coils] + [calib_width] * img_ndim", "calib_shape = [calib_width] * img_ndim", 0, "caught"),
    ("init_block_strides", "mri", "calib, [kernel_width] * img_ndim, [1] * img_ndim", "calib, [kernel_width] * img_ndim, [kernel_width] * img_ndim", 0, "caught"),
    ("init_block_args_swapped", "mri", "calib, [kernel_width] * img_ndim, [1] * img_ndim", "calib, [1] * img_ndim, [kernel_width] * img_ndim", 0, "caught"),
    ("init_reshape_times_for_pow", "mri", "mat = mat.reshape([num_coils, -1, kernel_width**img_ndim])", "mat = mat.reshape([num_coils, -1, kernel_width * img_ndim])", 0, "caught"),
    ("init_transpose_perm", "mri", "mat = mat.transpose([1, 0, 2])", "mat = mat.transpose([0, 1, 2])", 0, "caught"),
    ("init_transpose_dropped", "mri", "            mat = mat.transpose([1, 0, 2])\n", "", 0, "caught"),
    # ---- __init__: SVD threshold, kernels ----
    ("init_svd_full_matrices", "mri", "xp.linalg.svd(mat, full_matrices=False)", "xp.linalg.svd(mat)", 0, "caught"),
    ("init_svd_takes_U", "mri", "_, S, VH = xp.linalg.svd", "VH, S, _ = xp.linalg.svd", 0, "caught"),
    ("init_thresh_absolute", "mri", "VH = VH[S > thresh * S.max(), :]", "VH = VH[S > thresh, :]", 0, "caught"),
    ("init_thresh_min", "mri", "VH = VH[S > thresh * S.max(), :]", "VH = VH[S > thresh * S.min(), :]", 0, "caught"),
    ("init_thresh_ge", "mri", "VH = VH[S > thresh * S.max(), :]", "VH = VH[S >= thresh * S.max(), :]", 0, "caught"),
    ("init_thresh_keeps_small", "mri", "VH = VH[S > thresh * S.max(), :]", "VH = VH[S < thresh * S.max(), :]", 0, "caught"),
    ("init_thresh_uses_crop", "mri", "VH = VH[S > thresh * S.max(), :]", "VH = VH[S > crop * S.max(), :]", 0, "caught"),
    ("init_kernel_shape", "mri", "[num_kernels, num_coils] + [kernel_width] * img_ndim", "[num_kernels, num_coils] + [calib_width] * img_ndim", 0, "caught"),
    # ---- __init__: image-domain covariance ----
    ("init_fft_for_ifft", "mri", "img_kernel = sp.ifft(", "img_kernel = sp.fft(", 0, "caught"),
    ("init_ifft_all_axes", "mri", "sp.resize(kernel, ksp.shape), axes=range(-img_ndim, 0)", "sp.resize(kernel, ksp.shape)", 0, "caught"),
    ("init_ifft_axes_off", "mri", "axes=range(-img_ndim, 0)", "axes=range(-img_ndim, -1)", 0, "caught"),
    ("init_resize_to_calib", "mri", "sp.resize(kernel, ksp.shape)", "sp.resize(kernel, calib_shape)", 0, "caught"),
    ("init_gram_conj_dropped", "mri", "a = xp.conj(aH.swapaxes(-1, -2))", "a = aH.swapaxes(-1, -2)", 0, "caught"),
    ("init_gram_swapped", "mri", "AHA += aH @ a", "AHA += a @ aH", 0, "caught"),
    ("init_gram_minus", "mri", "AHA += aH @ a", "AHA -= aH @ a", 0, "caught"),
    ("init_gram_conj_on_column", "mri", "AHA += aH @ a", "AHA += xp.conj(aH) @ xp.conj(a)", 0, "caught"),
    ("init_scale_seeded_m1", "mri", "AHA *= sp.prod(img_shape) / kernel_width**img_ndim", "AHA *= (img_shape[-1] / kernel_width) ** img_ndim", 0, "caught"),
    ("init_scale_inverted", "mri", "AHA *= sp.prod(img_shape) / kernel_width**img_ndim", "AHA *= kernel_width**img_ndim / sp.prod(img_shape)", 0, "caught"),
    ("init_scale_dropped", "mri", "            AHA *= sp.prod(img_shape) / kernel_width**img_ndim\n", "", 0, "caught"),
    ("init_scale_calib_width", "mri", "AHA *= sp.prod(img_shape) / kernel_width**img_ndim", "AHA *= sp.prod(img_shape) / calib_width**img_ndim", 0, "caught"),
    ("init_scale_ksp_size", "mri", "AHA *= sp.prod(img_shape) / kernel_width**img_ndim", "AHA *= sp.prod(ksp.shape) / kernel_width**img_ndim", 0, "caught"),
    ("init_scale_after_handover", "mri", "            AHA *= sp.prod(img_shape) / kernel_width**img_ndim\n", "", 0, "caught:then",
     ("        super().__init__(alg, show_pbar=show_pbar)\n", "        AHA *= sp.prod(img_shape) / kernel_width**img_ndim\n        super().__init__(alg, show_pbar=show_pbar)\n")),
    # ---- __init__: power method set-up ----
    ("init_start_zeros", "mri", "self.mps = xp.ones(ksp.shape[::-1] + (1,), dtype=ksp.dtype)", "self.mps = xp.zeros(ksp.shape[::-1] + (1,), dtype=ksp.dtype)", 0, "caught"),
    ("init_start_dtype", "mri", "self.mps = xp.ones(ksp.shape[::-1] + (1,), dtype=ksp.dtype)", "self.mps = xp.ones(ksp.shape[::-1] + (1,))", 0, "caught"),
    ("init_start_not_reversed", "mri", "self.mps = xp.ones(ksp.shape[::-1] + (1,), dtype=ksp.dtype)", "self.mps = xp.ones(ksp.shape + (1,), dtype=ksp.dtype)", 0, "caught"),
    ("fwd_identity", "mri", "return AHA @ x", "return x", 0, "caught"),
    ("fwd_twice", "mri", "return AHA @ x", "return AHA @ (AHA @ x)", 0, "caught"),
    ("norm_sqrt_dropped", "mri", "xp.sum(xp.abs(x) ** 2, axis=-2, keepdims=True) ** 0.5", "xp.sum(xp.abs(x) ** 2, axis=-2, keepdims=True)", 0, "caught"),
    ("norm_square_dropped", "mri", "xp.sum(xp.abs(x) ** 2, axis=-2, keepdims=True) ** 0.5", "xp.sum(xp.abs(x), axis=-2, keepdims=True) ** 0.5", 0, "caught"),
    ("norm_abs_dropped", "mri", "xp.sum(xp.abs(x) ** 2, axis=-2, keepdims=True) ** 0.5", "xp.sum(x ** 2, axis=-2, keepdims=True) ** 0.5", 0, "caught"),
    ("norm_wrong_axis", "mri", "xp.sum(xp.abs(x) ** 2, axis=-2, keepdims=True) ** 0.5", "xp.sum(xp.abs(x) ** 2, axis=-1, keepdims=True) ** 0.5", 0, "caught"),
    ("norm_keepdims_dropped", "mri", "xp.sum(xp.abs(x) ** 2, axis=-2, keepdims=True) ** 0.5", "xp.sum(xp.abs(x) ** 2, axis=-2) ** 0.5", 0, "caught"),
    ("norm_over_everything", "mri", "xp.sum(xp.abs(x) ** 2, axis=-2, keepdims=True) ** 0.5", "xp.sum(xp.abs(x) ** 2) ** 0.5", 0, "caught"),
    ("pm_norm_func_dropped", "mri", "forward, self.mps, norm_func=normalize, max_iter=max_iter", "forward, self.mps, max_iter=max_iter", 0, "caught"),
    ("pm_max_iter_dropped", "mri", "forward, self.mps, norm_func=normalize, max_iter=max_iter", "forward, self.mps, norm_func=normalize", 0, "caught"),
    ("pm_x_is_a_copy", "mri", "forward, self.mps, norm_func=normalize, max_iter=max_iter", "forward, self.mps.copy(), norm_func=normalize, max_iter=max_iter", 0, "caught"),
    ("pm_functions_swapped", "mri", "forward, self.mps, norm_func=normalize, max_iter=max_iter", "normalize, self.mps, norm_func=forward, max_iter=max_iter", 0, "caught"),
    ("pm_max_iter_is_calib_width", "mri", "forward, self.mps, norm_func=normalize, max_iter=max_iter", "forward, self.mps, norm_func=normalize, max_iter=calib_width", 0, "caught"),
    # ---- alg.py (PowerMethod), app.py (App) ----
    ("alg_pm_norm_of_x", "alg", "self.max_eig = self.norm_func(y)", "self.max_eig = self.norm_func(self.x)", 0, "caught"),
    ("alg_pm_multiplies", "alg", "backend.copyto(self.x, y / self.max_eig)", "backend.copyto(self.x, y * self.max_eig)", 0, "caught"),
    ("alg_pm_no_normalisation", "alg", "backend.copyto(self.x, y / self.max_eig)", "backend.copyto(self.x, y)", 0, "caught"),
    ("alg_pm_signature_order", "alg", "def __init__(self, A, x, norm_func=None, max_iter=30):", "def __init__(self, A, x, max_iter=30, norm_func=None):", 0, "caught"),
    ("alg_pm_init_iter", "alg", "        self.max_eig = np.inf\n", "        self.max_eig = 0\n", 0, "caught"),
    ("app_run_no_loop", "app", "        while not self.alg.done():\n", "        if not self.alg.done():\n", 0, "caught"),
    ("app_alg_not_stored", "app", "        self.alg = alg\n        self.show_pbar = show_pbar\n", "        self.show_pbar = show_pbar\n", 0, "caught"),
    # ---- meaning-preserving edits: the tie must survive them ----
    ("neutral_rename_local", "mri", "aH", "colv", -1, "pass"),
    ("neutral_rename_closures", "mri", "normalize", "coil_norm", -1, "pass"),
    ("neutral_comment", "mri", "            AHA *= sp.prod(img_shape) / kernel_width**img_ndim\n", "            # scale\n            AHA *= sp.prod(img_shape) / kernel_width**img_ndim  # N / kw^d\n", 0, "pass"),
    ("neutral_docstring", "mri", "    def _output(self):\n        xp = self.device.xp\n        with self.device:\n            # Normalize phase",
     "    def _output(self):\n        \"\"\"maps\"\"\"\n        xp = self.device.xp\n        with self.device:\n            # Normalize phase", 0, "pass"),
    ("neutral_unused_local", "mri", "            img_shape = ksp.shape[1:]\n", "            img_shape = ksp.shape[1:]\n            num_blocks = calib_width - kernel_width + 1\n", 0, "pass"),
    ("neutral_keyword_order", "mri", "forward, self.mps, norm_func=normalize, max_iter=max_iter", "forward, self.mps, max_iter=max_iter, norm_func=normalize", 0, "pass"),
    ("neutral_crop_commuted", "mri", "mps *= max_eig > self.crop", "mps *= self.crop < max_eig", 0, "pass"),
    ("neutral_abs_squared_as_product", "mri", "xp.abs(x) ** 2", "xp.abs(x) * xp.abs(x)", 0, "pass"),
    ("neutral_phase_in_a_local", "mri", "            mps *= xp.conj(mps[0] / xp.abs(mps[0]))\n", "            phase = xp.conj(mps[0] / xp.abs(mps[0]))\n            mps *= phase\n", 0, "pass"),
    ("neutral_scale_in_a_local", "mri", "            AHA *= sp.prod(img_shape) / kernel_width**img_ndim\n", "            scale = sp.prod(img_shape) / kernel_width**img_ndim\n            AHA *= scale\n", 0, "pass"),
    # harmless refactors outside the fragment / changing the term are reported too (accepted)
    ("refactor_accumulate_by_rebinding", "mri", "AHA += aH @ a", "AHA = AHA + aH @ a", 0, "caught"),
    ("refactor_sqrt_call", "mri", "xp.sum(xp.abs(x) ** 2, axis=-2, keepdims=True) ** 0.5", "xp.sqrt(xp.sum(xp.abs(x) ** 2, axis=-2, keepdims=True))", 0, "caught"),
    ("refactor_scale_commuted", "mri", "AHA *= sp.prod(img_shape) / kernel_width**img_ndim", "AHA *= 1 / kernel_width**img_ndim * sp.prod(img_shape)", 0, "caught"),
]


def nth_replace(text, old, new, k):
    if k == -1:
        assert old in text, old
        return text.replace(old, new)
    idx = -1
    for _ in range(k + 1):
        idx = text.find(old, idx + 1)
        if idx < 0:
            raise AssertionError("pattern not found (occurrence %d): %r" % (k, old))
    return text[:idx] + new + text[idx + len(old):]


def compile_v(path, extra):
    p = subprocess.run(["coqc", "-w", "-all", "-Q", core.COQ, "SV"] + extra + [path], cwd=os.path.dirname(path),
                       stdout=subprocess.PIPE, stderr=subprocess.STDOUT, text=True, timeout=600)
    return p.returncode, p.stdout


def one(name, srcs, srcs0):
    d = os.path.join(SCRATCH, name.replace(":", "_"))
    shutil.rmtree(d, ignore_errors=True)
    os.makedirs(os.path.join(d, "sigpy", "mri"))
    paths = {"mri": "sigpy/mri/app.py", "alg": "sigpy/alg.py", "app": "sigpy/app.py", "util": "sigpy/util.py"}
    for f, rel in paths.items():
        with open(os.path.join(d, rel), "w") as fh:
            fh.write(srcs[f])
    try:
        text = T.translate_espirit(d)
    except T.TranslationError as e:
        return ("fails closed", str(e))
    except SyntaxError as e:
        return ("fails closed", "SyntaxError: %s" % e)
    # Gen_espirit applies gen_pm_* of Gen_alg.v: always a scratch copy regenerated from the SAME sources (logical path SVT), so that
    # the self-test does not depend on the shared coq/gen/Gen_alg.vo (rewritten by concurrent runs on modified trees)
    svt = os.path.join(SCRATCH, "_base_svt")
    if srcs["alg"] != srcs0["alg"] or srcs["util"] != srcs0["util"]:
        try:
            atext = TA.translate_alg(d)
        except TA.TranslationError as e:
            return ("fails closed", "translate_alg: %s" % e)
        svt = os.path.join(d, "svt")
        os.makedirs(svt)
        apath = os.path.join(svt, "Gen_alg.v")
        open(apath, "w").write(atext)
        rc, out = compile_v(apath, ["-Q", svt, "SVT"])
        if rc != 0:
            return ("lemma fails", "%s (Gen_alg.v)" % TA.failing_lemma(atext, out))
    extra = ["-Q", svt, "SVT"]
    text = text.replace("model.EspiritCalib gen.Gen_alg.", "model.EspiritCalib. From SVT Require Import Gen_alg.")
    path = os.path.join(d, "Gen_espirit.v")
    with open(path, "w") as fh:
        fh.write(text)
    rc, out = compile_v(path, extra)
    if rc == 0:
        return ("ok", "")
    return ("lemma fails", str(T.failing_lemma(text, out)))


def seeded_patches(srcs0):
    """the seeded changes of /verif/seeded that touch mri/app.py (C17_m*; others touching only the files read here): informational"""
    out = []
    root = os.path.join(core.VERIF, "seeded")
    rels = {"sigpy/mri/app.py": "mri", "sigpy/alg.py": "alg", "sigpy/app.py": "app", "sigpy/util.py": "util"}
    for name in sorted(os.listdir(root)) if os.path.isdir(root) else []:
        patch = os.path.join(root, name, "patch.diff")
        if not os.path.exists(patch):
            continue
        files = [l.split()[1][2:] for l in open(patch) if l.startswith("+++ ")]
        if not files or not set(files) <= set(rels) or not (name.startswith("C17_") or "sigpy/mri/app.py" in files):
            continue
        d = os.path.join(SCRATCH, "seeded_src_" + name)
        shutil.rmtree(d, ignore_errors=True)
        os.makedirs(os.path.join(d, "sigpy", "mri"))
        for rel, k in rels.items():
            open(os.path.join(d, rel), "w").write(srcs0[k])
        p = subprocess.run(["patch", "-p1", "-s", "--no-backup-if-mismatch", "-d", d, "-i", patch],
                           stdout=subprocess.PIPE, stderr=subprocess.STDOUT, text=True)
        if p.returncode:
            print("seeded:%s does not apply: %s" % (name, p.stdout.strip()[:200]))
            continue
        out.append(("seeded:" + name, {k: open(os.path.join(d, rel)).read() for rel, k in rels.items()}, "info"))
        shutil.rmtree(d, ignore_errors=True)
    return out


def main():
    pos = [a for a in sys.argv[1:] if not a.startswith("--")]
    repo = pos[0] if pos else core.REPO
    t0 = time.time()
    ok, log = core.coq_make(["model/Alg.vo", "model/Alg2.vo", "model/Espirit.vo", "model/EspiritCalib.vo"], timeout=900)
    if not ok:
        print("cannot build the hand models:\n" + log[-1500:])
        return 2
    mri0, alg0, app0 = T.read_sources(repo)
    srcs0 = {"mri": mri0, "alg": alg0, "app": app0, "util": open(os.path.join(repo, "sigpy", "util.py")).read()}
    svt = os.path.join(SCRATCH, "_base_svt")
    shutil.rmtree(svt, ignore_errors=True)
    os.makedirs(svt)
    open(os.path.join(svt, "Gen_alg.v"), "w").write(TA.translate_alg(repo))
    rc, out = compile_v(os.path.join(svt, "Gen_alg.v"), ["-Q", svt, "SVT"])
    if rc != 0:
        print("Gen_alg.v of the unmodified tree does not compile:\n" + out[-1500:])
        return 2
    jobs = [("UNMODIFIED", srcs0, "pass")]
    for m in MUTATIONS:
        name, which, old, new, k, expect = m[:6]
        s = dict(srcs0)
        s[which] = nth_replace(s[which], old, new, k)
        if expect.endswith(":then"):
            s[which] = nth_replace(s[which], m[6][0], m[6][1], 0)
            expect = expect.split(":")[0]
        jobs.append((name, s, expect))
    if "--no-seeded" not in sys.argv:
        jobs += seeded_patches(srcs0)
    with concurrent.futures.ThreadPoolExecutor(max_workers=8) as ex:
        futs = [ex.submit(one, n, s, srcs0) for n, s, _ in jobs]
        results = [f.result() for f in futs]
    bad = 0
    print("%-34s %-8s %-9s %s" % ("mutation", "expected", "verdict", "how"))
    for (name, _, expect), res in zip(jobs, results):
        verdict = "pass" if res[0] == "ok" else "caught"
        good = verdict == expect or expect == "info"
        bad += 0 if good else 1
        print("%-34s %-8s %-9s %s%s" % (name, expect, verdict + ("" if good else " (!!)"), res[0], (": " + res[1][:230]) if res[1] else ""))
    print("%d cases, %d unexpected, %.1fs" % (len(jobs), bad, time.time() - t0))
    return 1 if bad else 0


if __name__ == "__main__":
    sys.exit(main())
