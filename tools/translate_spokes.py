#!/usr/bin/env python3
"""Fail-closed translator: spokes_grad of sigpy/mri/rf/trajgrad.py (Python `ast`) -> Gallina (gen/Gen_spokes.v).

The function is a fixed assembly loop (python lists, extend, one slice) around scalar expressions and three designer
calls.  The translator reads it in two layers:

  * STRUCTURE: the statement skeleton (assignments, the `for ii in range(n_spokes)` loop, the two `if` blocks, the
    list operations, the final vstack / return) must be EXACTLY the skeleton in TEMPLATE below (AST equality outside
    the holes) -- any other statement, a reordered statement, a different slice, comparison, list operation, loop range,
    sign handling or column index fails closed (TranslationError naming the first differing node).  To that skeleton
    corresponds the Gallina skeleton the generated text is written in (loop = fold_left over the per-spoke areas,
    `l.extend(x)` = `l ++ x`, `l[: len(l) - len(b.T)]` = py_take, `[0] * np.size(a)` = zeros (length a),
    `int(np.sign(a)) * w` / `s * w` = zscale, np.diff(np.concatenate((col, zeros(1)))) = diffs0).
  * HOLES (`__E<n>__` in the template): the scalar expressions -- the slice-select area, the divisors of the blip areas,
    the arguments of min_trap_grad / trap_grad (x, y, refocusing), the initial sign and its multiplier -- are captured
    from the source and translated expression by expression (+ - * / on floats, integer literals through rofZ,
    abs / np.abs / np.absolute -> rabs, np.sum(subgz) -> rsum subgz, unary minus on an int literal) into RealOps terms.

The generated definition gen_spokes_grad is followed by
    Lemma gen_spokes_grad_ok : forall kx ky tbw sl_thick gmax dgdt dt, gen_spokes_grad .. = spokes_grad ..
proved by unfolding and reflexivity, for every RealOps (so for the float instance that runs and the instance over R the
theorem C20_spokes_grad_meets_limits is about).
"""
import ast
import hashlib
import os
import sys


class TranslationError(Exception):
    pass


SRC_REL = "sigpy/mri/rf/trajgrad.py"

TEMPLATE = '''
def spokes_grad(k, tbw, sl_thick, gmax, dgdtmax, gts):
    n_spokes = k.shape[0]

    area = __E1__
    [subgz, nramp] = min_trap_grad(__E2__, __E3__, __E4__, __E5__)

    gxarea = np.diff(np.concatenate((k[:, 0], np.zeros(1)))) / __E6__
    gyarea = np.diff(np.concatenate((k[:, 1], np.zeros(1)))) / __E7__

    gx, gy, gz = [], [], []
    gz_sign = __E8__
    for ii in range(n_spokes):
        gz_sign *= __E9__
        gz.extend(np.squeeze(gz_sign * subgz).tolist())

        gx.extend([0] * np.size(subgz))
        if np.absolute(gxarea[ii]) > 0:
            [gblip, _] = trap_grad(__E10__, __E11__, __E12__, __E13__)
            gxblip = int(np.sign(gxarea[ii])) * gblip
            gx = gx[: len(gx) - len(gxblip.T)]
            gx.extend(np.squeeze(gxblip).tolist())

        gy.extend([0] * np.size(subgz))
        if np.absolute(gyarea[ii]) > 0:
            [gblip, _] = trap_grad(__E14__, __E15__, __E16__, __E17__)
            gyblip = int(np.sign(gyarea[ii])) * gblip
            gy = gy[: len(gy) - len(gyblip.T)]
            gy.extend(np.squeeze(gyblip).tolist())

    [gref, _] = trap_grad(__E18__, __E19__, __E20__, __E21__)
    gzref = -gref
    gz.extend(np.squeeze(gzref).tolist())
    gx.extend([0] * np.size(gzref))
    gy.extend([0] * np.size(gzref))

    gx = np.array(gx)
    g = np.vstack((np.array(gx), np.array(gy), np.array(gz)))

    return g
'''


def _fields(node):
    for name, val in ast.iter_fields(node):
        if name in ("lineno", "col_offset", "end_lineno", "end_col_offset", "ctx", "type_comment", "kind"):
            continue
        yield name, val


def match(t, s, holes, where="spokes_grad"):
    """template node t against source node s; fills holes"""
    if isinstance(t, ast.Name) and t.id.startswith("__E") and t.id.endswith("__"):
        if not isinstance(s, ast.expr):
            raise TranslationError("%s: expected an expression" % where)
        holes[t.id] = s
        return
    if type(t) is not type(s):
        raise TranslationError("%s line %s: expected %s, found %s" % (where, getattr(s, "lineno", "?"), type(t).__name__,
                                                                     type(s).__name__))
    for (name, tv), (_, sv) in zip(_fields(t), _fields(s)):
        w = "%s.%s" % (type(t).__name__, name)
        if isinstance(tv, list):
            if not isinstance(sv, list) or len(tv) != len(sv):
                raise TranslationError("%s line %s: %s has %s entries, expected %d" %
                                       (where, getattr(s, "lineno", "?"), w, len(sv) if isinstance(sv, list) else "?", len(tv)))
            for a, b in zip(tv, sv):
                if isinstance(a, ast.AST):
                    match(a, b, holes, where)
                elif a != b:
                    raise TranslationError("%s line %s: %s differs (%r vs %r)" % (where, getattr(s, "lineno", "?"), w, b, a))
        elif isinstance(tv, ast.AST):
            if not isinstance(sv, ast.AST):
                raise TranslationError("%s line %s: %s missing" % (where, getattr(s, "lineno", "?"), w))
            match(tv, sv, holes, where)
        elif tv != sv:
            raise TranslationError("%s line %s: %s is %r, expected %r" % (where, getattr(s, "lineno", "?"), w, sv, tv))


FLOATS = {"tbw": "tbw", "sl_thick": "sl_thick", "gmax": "gmax", "dgdtmax": "dgdt", "gts": "dt"}
OPS = {ast.Add: "radd", ast.Sub: "rsub", ast.Mult: "rmul", ast.Div: "rdiv"}


def is_call(e, names):
    if not isinstance(e, ast.Call) or e.keywords or len(e.args) != 1:
        return False
    f = e.func
    if isinstance(f, ast.Name):
        return f.id in names
    return isinstance(f, ast.Attribute) and isinstance(f.value, ast.Name) and f.value.id == "np" and ("np." + f.attr) in names


def expr(e, env):
    """float-valued scalar expression -> RealOps term"""
    if isinstance(e, ast.Name):
        if e.id in env:
            return env[e.id]
        raise TranslationError("line %d: name %r is not a float known here" % (e.lineno, e.id))
    if isinstance(e, ast.Constant) and isinstance(e.value, int) and not isinstance(e.value, bool):
        return "(rofZ %d)" % e.value if e.value >= 0 else "(rofZ (%d))" % e.value
    if isinstance(e, ast.BinOp) and type(e.op) in OPS:
        return "(%s %s %s)" % (OPS[type(e.op)], expr(e.left, env), expr(e.right, env))
    if is_call(e, {"abs", "np.abs", "np.absolute"}):
        return "(rabs %s)" % expr(e.args[0], env)
    if is_call(e, {"np.sum"}) and isinstance(e.args[0], ast.Name) and e.args[0].id == "subgz" and "subgz" in env.get("__arrays__", ()):
        return "(rsum subgz)"
    if isinstance(e, ast.Subscript) and isinstance(e.value, ast.Name) and isinstance(e.slice, ast.Name) and e.slice.id == "ii" \
            and e.value.id == env.get("__areas__"):
        return "a"
    raise TranslationError("line %d: unsupported scalar expression %s" % (getattr(e, "lineno", 0), ast.dump(e)[:120]))


def int_lit(e):
    if isinstance(e, ast.Constant) and isinstance(e.value, int) and not isinstance(e.value, bool):
        return e.value
    if isinstance(e, ast.UnaryOp) and isinstance(e.op, ast.USub) and isinstance(e.operand, ast.Constant) \
            and isinstance(e.operand.value, int):
        return -e.operand.value
    raise TranslationError("line %d: expected an integer literal" % getattr(e, "lineno", 0))


def zlit(n):
    return "(%d)%%Z" % n


def translate_source(src):
    tree = ast.parse(src)
    fns = [n for n in tree.body if isinstance(n, ast.FunctionDef) and n.name == "spokes_grad"]
    if len(fns) != 1:
        raise TranslationError("spokes_grad: expected exactly one definition, found %d" % len(fns))
    fn = fns[0]
    # decorators, defaults and nested definitions are not part of the fragment
    body = list(fn.body)
    if body and isinstance(body[0], ast.Expr) and isinstance(body[0].value, ast.Constant) and isinstance(body[0].value.value, str):
        body = body[1:]
    import copy
    fn2 = copy.copy(fn)
    fn2.body = body
    tfn = ast.parse(TEMPLATE).body[0]
    holes = {}
    match(tfn, fn2, holes)
    # the designers and numpy must be the module's own (not rebound at module level after their definition)
    defs = [n.name for n in tree.body if isinstance(n, ast.FunctionDef)]
    for name in ("trap_grad", "min_trap_grad"):
        if defs.count(name) != 1:
            raise TranslationError("%s must be defined exactly once in the module" % name)
    for n in ast.walk(tree):
        if isinstance(n, (ast.Assign, ast.AugAssign, ast.AnnAssign)) and n in tree.body:
            for t in (n.targets if isinstance(n, ast.Assign) else [n.target]):
                if isinstance(t, ast.Name) and t.id in ("trap_grad", "min_trap_grad", "spokes_grad", "np"):
                    raise TranslationError("line %d: %s is rebound at module level" % (n.lineno, t.id))
    env0 = dict(FLOATS)
    E = lambda i, env: expr(holes["__E%d__" % i], env)
    area = E(1, env0)
    env1 = dict(env0, area="area")
    mt = [E(i, env1) for i in (2, 3, 4, 5)]
    divx, divy = E(6, env1), E(7, env1)
    s0, sm = int_lit(holes["__E8__"]), int_lit(holes["__E9__"])
    envx = dict(env1, __areas__="gxarea")
    envy = dict(env1, __areas__="gyarea")
    bx = [E(i, envx) for i in (10, 11, 12, 13)]
    by = [E(i, envy) for i in (14, 15, 16, 17)]
    envr = dict(env1, __arrays__=("subgz",))
    rf = [E(i, envr) for i in (18, 19, 20, 21)]
    sha = hashlib.sha256(src.encode()).hexdigest()
    out = []
    out.append("(* Gen_spokes.v -- GENERATED by tools/translate_spokes.py from %s (sha256 %s).  Do not edit.\n"
               "   spokes_grad as written in the source: the statement skeleton is matched against the translator's template\n"
               "   (fail closed), the scalar expressions are translated from the text; lemma gen_spokes_grad_ok: generated = model/Spokes.v. *)" % (SRC_REL, sha))
    out.append("From Coq Require Import ZArith List Bool.\nFrom SV Require Import model.Trap model.Spokes.\nImport ListNotations.\n")
    out.append("Section Gen.\n  Context {T : RealOps}.\n")
    L = lambda h: holes[h].lineno

    def axis(name, blip):
        return ("  Definition gen_%s_step (subgz : list T) (tbw sl_thick gmax dgdt dt area : T) (g : list T) (a : T) : list T :=\n"
                "    let g := g ++ zeros (length subgz) in                       (* g.extend([0] * np.size(subgz)) *)\n"
                "    if rltb r0 (rabs a) then                                    (* if np.absolute(garea[ii]) > 0 *)\n"
                "      let gblip := fst (trap_grad %s %s %s %s) in\n"
                "      let blip := zscale (rsign a) gblip in                     (* int(np.sign(garea[ii])) * gblip *)\n"
                "      py_take (Z.of_nat (length g) - Z.of_nat (length blip)) g ++ blip\n"
                "    else g.\n" % ((name,) + tuple(blip)))
    out.append(axis("x", bx))
    out.append(axis("y", by))
    out.append("  Definition gen_spokes_grad (kx ky : list T) (tbw sl_thick gmax dgdt dt : T) : list T * list T * list T :=\n"
               "    let area := %s in   (* L%d *)\n"
               "    let subgz := fst (min_trap_grad %s %s %s %s) in   (* L%d *)\n"
               "    let gxarea := map (fun d => rdiv d %s) (diffs0 kx) in   (* L%d *)\n"
               "    let gyarea := map (fun d => rdiv d %s) (diffs0 ky) in   (* L%d *)\n"
               "    let gx := fold_left (gen_x_step subgz tbw sl_thick gmax dgdt dt area) gxarea [] in\n"
               "    let gy := fold_left (gen_y_step subgz tbw sl_thick gmax dgdt dt area) gyarea [] in\n"
               "    let gz := fst (fold_left (fun (st : list T * Z) (_ : T) => let s := (snd st * %s)%%Z in (fst st ++ zscale s subgz, s)) kx ([], %s)) in\n"
               "    let gref := fst (trap_grad %s %s %s %s) in   (* L%d *)\n"
               "    (gx ++ zeros (length gref), gy ++ zeros (length gref), gz ++ zscale (-1) gref).\n"
               % (area, L("__E1__"), mt[0], mt[1], mt[2], mt[3], L("__E2__"), divx, L("__E6__"), divy, L("__E7__"),
                  zlit(sm).replace("%Z", ""), zlit(s0), rf[0], rf[1], rf[2], rf[3], L("__E18__")))
    out.append("  Lemma gen_spokes_grad_ok : forall kx ky tbw sl_thick gmax dgdt dt,\n"
               "    gen_spokes_grad kx ky tbw sl_thick gmax dgdt dt = spokes_grad kx ky tbw sl_thick gmax dgdt dt.\n"
               "  Proof. intros. reflexivity. Qed.\n")
    out.append("End Gen.\n")
    return "\n".join(out)


def translate_spokes(repo, path=None):
    p = path or os.path.join(repo, SRC_REL)
    return translate_source(open(p).read())


if __name__ == "__main__":
    args = [a for a in sys.argv[1:] if not a.startswith("--")]
    sys.stdout.write(translate_spokes(args[0] if args else "/repo"))
