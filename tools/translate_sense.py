#!/usr/bin/env python3
"""Fail-closed translator of the SENSE operator factory and of the MRI reconstruction apps' set-up code.

Sources (read from the tree under test on EVERY run):
    sigpy/mri/linop.py   Sense                    (CPU single-process path: tseg = None, comm = None)
    sigpy/mri/app.py     _estimate_weights, SenseRecon.__init__, L1WaveletRecon.__init__, TotalVariationRecon.__init__
    sigpy/linop.py, sigpy/prox.py, sigpy/app.py, sigpy/backend.py, sigpy/util.py   ONLY the signatures (parameter order, defaults) of
                         the constructors / functions called: Multiply, FFT, NUFFT, Vstack, Wavelet, FiniteDifference,
                         L1Reg, UnitaryTransform, LinearLeastSquares.__init__, to_device, rss
Output: coq/gen/Gen_sense.v with
    gen_Sense_body / gen_Sense : sense_args -> linop        (terms of the deep embedding model/Linop.v)
    gen_estimate_weights, gen_SenseRecon, gen_L1WaveletRecon, gen_TotalVariationRecon : recon_args -> recon_cfg
and the lemmas  gen_<f>_ok : generated = hand model  (model/Sense.v: sense_factory; model/SenseRecon.v), proved by unfolding,
case analysis on the optional / boolean arguments and computation; gen_Sense_ok additionally uses Z.ltb_irrefl and map_ext
(the per-batch calls, made with coil_batch_size=None, never recurse).

Normal form: symbolic execution in statement order; every assignment is a `let` (Python locals are prefixed `v_`); an `if`
whose branch returns becomes `if/match ... then <branch> else <rest>`; an `if` whose branches fall through binds the variables
assigned in it: `let '(a, b) := match ... end in`; `x is None` on an optional argument is a `match` that refines x in the
`Some` branch; tests on arguments this translation fixes to None (tseg, comm) are resolved statically and the dead branch is
NOT read (not covered).  Anything outside the fragment raises TranslationError naming file, function, line and source text.
See notes/translate_sense.md.
"""
import ast
import hashlib
import os
import re
import sys

HERE = os.path.dirname(os.path.abspath(__file__))
sys.path.insert(0, os.path.dirname(HERE))

SRC_LINOP = "sigpy/mri/linop.py"
SRC_APP = "sigpy/mri/app.py"
LIB_LINOP = "sigpy/linop.py"
LIB_PROX = "sigpy/prox.py"
LIB_APP = "sigpy/app.py"
LIB_BACKEND = "sigpy/backend.py"
LIB_UTIL = "sigpy/util.py"
SOURCES = [SRC_LINOP, SRC_APP, LIB_LINOP, LIB_PROX, LIB_APP, LIB_BACKEND, LIB_UTIL]
COVERED_LINOP = "Sense: coil batching, Multiply / FFT-or-NUFFT / sqrt-weights chain, transp_nufft; tseg = comm = None"
COVERED_APP = "_estimate_weights, SenseRecon / L1WaveletRecon / TotalVariationRecon.__init__"
LEMMAS = ["gen_Sense_unbatched_ok", "gen_Sense_rec_irrelevant", "gen_Sense_ok", "gen_estimate_weights_ok",
          "gen_SenseRecon_ok", "gen_L1WaveletRecon_ok", "gen_TotalVariationRecon_ok"]


class TranslationError(Exception):
    pass


# ---------------------------------------------------------------------------------------------- value kinds
AREF, OAREF, ZT, OZT, SHAPE, OSHAPE, BOOL, LINOP, NONE = "aref", "oaref", "Z", "oZ", "shape", "oshape", "bool", "linop", "none"
ZLIST, LINOPS, FUN, STR, SCALAR, WAVE, DEVICE, PBAR, KWARGS = "zlist", "linops", "fun", "str", "scalar", "wave", "device", "pbar", "kwargs"
RPROX, RGFUN, GOP, HALF, XP = "rprox", "rgfun", "gop", "half", "xp"
BASE_OF = {OAREF: AREF, OZT: ZT, OSHAPE: SHAPE, "olinop": LINOP, "orprox": RPROX, "orgfun": RGFUN, "ogop": GOP, "oaxes": ZLIST, "oscalar": SCALAR}
OPT_OF = {v: k for k, v in BASE_OF.items()}
COQ_TYPE = {AREF: "aref", OAREF: "option aref", ZT: "Z", OZT: "option Z", SHAPE: "list Z", OSHAPE: "option (list Z)", BOOL: "bool",
            LINOP: "linop", ZLIST: "list Z", LINOPS: "list linop", SCALAR: "Z", WAVE: "Z", RPROX: "rprox", RGFUN: "rgfun", GOP: "gop"}


class V:
    """a symbolic value: kind + Gallina text"""

    def __init__(self, typ, code, **extra):
        self.typ, self.code, self.extra = typ, code, extra

    def __repr__(self):
        return "V(%s, %s)" % (self.typ, self.code)


def coerce(v, want, where):
    if v.typ == want:
        return v.code
    if want in BASE_OF:
        if v.typ == BASE_OF[want]:
            return "(Some %s)" % v.code
        if v.typ == NONE:
            return "None"
        if want == "oaxes" and v.typ == SHAPE:
            return "(Some %s)" % v.code
    if want == ZLIST and v.typ == SHAPE or want == SHAPE and v.typ == ZLIST:
        return v.code
    raise TranslationError("%s: a value of kind %s where %s is expected" % (where, v.typ, want))


# ---------------------------------------------------------------------------------------------- tables (the hand model's view)
REQUIRED = object()
# python parameter, kind, field of the model's record (None: fixed to None by this translation), expected default
SENSE_PARAMS = [("mps", AREF, "sa_mps", REQUIRED), ("coord", OAREF, "sa_coord", None), ("weights", OAREF, "sa_weights", None),
                ("tseg", NONE, None, None), ("ishape", OSHAPE, "sa_ishape", None), ("coil_batch_size", OZT, "sa_batch", None),
                ("comm", NONE, None, None), ("transp_nufft", BOOL, "sa_transp", False)]
CPU = "sp.cpu_device"
RECON_PARAMS = {
    "SenseRecon": [("y", AREF, "ra_y", REQUIRED), ("mps", AREF, "ra_mps", REQUIRED), ("lamda", SCALAR, "ra_lamda", 0),
                   ("weights", OAREF, "ra_weights", None), ("tseg", NONE, None, None), ("coord", OAREF, "ra_coord", None),
                   ("device", DEVICE, None, CPU), ("coil_batch_size", OZT, "ra_batch", None), ("comm", NONE, None, None),
                   ("show_pbar", PBAR, None, True), ("transp_nufft", BOOL, "ra_transp", False)],
    "L1WaveletRecon": [("y", AREF, "ra_y", REQUIRED), ("mps", AREF, "ra_mps", REQUIRED), ("lamda", SCALAR, "ra_lamda", REQUIRED),
                       ("weights", OAREF, "ra_weights", None), ("coord", OAREF, "ra_coord", None), ("wave_name", WAVE, "ra_wave", "db4"),
                       ("device", DEVICE, None, CPU), ("coil_batch_size", OZT, "ra_batch", None), ("comm", NONE, None, None),
                       ("show_pbar", PBAR, None, True), ("transp_nufft", BOOL, "ra_transp", False)],
    "TotalVariationRecon": [("y", AREF, "ra_y", REQUIRED), ("mps", AREF, "ra_mps", REQUIRED), ("lamda", SCALAR, "ra_lamda", REQUIRED),
                            ("weights", OAREF, "ra_weights", None), ("coord", OAREF, "ra_coord", None), ("device", DEVICE, None, CPU),
                            ("coil_batch_size", OZT, "ra_batch", None), ("comm", NONE, None, None), ("show_pbar", PBAR, None, True),
                            ("transp_nufft", BOOL, "ra_transp", False)],
}
RECON_HAND = {"SenseRecon": "sense_recon", "L1WaveletRecon": "l1wavelet_recon", "TotalVariationRecon": "tv_recon"}
SENSE_FIELDS = ["sa_mps", "sa_coord", "sa_weights", "sa_ishape", "sa_batch", "sa_transp"]
RECON_FIELDS = ["ra_y", "ra_mps", "ra_lamda", "ra_weights", "ra_coord", "ra_batch", "ra_transp", "ra_wave"]
# sigpy.linop constructors: python parameter -> kind, in the order of the MODEL constructor's arguments
CTORS = {
    "Multiply": ("Multiply", [("ishape", SHAPE), ("mult", "mult"), ("conj", BOOL)]),
    "FFT": ("FFT", [("shape", SHAPE), ("axes", "oaxes"), ("center", BOOL)]),
    "NUFFT": ("NUFFT", [("ishape", SHAPE), ("coord", AREF), ("oversamp", "oversamp"), ("width", "width"), ("toeplitz", BOOL)]),
    "Vstack": ("Vstack", [("linops", LINOPS), ("axis", OZT)]),
    "Wavelet": ("Wavelet", [("ishape", SHAPE), ("axes", "oaxes"), ("wave_name", WAVE), ("level", OZT)]),
}
# arguments of LinearLeastSquares.__init__ the recon model records (everything else must come through **kwargs)
LLS_FIELDS = [("A", LINOP, True), ("y", AREF, True), ("lamda", "oscalar", False), ("proxg", "orprox", False), ("g", "orgfun", False),
              ("G", "ogop", False)]
PROTECTED = {"sp", "np", "linop", "Sense", "range", "len", "super", "_estimate_weights"}


def sig_of(fn, skip_self=False):
    """(parameter names, {name: default ast}, has **kwargs) of a FunctionDef; *args / keyword-only / positional-only fail closed"""
    a = fn.args
    if a.vararg or a.kwonlyargs or a.posonlyargs:
        raise TranslationError("%s: *args / keyword-only parameters are outside the fragment" % fn.name)
    names = [x.arg for x in a.args]
    if skip_self:
        if not names or names[0] != "self":
            raise TranslationError("%s: first parameter is not self" % fn.name)
        names = names[1:]
    nd = len(a.defaults)
    defaults = dict(zip(names[len(names) - nd:], a.defaults)) if nd else {}
    return names, defaults, a.kwarg.arg if a.kwarg else None


def default_repr(node):
    if node is REQUIRED:
        return REQUIRED
    if isinstance(node, ast.Constant):
        return node.value
    return ast.unparse(node)


def check_signature(where, fn, table, skip_self, want_kwargs):
    names, defaults, kw = sig_of(fn, skip_self)
    exp = [t[0] for t in table]
    if names != exp:
        raise TranslationError("%s: parameters are %s, the model's record assumes %s" % (where, names, exp))
    if (kw is not None) != want_kwargs:
        raise TranslationError("%s: **kwargs %s" % (where, "missing" if want_kwargs else "not expected"))
    for name, _, _, d in table:
        got = default_repr(defaults.get(name, REQUIRED))
        same = (got is REQUIRED and d is REQUIRED) or (got is not REQUIRED and d is not REQUIRED and type(got) is type(d) and got == d)
        if not same:
            raise TranslationError("%s: default of `%s` is %s, the model assumes %s (line %d)"
                                   % (where, name, "<required>" if got is REQUIRED else repr(got),
                                      "<required>" if d is REQUIRED else repr(d), fn.lineno))
    return kw


def module_imports(tree, where):
    """{local name: dotted module} from the module-level imports; any later module-level rebinding of those names fails closed"""
    imp = {}
    for s in tree.body:
        if isinstance(s, ast.Import):
            for a in s.names:
                imp[a.asname or a.name.split(".")[0]] = a.name if a.asname else a.name.split(".")[0]
        elif isinstance(s, ast.ImportFrom):
            for a in s.names:
                imp[a.asname or a.name] = "%s.%s" % (s.module, a.name)
    for s in tree.body:
        targets = []
        if isinstance(s, ast.Assign):
            targets = [t.id for t in s.targets if isinstance(t, ast.Name)]
        elif isinstance(s, (ast.AugAssign, ast.AnnAssign)) and isinstance(s.target, ast.Name):
            targets = [s.target.id]
        for t in targets:
            if t in imp:
                raise TranslationError("%s: module-level rebinding of imported name `%s` (line %d)" % (where, t, s.lineno))
    return imp


def module_binders(tree):
    """names bound by module-level statements other than def / class (assignments, imports, loops, with, try ...)"""
    out = []

    def visit(stmts):
        for s in stmts:
            if isinstance(s, (ast.FunctionDef, ast.AsyncFunctionDef, ast.ClassDef)):
                continue
            if isinstance(s, (ast.Import, ast.ImportFrom)):
                out.extend((a.asname or a.name.split(".")[0], s.lineno) for a in s.names)
                continue
            for n in ast.walk(s):
                if isinstance(n, ast.Name) and isinstance(n.ctx, (ast.Store, ast.Del)):
                    out.append((n.id, s.lineno))
                elif isinstance(n, (ast.FunctionDef, ast.AsyncFunctionDef, ast.ClassDef)):
                    out.append((n.name, s.lineno))
                elif isinstance(n, (ast.Import, ast.ImportFrom)):
                    out.extend((a.asname or a.name.split(".")[0], s.lineno) for a in n.names)
    visit(tree.body)
    return out


def top_function(tree, name, where):
    found = [s for s in tree.body if isinstance(s, (ast.FunctionDef, ast.AsyncFunctionDef, ast.ClassDef)) and s.name == name]
    if len(found) != 1:
        raise TranslationError("%s: %d definitions of `%s`" % (where, len(found), name))
    for n, ln in module_binders(tree):
        if n == name:
            raise TranslationError("%s: `%s` is rebound at module level (line %d)" % (where, name, ln))
    if isinstance(found[0], ast.AsyncFunctionDef):
        raise TranslationError("%s: `%s` is async" % (where, name))
    if isinstance(found[0], ast.FunctionDef) and found[0].decorator_list:
        raise TranslationError("%s: `%s` is decorated" % (where, name))
    return found[0]


class Lib:
    """signatures of the library callables, read from the tree under test"""

    def __init__(self, repo):
        self.trees = {}
        for rel in (LIB_LINOP, LIB_PROX, LIB_APP, LIB_BACKEND, LIB_UTIL):
            self.trees[rel] = ast.parse(open(os.path.join(repo, rel)).read())

    def init_sig(self, rel, cls):
        c = top_function(self.trees[rel], cls, rel)
        if not isinstance(c, ast.ClassDef):
            raise TranslationError("%s: `%s` is not a class" % (rel, cls))
        inits = [m for m in c.body if isinstance(m, ast.FunctionDef) and m.name == "__init__"]
        if len(inits) != 1:
            raise TranslationError("%s: %s has %d __init__" % (rel, cls, len(inits)))
        return sig_of(inits[0], skip_self=True)

    def func_sig(self, rel, name):
        f = top_function(self.trees[rel], name, rel)
        if not isinstance(f, ast.FunctionDef):
            raise TranslationError("%s: `%s` is not a function" % (rel, name))
        return sig_of(f)


def bind_call(where, call, names, defaults, allow_kwargs=None):
    """{parameter: ast node | ('default', node)} for a call against a signature"""
    given = {}
    if len(call.args) > len(names):
        raise TranslationError("%s: too many positional arguments" % where)
    for a in call.args:
        if isinstance(a, ast.Starred):
            raise TranslationError("%s: *args in a call" % where)
    for p, a in zip(names, call.args):
        given[p] = a
    saw_kwargs = False
    for kw in call.keywords:
        if kw.arg is None:
            if allow_kwargs and isinstance(kw.value, ast.Name) and kw.value.id == allow_kwargs and not saw_kwargs:
                saw_kwargs = True
                continue
            raise TranslationError("%s: ** in a call" % where)
        if kw.arg in given or kw.arg not in names:
            raise TranslationError("%s: keyword `%s` is unknown or given twice" % (where, kw.arg))
        given[kw.arg] = kw.value
    if allow_kwargs and not saw_kwargs:
        raise TranslationError("%s: **%s is not forwarded" % (where, allow_kwargs))
    out = {}
    for p in names:
        if p in given:
            out[p] = given[p]
        elif p in defaults:
            out[p] = ("default", defaults[p])
        else:
            raise TranslationError("%s: argument `%s` is missing" % (where, p))
    return out


def assigned_names(stmts):
    out = []
    for s in stmts:
        for n in ast.walk(s):
            if isinstance(n, ast.Name) and isinstance(n.ctx, ast.Store) and n.id not in out:
                out.append(n.id)
            elif isinstance(n, ast.FunctionDef) and n.name not in out:
                out.append(n.name)
    return out


def has_return(stmts, top=True):
    for s in stmts:
        if isinstance(s, ast.FunctionDef):
            continue
        if isinstance(s, ast.Return):
            return True
        for field in ("body", "orelse"):
            if has_return(getattr(s, field, []) or [], False):
                return True
    return False


def always_returns(stmts):
    if not stmts:
        return False
    s = stmts[-1]
    if isinstance(s, ast.Return):
        return True
    if isinstance(s, ast.If):
        return always_returns(s.body) and always_returns(s.orelse)
    if isinstance(s, ast.With):
        return always_returns(s.body)
    return False


def is_docstring(s):
    return isinstance(s, ast.Expr) and isinstance(s.value, ast.Constant) and isinstance(s.value.value, str)


# ---------------------------------------------------------------------------------------------- the symbolic executor
class Exec:
    def __init__(self, lib, src_rel, src_lines, imports, fname, ret_kind, self_call=None):
        self.lib, self.rel, self.lines, self.imports, self.fname, self.ret = lib, src_rel, src_lines, imports, fname, ret_kind
        self.self_call = self_call            # name by which the function calls itself (Sense) -> `rec`
        self.frozen = {}                      # variable -> closure that captured it (late binding: must not be reassigned)
        self.kwargs_name = None
        self.depth = 0

    # ---- errors ----
    def fail(self, node, msg):
        ln = getattr(node, "lineno", 0)
        text = self.lines[ln - 1].strip() if 0 < ln <= len(self.lines) else ""
        raise TranslationError("%s:%s line %d: %s   | %s" % (self.rel, self.fname, ln, msg, text))

    # ---- names ----
    def qual(self, node):
        """dotted name of a module-level object (sigpy.linop.Multiply), or None"""
        parts = []
        n = node
        while isinstance(n, ast.Attribute):
            parts.append(n.attr)
            n = n.value
        if not isinstance(n, ast.Name) or n.id not in self.imports:
            return None
        return ".".join([self.imports[n.id]] + parts[::-1])

    # ---- expressions ----
    def expr(self, node, env):
        if isinstance(node, ast.Name):
            if node.id in env:
                return env[node.id]
            self.fail(node, "unknown name `%s`" % node.id)
        if isinstance(node, ast.Constant):
            if node.value is None:
                return V(NONE, "None")
            if isinstance(node.value, bool):
                return V(BOOL, "true" if node.value else "false")
            if isinstance(node.value, int):
                return V(ZT, "%d" % node.value if node.value >= 0 else "(%d)" % node.value)
            if isinstance(node.value, float) and node.value == 0.5:
                return V(HALF, "0.5")
            if isinstance(node.value, str):
                return V(STR, node.value)
            self.fail(node, "constant %r is outside the fragment" % (node.value,))
        if isinstance(node, ast.UnaryOp) and isinstance(node.op, ast.USub):
            v = self.expr(node.operand, env)
            if v.typ == ZT:
                return V(ZT, "(- %s)" % v.code)
            if v.typ == AREF:
                return V(AREF, "(a_neg O %s)" % v.code)
            self.fail(node, "unary minus on a %s" % v.typ)
        if isinstance(node, ast.BinOp):
            return self.binop(node, env)
        if isinstance(node, ast.Attribute):
            return self.attribute(node, env)
        if isinstance(node, ast.Subscript):
            return self.subscript(node, env)
        if isinstance(node, ast.Call):
            return self.call(node, env)
        if isinstance(node, ast.ListComp):
            return self.listcomp(node, env)
        if isinstance(node, (ast.Tuple, ast.List)) and isinstance(node.ctx, ast.Load):
            vs = [self.expr(e, env) for e in node.elts]
            if any(v.typ != ZT for v in vs):
                self.fail(node, "a tuple / list of non-integers")
            return V(SHAPE, "[%s]" % "; ".join(v.code for v in vs))
        self.fail(node, "expression `%s` is outside the fragment" % ast.unparse(node)[:80])

    def binop(self, node, env):
        a, b = self.expr(node.left, env), self.expr(node.right, env)
        op = type(node.op)
        if a.typ == ZT and b.typ == ZT:
            sym = {ast.Add: "+", ast.Sub: "-", ast.Mult: "*", ast.FloorDiv: "/"}.get(op)     # Coq's Z./ is floor division, like //
            if sym is None:
                self.fail(node, "integer operator %s is outside the fragment" % op.__name__)
            return V(ZT, "(%s %s %s)" % (a.code, sym, b.code))
        if op is ast.Pow and a.typ == AREF and b.typ == HALF:
            return V(AREF, "(a_sqrt O %s)" % a.code)
        if op is ast.Mult and a.typ == AREF and b.typ == AREF:
            return V(AREF, "(a_mul O %s %s)" % (a.code, b.code))
        if op is ast.Mult and a.typ == LINOP and b.typ == LINOP:
            return V(LINOP, "(op_mul %s %s)" % (a.code, b.code))
        self.fail(node, "operator %s on %s and %s is outside the fragment" % (op.__name__, a.typ, b.typ))

    def attribute(self, node, env):
        q = self.qual(node)
        if q == "sigpy.cpu_device":
            return V(DEVICE, "cpu")
        v = self.expr(node.value, env)
        if v.typ == AREF and node.attr == "shape":
            return V(SHAPE, "(ashape_of %s)" % v.code)
        if v.typ == AREF and node.attr == "ndim":
            return V(ZT, "(lenZ (ashape_of %s))" % v.code)
        if v.typ == LINOP and node.attr == "oshape":
            return V(SHAPE, "(oshape_of %s)" % v.code)
        if v.typ == LINOP and node.attr == "ishape":
            return V(SHAPE, "(ishape_of %s)" % v.code)
        if v.typ == LINOP and node.attr == "H":
            return V(LINOP, "(adj %s)" % v.code)
        if v.typ == GOP and node.attr == "oshape":
            return V(SHAPE, "(gop_oshape %s)" % v.code)
        self.fail(node, "attribute .%s of a %s is outside the fragment" % (node.attr, v.typ))

    def subscript(self, node, env):
        v = self.expr(node.value, env)
        sl = node.slice
        if isinstance(sl, ast.Slice):
            if sl.step is not None:
                self.fail(node, "slice with a step")
            if v.typ == SHAPE and sl.upper is None and isinstance(sl.lower, ast.Constant) and sl.lower.value == 1:
                return V(SHAPE, "(tl %s)" % v.code)
            if v.typ == AREF and sl.lower is not None and sl.upper is not None:
                lo, hi = self.expr(sl.lower, env), self.expr(sl.upper, env)
                if lo.typ != ZT or hi.typ != ZT:
                    self.fail(node, "slice bounds are not integers")
                return V(AREF, "(a_slice0 O %s %s %s)" % (v.code, lo.code, hi.code))
            self.fail(node, "this slice of a %s is outside the fragment" % v.typ)
        i = self.expr(sl, env)
        if v.typ == SHAPE and i.typ == ZT and isinstance(sl, ast.Constant) and sl.value >= 0:
            return V(ZT, "(getZ %s %s)" % (v.code, i.code))
        self.fail(node, "subscript of a %s is outside the fragment" % v.typ)

    def listcomp(self, node, env):
        if len(node.generators) != 1 or node.generators[0].ifs or node.generators[0].is_async \
                or not isinstance(node.generators[0].target, ast.Name):
            self.fail(node, "comprehension shape is outside the fragment")
        g = node.generators[0]
        it = self.expr(g.iter, env)
        if it.typ != ZLIST:
            self.fail(node, "comprehension over a %s" % it.typ)
        var = g.target.id
        if var in env or var in PROTECTED:
            self.fail(node, "comprehension variable `%s` shadows a name" % var)
        env2 = dict(env)
        env2[var] = V(ZT, "v_" + var)
        e = self.expr(node.elt, env2)
        if e.typ != LINOP:
            self.fail(node, "comprehension of %s values" % e.typ)
        return V(LINOPS, "(map (fun v_%s : Z => %s) %s)" % (var, e.code, it.code))

    def arg(self, where, bound, name, kind, env, node):
        """Gallina text of one bound argument, coerced to the kind the model expects"""
        a = bound[name]
        if isinstance(a, tuple):              # default taken from the callee's signature (read from the source)
            d = a[1]
            if not isinstance(d, ast.Constant):
                self.fail(node, "%s: default of `%s` is not a literal" % (where, name))
            if kind == "oversamp":
                x100 = d.value * 100
                if isinstance(d.value, bool) or not isinstance(d.value, (int, float)) or x100 != int(x100):
                    self.fail(node, "%s: default oversamp %r is not a multiple of 1/100" % (where, d.value))
                return "%d" % int(x100)
            if kind == "width":
                if isinstance(d.value, bool) or not isinstance(d.value, int):
                    self.fail(node, "%s: default width %r is not an integer" % (where, d.value))
                return "%d" % d.value
            if kind == WAVE:
                self.fail(node, "%s: default wavelet name is not modelled; pass wave_name" % where)
            v = self.expr(d, env)
        else:
            if kind in ("oversamp", "width"):
                self.fail(node, "%s: explicit `%s` is outside the fragment" % (where, name))
            v = self.expr(a, env)
        if kind == "mult":
            if v.typ != AREF:
                self.fail(node, "%s: multiplier of kind %s" % (where, v.typ))
            return "(MArray %s)" % v.code
        try:
            return coerce(v, kind, where)
        except TranslationError as e:
            self.fail(node, str(e))

    def call(self, node, env):
        f = node.func
        # ---- builtins
        if isinstance(f, ast.Name) and f.id == "len" and "len" not in env:
            if len(node.args) != 1 or node.keywords:
                self.fail(node, "len() arguments")
            v = self.expr(node.args[0], env)
            if v.typ == AREF:
                return V(ZT, "(alen %s)" % v.code)
            if v.typ == SHAPE:
                return V(ZT, "(lenZ %s)" % v.code)
            self.fail(node, "len() of a %s" % v.typ)
        if isinstance(f, ast.Name) and f.id == "range" and "range" not in env:
            if node.keywords or not 1 <= len(node.args) <= 2:
                self.fail(node, "range() with a step / keywords is outside the fragment")
            vs = [self.expr(a, env) for a in node.args]
            if any(v.typ != ZT for v in vs):
                self.fail(node, "range() of non-integers")
            lo, hi = ("0", vs[0].code) if len(vs) == 1 else (vs[0].code, vs[1].code)
            return V(ZLIST, "(zrange %s %s 1)" % (lo, hi))
        # ---- the function itself (recursion) and local closures
        if isinstance(f, ast.Name) and f.id == self.self_call and f.id not in env:
            return V(LINOP, "(rec %s)" % self.sense_args(node, env))
        if isinstance(f, ast.Name) and f.id in env:
            fn = env[f.id]
            if fn.typ == FUN:
                if node.keywords or len(node.args) != len(fn.extra["args"]):
                    self.fail(node, "call of local function `%s`" % f.id)
                codes = []
                for a, k in zip(node.args, fn.extra["args"]):
                    v = self.expr(a, env)
                    if v.typ != k:
                        self.fail(node, "argument of `%s` is a %s, expected %s" % (f.id, v.typ, k))
                    codes.append(v.code)
                return V(fn.extra["ret"], "(%s %s)" % (fn.code, " ".join(codes)))
            self.fail(node, "`%s` (a %s) is not callable in the fragment" % (f.id, fn.typ))
        if isinstance(f, ast.Name) and f.id == "_estimate_weights" and self.rel == SRC_APP:
            if node.keywords or len(node.args) != 3:
                self.fail(node, "_estimate_weights is called with other than 3 positional arguments")
            y, w, c = [self.expr(a, env) for a in node.args]
            if y.typ != AREF:
                self.fail(node, "_estimate_weights: y is a %s" % y.typ)
            return V(OAREF, "(gen_estimate_weights %s %s %s)" % (y.code, coerce(w, OAREF, "weights"), coerce(c, OAREF, "coord")))
        q = self.qual(f)
        if q is None:
            self.fail(node, "call of `%s` is outside the fragment" % ast.unparse(f)[:60])
        where = q
        if q.startswith("sigpy.linop.") and q.split(".")[-1] in CTORS:
            cls = q.split(".")[-1]
            ctor, table = CTORS[cls]
            names, defaults, kw = self.lib.init_sig(LIB_LINOP, cls)
            if names != [t[0] for t in table] or kw:
                self.fail(node, "%s.__init__ parameters are %s, the model constructor assumes %s" % (cls, names, [t[0] for t in table]))
            bound = bind_call(where, node, names, defaults)
            args = [self.arg(where, bound, p, k, env, node) for p, k in table]
            if cls == "Wavelet":
                args.append("(wav_shape O %s)" % " ".join(args))
            return V(LINOP, "(%s %s)" % (ctor, " ".join(args)))
        if q == "sigpy.linop.FiniteDifference":
            names, defaults, kw = self.lib.func_sig(LIB_LINOP, "FiniteDifference")
            if names != ["ishape", "axes"] or kw:
                self.fail(node, "FiniteDifference parameters are %s" % names)
            bound = bind_call(where, node, names, defaults)
            return V(GOP, "(GFiniteDifference %s %s)" % (self.arg(where, bound, "ishape", SHAPE, env, node),
                                                        self.arg(where, bound, "axes", "oaxes", env, node)))
        if q == "sigpy.prox.L1Reg":
            names, defaults, kw = self.lib.init_sig(LIB_PROX, "L1Reg")
            if names != ["shape", "lamda"] or kw:
                self.fail(node, "L1Reg.__init__ parameters are %s" % names)
            bound = bind_call(where, node, names, defaults)
            return V(RPROX, "(RL1Reg %s %s)" % (self.arg(where, bound, "shape", SHAPE, env, node),
                                               self.arg(where, bound, "lamda", SCALAR, env, node)))
        if q == "sigpy.prox.UnitaryTransform":
            names, defaults, kw = self.lib.init_sig(LIB_PROX, "UnitaryTransform")
            if names != ["prox", "A"] or kw:
                self.fail(node, "UnitaryTransform.__init__ parameters are %s" % names)
            bound = bind_call(where, node, names, defaults)
            return V(RPROX, "(RUnitary %s %s)" % (self.arg(where, bound, "prox", RPROX, env, node),
                                                 self.arg(where, bound, "A", LINOP, env, node)))
        if q == "sigpy.to_device":
            names, defaults, kw = self.lib.func_sig(LIB_BACKEND, "to_device")
            if names != ["input", "device"] or kw:
                self.fail(node, "to_device parameters are %s" % names)
            bound = bind_call(where, node, names, defaults)
            if isinstance(bound["device"], tuple):
                self.fail(node, "to_device without the app's device")
            d = self.expr(bound["device"], env)
            if d.typ != DEVICE:
                self.fail(node, "to_device(device=<%s>)" % d.typ)
            v = self.expr(bound["input"], env)          # on the CPU to_device returns its input
            if v.typ != AREF:
                self.fail(node, "to_device of a %s" % v.typ)
            return v
        if q == "sigpy.mri.linop.Sense" and self.rel == SRC_APP:
            return V(LINOP, "(gen_Sense %s)" % self.sense_args(node, env))
        self.fail(node, "call of `%s` is outside the fragment" % q)

    def sense_args(self, node, env):
        """mkSenseArgs ... for a call of Sense, bound against Sense's OWN signature (checked against SENSE_PARAMS before)"""
        names = [t[0] for t in SENSE_PARAMS]
        defaults = {t[0]: ast.Constant(value=t[3]) for t in SENSE_PARAMS if t[3] is not REQUIRED}
        bound = bind_call("Sense", node, names, defaults)
        out = []
        for name, kind, field, _ in SENSE_PARAMS:
            a = bound[name]
            v = self.expr(a[1] if isinstance(a, tuple) else a, env)
            if field is None:
                if v.typ != NONE:
                    self.fail(node, "Sense(%s=<%s>): this translation covers %s=None only" % (name, v.typ, name))
                if name == "tseg" and self.self_call and not (isinstance(a, ast.Name) and a.id == "tseg"):
                    # invisible while tseg = None, but the per-batch operators must get the caller's tseg (F17)
                    self.fail(node, "the per-batch call of Sense does not forward `tseg=tseg`")
                continue
            try:
                out.append(coerce(v, kind, "Sense(%s=)" % name))
            except TranslationError as e:
                self.fail(node, str(e))
        return "(mkSenseArgs %s)" % " ".join(out)

    # ---- tests ----
    def test(self, node, env):
        """one of ('static', bool) | ('opt', name, is_none_when_true) | ('bool', code)"""
        if isinstance(node, ast.Compare) and len(node.ops) == 1:
            op, a, b = node.ops[0], node.left, node.comparators[0]
            if isinstance(op, (ast.Is, ast.IsNot)) and isinstance(b, ast.Constant) and b.value is None:
                if not isinstance(a, ast.Name):
                    self.fail(node, "`is None` on an expression")
                v = self.expr(a, env)
                isnone = isinstance(op, ast.Is)
                if v.typ == NONE:
                    return ("static", isnone)
                if v.typ in BASE_OF:
                    return ("opt", a.id, isnone)
                if v.typ in OPT_OF or v.typ in (AREF, ZT, SHAPE, LINOP):
                    return ("static", not isnone)
                self.fail(node, "`is None` on a %s" % v.typ)
            if isinstance(op, ast.Is) and isinstance(b, ast.Constant) and b.value is False:
                v = self.expr(a, env)
                if v.typ != BOOL:
                    self.fail(node, "`is False` on a %s" % v.typ)
                return ("bool", "(negb %s)" % v.code)
            sym = {ast.Lt: "(%s <? %s)", ast.Eq: "(%s =? %s)", ast.LtE: "(%s <=? %s)", ast.Gt: "(%s >? %s)", ast.GtE: "(%s >=? %s)",
                   ast.NotEq: "(negb (%s =? %s))"}.get(type(op))
            if sym:
                x, y = self.expr(a, env), self.expr(b, env)
                if x.typ == ZT and y.typ == ZT:
                    return ("bool", sym % (x.code, y.code))
                self.fail(node, "comparison of %s and %s" % (x.typ, y.typ))
            self.fail(node, "comparison %s is outside the fragment" % type(op).__name__)
        self.fail(node, "test `%s` is outside the fragment" % ast.unparse(node)[:80])

    # ---- statements (continuation style: `kont(env)` is the Gallina text of what follows the block) ----
    def block(self, stmts, env, kont):
        if not stmts:
            if kont is None:
                raise TranslationError("%s:%s: a path falls off the end of the function (returns None)" % (self.rel, self.fname))
            return kont(env)
        s, rest = stmts[0], stmts[1:]
        if is_docstring(s) or isinstance(s, ast.Pass):
            return self.block(rest, env, kont)
        if isinstance(s, ast.Return):
            if s.value is None:
                self.fail(s, "bare return")
            v = self.expr(s.value, env)
            try:
                return coerce(v, self.ret, "return")
            except TranslationError as e:
                self.fail(s, str(e))
        if isinstance(s, ast.Assign):
            return self.assign(s, rest, env, kont)
        if isinstance(s, ast.AugAssign):
            self.fail(s, "augmented assignment (an in-place write when the target is an array, e.g. the caller's data) is outside the fragment")
        if isinstance(s, ast.With):
            if len(s.items) != 1 or s.items[0].optional_vars is not None:
                self.fail(s, "with-statement shape")
            c = s.items[0].context_expr
            ok = isinstance(c, ast.Call) and self.qual(c.func) == "sigpy.get_device" and len(c.args) == 1 and not c.keywords
            if ok:
                self.expr(c.args[0], env)
            if not ok:
                self.fail(s, "only `with sp.get_device(<array>):` is accepted")
            return self.block(list(s.body) + rest, env, kont)       # a device context binds nothing
        if isinstance(s, ast.FunctionDef):
            return self.nested_def(s, rest, env, kont)
        if isinstance(s, ast.If):
            return self.if_stmt(s, rest, env, kont)
        if isinstance(s, ast.Expr) and isinstance(s.value, ast.Call):
            return self.expr_stmt(s, rest, env, kont)
        self.fail(s, "statement %s is outside the fragment" % type(s).__name__)

    def expr_stmt(self, s, rest, env, kont):
        self.fail(s, "expression statement is outside the fragment")

    def bind(self, name, v, node):
        if name in PROTECTED:
            self.fail(node, "assignment to `%s`, a name the reading relies on" % name)
        if name in self.frozen:
            self.fail(node, "`%s` is reassigned after the local function `%s` captured it (late binding)" % (name, self.frozen[name]))
        if v.typ in (HALF, STR, FUN, XP, KWARGS):
            self.fail(node, "a %s cannot be bound to a variable in the fragment" % v.typ)

    def assign(self, s, rest, env, kont):
        if len(s.targets) != 1:
            self.fail(s, "chained assignment")
        t = s.targets[0]
        if isinstance(t, ast.Attribute) and isinstance(t.value, ast.Name) and t.attr == "repr_str":
            v = self.expr(t.value, env)
            if v.typ != LINOP or not (isinstance(s.value, ast.Constant) and isinstance(s.value.value, str)):
                self.fail(s, "only `<linop>.repr_str = \"...\"` (a display name) may be set")
            return self.block(rest, env, kont)
        if not isinstance(t, ast.Name):
            self.fail(s, "assignment target `%s` is outside the fragment" % ast.unparse(t)[:60])
        v = self.expr(s.value, env)
        self.bind(t.id, v, s)
        if v.typ == NONE:
            env2 = dict(env)
            env2[t.id] = V(NONE, "None")
            return self.block(rest, env2, kont)
        if v.typ not in COQ_TYPE:
            self.fail(s, "a %s cannot be bound to a variable" % v.typ)
        env2 = dict(env)
        env2[t.id] = V(v.typ, "v_" + t.id)
        return "let v_%s := %s in   (* line %d *)\n%s" % (t.id, strip_parens(v.code), s.lineno, self.block(rest, env2, kont))

    def nested_def(self, s, rest, env, kont):
        if self.depth >= 1:
            self.fail(s, "nested functions deeper than one level")
        names, defaults, kw = sig_of(s)
        if defaults or kw or s.decorator_list:
            self.fail(s, "defaults / **kwargs / decorators on a local function")
        kind = self.local_function_kind(s, env)
        if kind is not None:
            v = kind
        else:
            if len(names) != 1:
                self.fail(s, "local function with %d parameters" % len(names))
            sub = Exec(self.lib, self.rel, self.lines, self.imports, self.fname + "." + s.name, OAREF)
            sub.depth = self.depth + 1
            env2 = dict(env)
            env2[names[0]] = V(ZT, "v_" + names[0])
            body = sub.block(list(s.body), env2, None)
            v = V(FUN, "(fun v_%s : Z =>\n%s)" % (names[0], indent(body)), args=[ZT], ret=OAREF)
        if s.name in PROTECTED or s.name in self.frozen:
            self.fail(s, "local function name `%s`" % s.name)
        # late binding: the closure reads its free variables when CALLED; they must keep the value they have here
        free = {n.id for n in ast.walk(s) if isinstance(n, ast.Name) and isinstance(n.ctx, ast.Load)} - set(names)
        for n in free:
            if n in env:
                self.frozen.setdefault(n, s.name)
        env2 = dict(env)
        if v.typ == FUN:
            env2[s.name] = V(FUN, "v_" + s.name, **v.extra)
            return "let v_%s :=   (* line %d: local function *)\n%s in\n%s" % (s.name, s.lineno, indent(v.code), self.block(rest, env2, kont))
        env2[s.name] = V(v.typ, "v_" + s.name)
        return "let v_%s := %s in   (* line %d *)\n%s" % (s.name, strip_parens(v.code), s.lineno, self.block(rest, env2, kont))

    def local_function_kind(self, s, env):
        """the objective-term closures of the recon apps:  def g(v): device = sp.get_device(v); xp = device.xp;
           with device: return lamda * xp.sum(xp.abs(<W(v) | v>)).item()     ->  GL1 lamda (Some W | None)"""
        if self.rel != SRC_APP:
            return None
        names = [a.arg for a in s.args.args]
        body = [b for b in s.body if not is_docstring(b)]
        if len(names) != 1 or len(body) != 3:
            self.fail(s, "local function `%s` is not of the objective-term shape" % s.name)
        x = names[0]
        s0, s1, s2 = body
        ok = isinstance(s0, ast.Assign) and len(s0.targets) == 1 and isinstance(s0.targets[0], ast.Name) \
            and isinstance(s0.value, ast.Call) and self.qual(s0.value.func) == "sigpy.get_device" \
            and len(s0.value.args) == 1 and not s0.value.keywords and isinstance(s0.value.args[0], ast.Name) and s0.value.args[0].id == x
        if not ok:
            self.fail(s0, "expected `device = sp.get_device(%s)`" % x)
        dev = s0.targets[0].id
        ok = isinstance(s1, ast.Assign) and len(s1.targets) == 1 and isinstance(s1.targets[0], ast.Name) \
            and isinstance(s1.value, ast.Attribute) and s1.value.attr == "xp" and isinstance(s1.value.value, ast.Name) and s1.value.value.id == dev
        if not ok:
            self.fail(s1, "expected `xp = %s.xp`" % dev)
        xp = s1.targets[0].id
        if len({x, dev, xp}) != 3:
            self.fail(s, "local names of `%s` collide" % s.name)
        ok = isinstance(s2, ast.With) and len(s2.items) == 1 and s2.items[0].optional_vars is None \
            and isinstance(s2.items[0].context_expr, ast.Name) and s2.items[0].context_expr.id == dev \
            and len(s2.body) == 1 and isinstance(s2.body[0], ast.Return)
        if not ok:
            self.fail(s2, "expected `with %s: return ...`" % dev)
        r = s2.body[0].value

        def is_xp_call(n, fn):
            return isinstance(n, ast.Call) and isinstance(n.func, ast.Attribute) and n.func.attr == fn \
                and isinstance(n.func.value, ast.Name) and n.func.value.id == xp and len(n.args) == 1 and not n.keywords
        ok = isinstance(r, ast.BinOp) and isinstance(r.op, ast.Mult) and isinstance(r.left, ast.Name) \
            and isinstance(r.right, ast.Call) and isinstance(r.right.func, ast.Attribute) and r.right.func.attr == "item" \
            and not r.right.args and not r.right.keywords and is_xp_call(r.right.func.value, "sum") \
            and is_xp_call(r.right.func.value.args[0], "abs")
        if not ok:
            self.fail(s2.body[0], "expected `return <lamda> * %s.sum(%s.abs(...)).item()`" % (xp, xp))
        if r.left.id in (x, dev, xp):
            self.fail(s2.body[0], "the weight of the objective term is a local")
        lam = self.expr(r.left, env)
        if lam.typ != SCALAR:
            self.fail(s2.body[0], "the weight of the objective term is a %s" % lam.typ)
        inner = r.right.func.value.args[0].args[0]
        if isinstance(inner, ast.Name) and inner.id == x:
            return V(RGFUN, "(GL1 %s None)" % lam.code)
        if isinstance(inner, ast.Call) and isinstance(inner.func, ast.Name) and inner.func.id not in (x, dev, xp) and len(inner.args) == 1 \
                and not inner.keywords and isinstance(inner.args[0], ast.Name) and inner.args[0].id == x:
            w = self.expr(inner.func, env)
            if w.typ != LINOP:
                self.fail(s2.body[0], "`%s` applied in the objective term is a %s" % (inner.func.id, w.typ))
            return V(RGFUN, "(GL1 %s (Some %s))" % (lam.code, w.code))
        self.fail(s2.body[0], "the argument of abs is neither `%s` nor `<linop>(%s)`" % (x, x))

    def conjuncts(self, node):
        if isinstance(node, ast.BoolOp) and isinstance(node.op, ast.And):
            out = []
            for v in node.values:
                out += self.conjuncts(v)
            return out
        if isinstance(node, ast.BoolOp):
            self.fail(node, "`or` is outside the fragment")
        return [node]

    def if_stmt(self, s, rest, env, kont):
        st = self.static_value(self.conjuncts(s.test), env)
        if st is not None:
            # decided by what this translation fixes (tseg = None, comm = None): the other branch is dead and is NOT read
            return self.block(list(s.body if st else s.orelse) + rest, env, kont)
        then_ret, else_ret = always_returns(s.body), always_returns(s.orelse)
        if then_ret or else_ret:
            # a branch that returns: the other branch continues with the rest of the function
            tb = (lambda e: self.block(list(s.body), e, None)) if then_ret else (lambda e: self.block(list(s.body) + rest, e, kont))
            eb = (lambda e: self.block(list(s.orelse), e, None)) if else_ret else (lambda e: self.block(list(s.orelse) + rest, e, kont))
            return self.branch(s, self.conjuncts(s.test), env, tb, eb)
        if has_return(s.body) or has_return(s.orelse):
            self.fail(s, "an `if` with a return on some paths only")
        # both branches fall through: bind the variables assigned in them
        cand = [n for n in assigned_names(list(s.body) + list(s.orelse))]
        seen = []

        def probe(e):
            seen.append(e)
            return ""
        self_frozen = dict(self.frozen)
        self.branch(s, self.conjuncts(s.test), env, lambda e: self.block(list(s.body), e, probe), lambda e: self.block(list(s.orelse), e, probe))
        self.frozen = self_frozen
        if not seen:
            self.fail(s, "no path through this `if`")
        merged, kinds = [], {}
        for n in cand:
            if not all(n in e for e in seen):
                continue                        # defined on some paths only: unusable afterwards (dropped from the environment)
            ts = {e[n].typ for e in seen}
            if len(ts) == 1:
                k = next(iter(ts))
            else:
                bases = {BASE_OF.get(t, t) for t in ts if t != NONE}
                k = OPT_OF.get(next(iter(bases))) if len(bases) == 1 else None
            if k == NONE:
                kinds[n] = NONE
                continue
            if k is None or k not in COQ_TYPE:
                self.fail(s, "`%s` has kinds %s on the paths through this `if`" % (n, sorted(ts)))
            kinds[n] = k
            merged.append(n)
        dropped = [n for n in cand if n not in kinds]

        def out(e):
            vals = [coerce(e[n], kinds[n], "merge of `%s`" % n) for n in merged]
            return vals[0] if len(vals) == 1 else "(%s)" % ", ".join(vals)
        env2 = dict(env)
        for n in dropped:
            env2.pop(n, None)
        for n in cand:
            if n in kinds:
                self.bind(n, V(kinds[n], ""), s)
        for n, k in kinds.items():
            env2[n] = V(NONE, "None") if k == NONE else V(k, "v_" + n)
        if not merged:
            return self.block(rest, env2, kont)
        code = self.branch(s, self.conjuncts(s.test), env, lambda e: self.block(list(s.body), e, out), lambda e: self.block(list(s.orelse), e, out))
        pat = "v_%s" % merged[0] if len(merged) == 1 else "'(%s)" % ", ".join("v_" + n for n in merged)
        return "let %s :=   (* line %d *)\n%s in\n%s" % (pat, s.lineno, indent("(" + code + ")"), self.block(rest, env2, kont))

    def static_value(self, tests, env):
        """True / False when the condition is decided statically (left to right, like `and`), else None"""
        for t in tests:
            is_none_test = isinstance(t, ast.Compare) and len(t.ops) == 1 and isinstance(t.ops[0], (ast.Is, ast.IsNot)) \
                and isinstance(t.comparators[0], ast.Constant) and t.comparators[0].value is None and isinstance(t.left, ast.Name)
            if not is_none_test:
                return None
            k = self.test(t, env)
            if k[0] != "static":
                return None
            if not k[1]:
                return False
        return True

    def branch(self, s, tests, env, then_k, else_k):
        """`if t1 and t2 and ...: THEN else: ELSE`; optional-argument tests become matches (refining the variable), integer /
        boolean tests are joined by &&; the ELSE text is repeated where needed"""
        opts, bools, e = [], [], dict(env)
        static_false = False
        for t in tests:
            k = self.test(t, e)
            if k[0] == "static":
                if not k[1]:
                    static_false = True
                    break
                continue
            if k[0] == "opt":
                if bools:
                    self.fail(s, "an `is None` test after an arithmetic test in one condition")
                opts.append((k[1], k[2], e[k[1]]))
                e = dict(e)
                e[k[1]] = V(NONE, "None") if k[2] else V(BASE_OF[e[k[1]].typ], "v_" + k[1])
            else:
                bools.append(k[1])
        if static_false:
            # tests before the statically false one may still refine nothing: the whole condition is false
            return else_k(dict(env))

        def build(i, cur):
            if i == len(opts):
                inner_then = then_k(cur)
                if not bools:
                    return inner_then
                c = bools[0] if len(bools) == 1 else " && ".join(bools)
                return "if %s\nthen\n%s\nelse\n%s" % (c, indent(inner_then), indent(else_k(cur)))
            name, isnone, v = opts[i]
            hit, miss = dict(cur), dict(cur)
            if isnone:
                hit[name] = V(NONE, "None")
                miss[name] = V(BASE_OF[v.typ], "v_" + name)
                none_code, some_code = build(i + 1, hit), else_k(miss)
            else:
                hit[name] = V(BASE_OF[v.typ], "v_" + name)
                miss[name] = V(NONE, "None")
                some_code, none_code = build(i + 1, hit), else_k(miss)
            return "match %s with\n| None =>\n%s\n| Some v_%s =>\n%s\nend" % (v.code, indent(none_code), name, indent(some_code))
        return build(0, dict(env))


def strip_parens(c):
    return c


def indent(text, n=2):
    return "\n".join((" " * n + l) if l else l for l in text.split("\n"))


# ---------------------------------------------------------------------------------------------- the recon apps
class ReconExec(Exec):
    """__init__ of a recon app: the body must end (after the static `if comm is not None:`) in ONE
       super().__init__(A, y, ..., **kwargs); its bound arguments are the generated recon_cfg"""

    def __init__(self, *a, **k):
        super().__init__(*a, **k)
        self.done = False

    def expr_stmt(self, s, rest, env, kont):
        c = s.value
        f = c.func
        ok = isinstance(f, ast.Attribute) and f.attr == "__init__" and isinstance(f.value, ast.Call) and isinstance(f.value.func, ast.Name) \
            and f.value.func.id == "super" and not f.value.args and not f.value.keywords
        if not ok:
            self.fail(s, "expression statement is outside the fragment")
        if [r for r in rest if not is_docstring(r) and not isinstance(r, ast.Pass)]:
            self.fail(rest[0], "statements after super().__init__")
        names, defaults, kw = self.lib.init_sig(LIB_APP, "LinearLeastSquares")
        if kw:
            self.fail(s, "LinearLeastSquares.__init__ takes **kwargs")
        bound = bind_call("LinearLeastSquares.__init__", c, names, defaults, allow_kwargs=self.kwargs_name)
        fields = []
        for name, kind, required in LLS_FIELDS:
            if name not in names:
                self.fail(s, "LinearLeastSquares.__init__ has no parameter `%s`" % name)
            a = bound[name]
            if isinstance(a, tuple):
                if required:
                    self.fail(s, "`%s` is not passed to LinearLeastSquares" % name)
                fields.append("None")
                continue
            v = self.expr(a, env)
            try:
                fields.append(coerce(v, kind, "LinearLeastSquares(%s=)" % name))
            except TranslationError as e:
                self.fail(s, str(e))
        for name in names:
            a = bound[name]
            if isinstance(a, tuple) or name in [f[0] for f in LLS_FIELDS]:
                continue
            if name == "show_pbar":
                v = self.expr(a, env)
                if v.typ != PBAR:
                    self.fail(s, "show_pbar=<%s>" % v.typ)
                continue
            self.fail(s, "the app fixes LinearLeastSquares' `%s`; the model leaves it to **kwargs" % name)
        self.done = True
        return "mkRecon %s" % " ".join(fields)


HEADER = """(* Gen_sense.v -- GENERATED by tools/translate_sense.py.  Do not edit.
   sources (sha256):
%s
   The SENSE operator factory sigpy.mri.linop.Sense as a function from its arguments to a term of the deep embedding
   model/Linop.v, what the reconstruction apps of sigpy/mri/app.py hand to LinearLeastSquares, and their agreement with the
   hand models model/Sense.v (sense_factory) and model/SenseRecon.v.  Python locals are prefixed v_. *)
From Coq Require Import ZArith List Bool.
From SV Require Import lib.Scalar lib.LoopIR lib.NdArray model.Block model.Linop model.Sense model.SenseRecon.
Import ListNotations.
Local Open Scope Z_scope.

Section Gen.
Variable O : aops.     (* names of derived arrays (slices, sqrt, negation, mask, product) and the wavelet coefficient shape *)

"""

PROOFS_SENSE = """
(* Python's Sense calls itself for every coil batch; the callee is the parameter [rec].  The per-batch calls pass
   coil_batch_size = None, and such a call never reaches its callee (gen_Sense_unbatched_ok, gen_Sense_rec_irrelevant), so two
   unrollings are the function; the innermost callee is a dummy. *)
Definition gen_Sense (args : sense_args) : linop := gen_Sense_body (gen_Sense_body (fun _ => Identity [])) args.

Ltac sense_args_cases :=
  repeat match goal with
         | x : option _ |- _ => destruct x
         | x : bool |- _ => destruct x
         end.

Lemma gen_Sense_unbatched_ok : forall rec args, sa_batch args = None -> gen_Sense_body rec args = sense_single O args.
Proof.
  intros rec [mps coord weights ishape batch transp] H. cbn [sa_batch] in H. subst batch.
  unfold gen_Sense_body. cbn [sa_mps sa_coord sa_weights sa_ishape sa_batch sa_transp].
  sense_args_cases; cbv beta iota zeta; rewrite Z.ltb_irrefl; reflexivity.
Qed.

Lemma gen_Sense_body_ok : forall rec args, (forall a, sa_batch a = None -> rec a = sense_single O a) ->
  gen_Sense_body rec args = sense_factory O args.
Proof.
  intros rec [mps coord weights ishape batch transp] Hrec. unfold sense_factory.
  unfold gen_Sense_body. cbn [sa_mps sa_coord sa_weights sa_ishape sa_batch sa_transp].
  destruct batch as [b|].
  - destruct ishape; cbv beta iota zeta; destruct (b <? alen mps).
    all: try (f_equal; apply map_ext; intro c; apply Hrec; reflexivity).
    all: sense_args_cases; reflexivity.
  - sense_args_cases; cbv beta iota zeta; rewrite Z.ltb_irrefl; reflexivity.
Qed.

Lemma gen_Sense_rec_irrelevant : forall rec args, gen_Sense_body (gen_Sense_body rec) args = gen_Sense args.
Proof.
  intros rec args. unfold gen_Sense.
  rewrite !gen_Sense_body_ok by (intros a Ha; apply gen_Sense_unbatched_ok; exact Ha). reflexivity.
Qed.

Lemma gen_Sense_ok : forall args, gen_Sense args = sense_factory O args.
Proof.
  intros args. unfold gen_Sense. apply gen_Sense_body_ok. intros a Ha. apply gen_Sense_unbatched_ok. exact Ha.
Qed.
"""

PROOF_EW = """Lemma gen_estimate_weights_ok : forall y weights coord, gen_estimate_weights y weights coord = estimate_weights O y weights coord.
Proof. intros y weights coord. unfold gen_estimate_weights, estimate_weights. destruct weights, coord; reflexivity. Qed.
"""

PROOF_RECON = """Lemma gen_%(cls)s_ok : forall args, gen_%(cls)s args = %(hand)s O args.
Proof.
  intros [y mps lamda weights coord batch transp wave]. unfold gen_%(cls)s, %(hand)s, recon_sense, recon_data.
  cbn [ra_y ra_mps ra_lamda ra_weights ra_coord ra_batch ra_transp ra_wave].
  rewrite !gen_Sense_ok, !gen_estimate_weights_ok.
  destruct (estimate_weights O y weights coord); reflexivity.
Qed.
"""


def params_env(table, record_var):
    env, lets = {}, []
    for name, kind, field, _ in table:
        if field is None:
            env[name] = V(kind, "None" if kind == NONE else name)
            continue
        env[name] = V(kind, "v_" + name, caller=True)
        lets.append("let v_%s := %s %s in" % (name, field, record_var))
    return env, lets


def translate_sources(texts):
    """texts: {relative path: source text} for SOURCES -> Gallina text of Gen_sense.v"""
    class _L(Lib):
        def __init__(self):
            self.trees = {rel: ast.parse(texts[rel]) for rel in (LIB_LINOP, LIB_PROX, LIB_APP, LIB_BACKEND, LIB_UTIL)}
    lib = _L()
    out = [HEADER % "\n".join("     %s  %s" % (hashlib.sha256(texts[r].encode()).hexdigest(), r) for r in SOURCES)]

    # ---------------- sigpy/mri/linop.py: Sense
    src = texts[SRC_LINOP]
    tree = ast.parse(src)
    imports = module_imports(tree, SRC_LINOP)
    if imports.get("sp") != "sigpy":
        raise TranslationError("%s: `sp` is no longer `import sigpy as sp`" % SRC_LINOP)
    fn = top_function(tree, "Sense", SRC_LINOP)
    if not isinstance(fn, ast.FunctionDef):
        raise TranslationError("%s: Sense is not a function" % SRC_LINOP)
    check_signature(SRC_LINOP + ":Sense", fn, SENSE_PARAMS, False, False)
    ex = Exec(lib, SRC_LINOP, src.split("\n"), imports, "Sense", LINOP, self_call="Sense")
    env, lets = params_env(SENSE_PARAMS, "args")
    body = ex.block(list(fn.body), env, None)
    out.append("(* %s: def Sense (line %d) *)" % (SRC_LINOP, fn.lineno))
    out.append("Definition gen_Sense_body (rec : sense_args -> linop) (args : sense_args) : linop :=\n%s\n%s." % (indent("\n".join(lets)), indent(body)))
    out.append(PROOFS_SENSE)

    # ---------------- sigpy/mri/app.py
    src = texts[SRC_APP]
    tree = ast.parse(src)
    imports = module_imports(tree, SRC_APP)
    if imports.get("sp") != "sigpy" or imports.get("linop") != "sigpy.mri.linop":
        raise TranslationError("%s: `sp` / `linop` are no longer `import sigpy as sp` / `from sigpy.mri import linop`" % SRC_APP)
    lines = src.split("\n")
    fn = top_function(tree, "_estimate_weights", SRC_APP)
    if not isinstance(fn, ast.FunctionDef):
        raise TranslationError("%s: _estimate_weights is not a function" % SRC_APP)
    names, defaults, kw = sig_of(fn)
    if names != ["y", "weights", "coord"] or defaults or kw:
        raise TranslationError("%s:_estimate_weights: parameters are %s" % (SRC_APP, names))
    ex = EstimateExec(lib, SRC_APP, lines, imports, "_estimate_weights", OAREF)
    env = {"y": V(AREF, "v_y"), "weights": V(OAREF, "v_weights"), "coord": V(OAREF, "v_coord")}
    body = ex.block(list(fn.body), env, None)
    out.append("(* %s: def _estimate_weights (line %d) *)" % (SRC_APP, fn.lineno))
    out.append("Definition gen_estimate_weights (v_y : aref) (v_weights v_coord : option aref) : option aref :=\n%s." % indent(body))
    out.append(PROOF_EW)
    for cls, table in RECON_PARAMS.items():
        c = top_function(tree, cls, SRC_APP)
        if not isinstance(c, ast.ClassDef) or c.decorator_list or c.keywords or len(c.bases) != 1:
            raise TranslationError("%s: %s is not a plain class with one base" % (SRC_APP, cls))
        base = c.bases[0]
        q = Exec(lib, SRC_APP, lines, imports, cls, None).qual(base)
        if q != "sigpy.app.LinearLeastSquares":
            raise TranslationError("%s: %s derives from %s, not sp.app.LinearLeastSquares" % (SRC_APP, cls, ast.unparse(base)))
        members = [m for m in c.body if not is_docstring(m)]
        if len(members) != 1 or not isinstance(members[0], ast.FunctionDef) or members[0].name != "__init__" or members[0].decorator_list:
            raise TranslationError("%s: %s defines more than __init__ (%s): the model assumes LinearLeastSquares' methods"
                                   % (SRC_APP, cls, [getattr(m, "name", type(m).__name__) for m in members]))
        init = members[0]
        kwname = check_signature("%s:%s.__init__" % (SRC_APP, cls), init, table, True, True)
        ex = ReconExec(lib, SRC_APP, lines, imports, cls + ".__init__", None)
        ex.kwargs_name = kwname
        env, lets = params_env(table, "args")
        body = ex.block(list(init.body), env, lambda e: ex.fail(init, "__init__ does not end in super().__init__(...)"))
        if not ex.done:
            raise TranslationError("%s:%s.__init__: no super().__init__ call reached" % (SRC_APP, cls))
        out.append("(* %s: %s.__init__ (line %d) *)" % (SRC_APP, cls, init.lineno))
        out.append("Definition gen_%s (args : recon_args) : recon_cfg :=\n%s\n%s." % (cls, indent("\n".join(lets)), indent(body)))
        out.append(PROOF_RECON % {"cls": cls, "hand": RECON_HAND[cls]})
    out.append("End Gen.")
    return "\n".join(out) + "\n"


class EstimateExec(Exec):
    """_estimate_weights: additionally reads  (sp.rss(y, axes=(0,)) > 0).astype(y.dtype)  as the sampling mask a_mask O y"""

    def expr(self, node, env):
        m = self.mask(node, env)
        if m is not None:
            return m
        return super().expr(node, env)

    def mask(self, node, env):
        if not (isinstance(node, ast.Call) and isinstance(node.func, ast.Attribute) and node.func.attr == "astype"):
            return None
        if len(node.args) != 1 or node.keywords:
            self.fail(node, "astype arguments")
        c, dt = node.func.value, node.args[0]
        ok = isinstance(c, ast.Compare) and len(c.ops) == 1 and isinstance(c.ops[0], ast.Gt) and isinstance(c.comparators[0], ast.Constant) \
            and type(c.comparators[0].value) is int and c.comparators[0].value == 0 and isinstance(c.left, ast.Call) \
            and self.qual(c.left.func) == "sigpy.rss"
        if not ok:
            self.fail(node, "expected `(sp.rss(<y>, axes=(0,)) > 0).astype(<y>.dtype)`")
        names, defaults, kw = self.lib.func_sig(LIB_UTIL, "rss")
        if names != ["input", "axes"] or kw:
            self.fail(node, "rss parameters are %s" % names)
        bound = bind_call("sigpy.rss", c.left, names, defaults)
        ax = bound["axes"][1] if isinstance(bound["axes"], tuple) else bound["axes"]
        if ast.unparse(ax).replace(" ", "") not in ("(0,)", "[0]"):
            self.fail(node, "rss over axes %s, the mask is over the coil axis (0,)" % ast.unparse(ax))
        y = self.expr(bound["input"], env)
        if y.typ != AREF or not isinstance(bound["input"], ast.Name):
            self.fail(node, "rss of a %s" % y.typ)
        if not (isinstance(dt, ast.Attribute) and dt.attr == "dtype" and isinstance(dt.value, ast.Name) and dt.value.id == bound["input"].id):
            self.fail(node, "astype(%s): the mask takes the data's dtype" % ast.unparse(dt))
        return V(AREF, "(a_mask O %s)" % y.code)


def read_sources(repo):
    return {rel: open(os.path.join(repo, rel)).read() for rel in SOURCES}


def translate_sense(repo):
    return translate_sources(read_sources(repo))


def failing_lemma(gen_text, log):
    """name of the lemma / definition a coqc error message points into"""
    m = re.search(r'line (\d+), characters', log)
    if not m:
        return None
    lines = gen_text.split("\n")
    for i in range(min(int(m.group(1)), len(lines)) - 1, -1, -1):
        mm = re.match(r"\s*(?:Lemma|Definition)\s+([A-Za-z0-9_']+)", lines[i])
        if mm:
            return mm.group(1)
    return None


def tie(ctx):
    """The obligations props/C16.py adds (DESIGN 2.10 steps 1-2): regenerate gen/Gen_sense.v from the tree under test, then
    compile it (the `_ok` lemmas ARE the tie) together with proofs/SenseFactory.vo (sense_factory = sense_tree on the sliced
    arrays).  Returns None when everything holds, else {"theorem": <translator or lemma>, "log": ...} for the
    no-failing-input report."""
    from tools import translate_all
    from vlib import core
    tr_err = translate_all.run(strict=False, only=["sense"])
    ctx.source_hash(*SOURCES)
    ctx.obligation("translate:%s (%s)" % (SRC_LINOP, COVERED_LINOP), not tr_err)
    ctx.obligation("translate:%s (%s)" % (SRC_APP, COVERED_APP), not tr_err)
    name = "tie:generated == hand model (gen/Gen_sense.v: %s)" % ", ".join(l for l in LEMMAS if l.endswith("_ok"))
    name2 = "tie:sense_factory == sense_tree on the per-batch slices (proofs/SenseFactory.v: sense_factory_is_tree)"
    if tr_err:
        ctx.notes.append("translator failed closed: %s" % tr_err)
        ctx.obligation(name, False)
        return {"theorem": "translate:%s" % (SRC_APP if SRC_APP + ":" in str(tr_err) else SRC_LINOP), "log": str(tr_err)}
    ctx.checker_cmds.append("cd %s && make gen/Gen_sense.vo proofs/SenseFactory.vo" % core.COQ)
    ok2, log2 = core.coq_make(["proofs/SenseFactory.vo"], timeout=900)
    ctx.obligation(name2, ok2)
    ok, log = core.coq_make(["gen/Gen_sense.vo"], timeout=900)
    ctx.obligation(name, ok)
    if ok and ok2:
        return None
    if not ok2:
        ctx.notes.append("proofs/SenseFactory.v no longer compiles: %s" % log2[-1200:])
        return {"theorem": "tie:sense_factory_is_tree (proofs/SenseFactory.v)", "log": log2[-2500:]}
    lem = None
    m = re.search(r'File "[^"]*?Gen_sense\.v", line (\d+)', log)
    if m:
        try:
            lem = failing_lemma(open(os.path.join(core.COQ, "gen", "Gen_sense.v")).read(), "line %s, characters" % m.group(1))
        except OSError:
            lem = None
    which = "%s (gen/Gen_sense.v)" % (lem or "?")
    ctx.notes.append("generated SENSE factory / recon set-up no longer equals the hand model: %s: %s" % (which, log[-1200:]))
    return {"theorem": "tie:" + which, "log": log[-2500:]}


if __name__ == "__main__":
    args = [a for a in sys.argv[1:] if not a.startswith("--")]
    sys.stdout.write(translate_sense(args[0] if args else "/repo"))
