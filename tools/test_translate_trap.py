#!/usr/bin/env python3
"""Self-test of tools/translate_trap.py: small textual mutations of a COPY of sigpy/mri/rf/trajgrad.py.

For every mutation the copy is translated; expected outcome: the translation FAILS CLOSED (TranslationError naming the
line) or the first `_ok` lemma that no longer compiles is named.  The unmodified source and the meaning-preserving edits
that keep the AST shape must pass; meaning-preserving edits that change the generated TERM are listed with the
expectation "breaks" (accepted by the brief: the check then falls back to the correspondence and the oracle).
Scratch copies: /verif/build/trtrap_selftest/<name>/{sigpy/mri/rf/trajgrad.py,Gen_trap.v}.

    /venv/bin/python tools/test_translate_trap.py [repo] [--no-seeded]        exit 0 = everything as expected
"""
import concurrent.futures
import os
import shutil
import subprocess
import sys
import time

HERE = os.path.dirname(os.path.abspath(__file__))
sys.path.insert(0, os.path.dirname(HERE))
from tools import translate_trap as T      # noqa: E402
from vlib import core                     # noqa: E402

SCRATCH = os.path.join(core.BUILD, "trtrap_selftest")

# (name, old text, new text, which occurrence (0-based; -1 = all), expectation)
#   "caught": a defect -- must fail closed or break a lemma;  "pass": meaning-preserving, must still be accepted;
#   "breaks": meaning-preserving but changes the generated term -- reported, and said so
MUTATIONS = [
    # ---- trap_grad ---------------------------------------------------------------------------------------------
    ("tg_ramppts_floor", "ramppts = int(np.ceil(gmax / dgdt / dt))", "ramppts = int(np.floor(gmax / dgdt / dt))", 0, "caught"),
    ("tg_ramppts_plus_1", "ramppts = int(np.ceil(gmax / dgdt / dt))", "ramppts = int(np.ceil(gmax / dgdt / dt)) + 1", 0, "caught"),
    ("tg_triareamax_halved", "triareamax = ramppts * dt * gmax", "triareamax = ramppts * dt * gmax / 2", 0, "caught"),
    ("tg_switch_ge", "if triareamax > np.abs(area):", "if triareamax >= np.abs(area):", 0, "caught"),
    ("tg_switch_reversed", "if triareamax > np.abs(area):", "if triareamax < np.abs(area):", 0, "caught"),
    ("tg_switch_dropped_abs", "if triareamax > np.abs(area):", "if triareamax > area:", 0, "caught"),
    ("tg_newgmax_no_sqrt", "newgmax = np.sqrt(np.abs(area) * dgdt)", "newgmax = np.abs(area) * dgdt", 0, "caught"),
    ("tg_triangle_ramp_from_gmax", "ramppts = int(np.ceil(newgmax / dgdt / dt))", "ramppts = int(np.ceil(gmax / dgdt / dt))", 0, "caught"),
    ("tg_triangle_round", "ramppts = int(np.ceil(newgmax / dgdt / dt))", "ramppts = max(int(np.round(newgmax / dgdt / dt)), 1)", 0, "caught"),
    ("tg_linspace_num_short", "ramp_up = np.linspace(0, ramppts, num=ramppts + 1) / ramppts\n                ramp_dn = np.linspace(ramppts, 0, num=ramppts + 1) / ramppts\n                pulse = np.concatenate((ramp_up, ramp_dn))",
     "ramp_up = np.linspace(0, ramppts, num=ramppts) / ramppts\n                ramp_dn = np.linspace(ramppts, 0, num=ramppts + 1) / ramppts\n                pulse = np.concatenate((ramp_up, ramp_dn))", 0, "caught"),
    ("tg_ramp_up_descends", "                ramp_up = np.linspace(0, ramppts, num=ramppts + 1) / ramppts\n                ramp_dn = np.linspace(ramppts, 0, num=ramppts + 1) / ramppts\n                pulse = np.concatenate((ramp_up, np.ones(nflat), ramp_dn))",
     "                ramp_up = np.linspace(ramppts, 0, num=ramppts + 1) / ramppts\n                ramp_dn = np.linspace(ramppts, 0, num=ramppts + 1) / ramppts\n                pulse = np.concatenate((ramp_up, np.ones(nflat), ramp_dn))", 0, "caught"),
    ("tg_ramp_divided_by_r_plus_1", "ramp_dn = np.linspace(ramppts, 0, num=ramppts + 1) / ramppts\n                pulse = np.concatenate((ramp_up, ramp_dn))",
     "ramp_dn = np.linspace(ramppts, 0, num=ramppts + 1) / (ramppts + 1)\n                pulse = np.concatenate((ramp_up, ramp_dn))", 0, "caught"),
    ("tg_nflat_not_halved", "nflat = int(np.ceil((area - triareamax) / gmax / dt / 2) * 2)", "nflat = int(np.ceil((area - triareamax) / gmax / dt) * 2)", 0, "caught"),
    ("tg_nflat_floor", "nflat = int(np.ceil((area - triareamax) / gmax / dt / 2) * 2)", "nflat = int(np.floor((area - triareamax) / gmax / dt / 2) * 2)", 0, "caught"),
    ("tg_nflat_clamped", "nflat = int(np.ceil((area - triareamax) / gmax / dt / 2) * 2)\n",
     "nflat = int(np.ceil((area - triareamax) / gmax / dt / 2) * 2)\n                nflat = max(nflat, 0)\n", 0, "caught"),
    ("tg_flat_top_dropped", "pulse = np.concatenate((ramp_up, np.ones(nflat), ramp_dn))", "pulse = np.concatenate((ramp_up, ramp_dn))", 0, "caught"),
    ("tg_concatenate_order", "pulse = np.concatenate((ramp_up, np.ones(nflat), ramp_dn))", "pulse = np.concatenate((ramp_dn, np.ones(nflat), ramp_up))", 0, "caught"),
    ("tg_rescale_dropped_dt", "trap = pulse * (area / (sum(pulse) * dt))", "trap = pulse * (area / sum(pulse))", 0, "caught"),
    ("tg_rescale_abs_area", "trap = pulse * (area / (sum(pulse) * dt))", "trap = pulse * (np.abs(area) / (sum(pulse) * dt))", 0, "caught"),
    ("tg_rescale_np_sum", "trap = pulse * (area / (sum(pulse) * dt))", "trap = pulse * (area / (np.sum(pulse) * dt))", 0, "caught"),
    ("tg_guard_dropped_abs", "    if np.abs(area) > 0:\n        if rampsamp:", "    if area > 0:\n        if rampsamp:", 0, "caught"),
    ("tg_args_test_reversed", "if len(args) < 5:", "if len(args) > 5:", 0, "caught"),
    ("tg_zero_area_ramppts_1", "        trap, ramppts = 0, 0\n\n    return np.expand_dims(trap, axis=0), ramppts\n\n\ndef spiral_varden",
     "        trap, ramppts = 0, 1\n\n    return np.expand_dims(trap, axis=0), ramppts\n\n\ndef spiral_varden", 0, "caught"),
    ("tg_return_not_expanded", "    return np.expand_dims(trap, axis=0), ramppts\n\n\ndef spiral_varden", "    return trap, ramppts\n\n\ndef spiral_varden", 0, "caught"),
    ("tg_redefined_later", "def spiral_varden(", "def trap_grad(area, gmax, dgdt, dt):\n    return np.zeros((1, 2)), 1\n\n\ndef spiral_varden(", 0, "caught"),
    # ---- min_trap_grad ---------------------------------------------------------------------------------------------
    ("mt_a_wrong_constant", "a = np.sqrt(dgdt * area / 2)", "a = np.sqrt(dgdt * area / 4)", 0, "caught"),
    ("mt_pts_max_0", "pts = max(np.floor(area / a / dt), 1)", "pts = max(np.floor(area / a / dt), 0)", 0, "caught"),
    ("mt_pts_no_max", "pts = max(np.floor(area / a / dt), 1)", "pts = np.floor(area / a / dt)", 0, "caught"),
    ("mt_pts_ceil", "pts = max(np.floor(area / a / dt), 1)", "pts = max(np.ceil(area / a / dt), 1)", 0, "caught"),
    ("mt_cap_test_on_a", "if np.max(flat) > gmax:", "if a > gmax:", 0, "caught"),
    ("mt_cap_test_reversed", "if np.max(flat) > gmax:", "if gmax > np.max(flat):", 0, "caught"),
    ("mt_cap_test_ge", "if np.max(flat) > gmax:", "if np.max(flat) >= gmax:", 0, "caught"),
    ("mt_cap_floor", "flat = np.ones((1, int(np.ceil(area / gmax / dt))))", "flat = np.ones((1, int(np.floor(area / gmax / dt))))", 0, "caught"),
    ("mt_flat_not_normalised", "flat = flat / np.sum(flat) * area / dt", "flat = flat * area / dt", 0, "caught"),
    ("mt_cap_flat_not_rescaled", "            flat = np.ones((1, int(np.ceil(area / gmax / dt))))\n            flat = flat / np.sum(flat) * area / dt\n",
     "            flat = np.ones((1, int(np.ceil(area / gmax / dt))))\n", 0, "caught"),
    ("mt_flat_dropped_dt", "flat = flat / np.sum(flat) * area / dt", "flat = flat / np.sum(flat) * area", 1, "caught"),
    ("mt_ramppts_from_gmax", "ramppts = int(np.ceil(np.max(flat) / dgdt / dt))\n        ramp_up = (\n            np.linspace(0, ramppts, num=ramppts + 1) / ramppts * np.max(flat)",
     "ramppts = int(np.ceil(gmax / dgdt / dt))\n        ramp_up = (\n            np.linspace(0, ramppts, num=ramppts + 1) / ramppts * np.max(flat)", 0, "caught"),
    ("mt_ramp_up_to_gmax", "np.linspace(0, ramppts, num=ramppts + 1) / ramppts * np.max(flat)", "np.linspace(0, ramppts, num=ramppts + 1) / ramppts * gmax", 0, "caught"),
    ("mt_flat_row_dropped", "trap = np.concatenate((ramp_up, flat[0], ramp_dn))", "trap = np.concatenate((ramp_up, flat, ramp_dn))", 0, "caught"),
    ("mt_ramp_dn_missing", "trap = np.concatenate((ramp_up, flat[0], ramp_dn))", "trap = np.concatenate((ramp_up, flat[0]))", 0, "caught"),
    # ---- meaning-preserving edits that keep the AST shape: the tie must survive them -----------------------------------
    ("neutral_rename_local", "newgmax", "peak_amplitude", -1, "pass"),
    ("neutral_comment_docstring", "    if np.abs(area) > 0:\n        # we get the solution",
     "    # guard against a zero area\n    if np.abs(area) > 0:  # positive\n        # we get the solution", 0, "pass"),
    ("neutral_unused_local", "        # finish design with discretization\n", "        duration_guess = area / a\n        # finish design with discretization\n", 0, "pass"),
    ("neutral_dead_branch_edit", "            flat_top = np.max(flat)\n", "            flat_top = np.min(flat)\n", 0, "pass"),
    ("neutral_builtin_abs", "    if np.abs(area) > 0:\n        if rampsamp:", "    if abs(area) > 0:\n        if rampsamp:", 0, "pass"),
    ("neutral_lt_for_gt", "if np.max(flat) > gmax:", "if gmax < np.max(flat):", 0, "pass"),
    # ---- meaning-preserving edits that change the TERM: reported (accepted) -----------------------------------------
    ("refactor_commuted_product", "a = np.sqrt(dgdt * area / 2)", "a = np.sqrt(area * dgdt / 2)", 0, "breaks"),
    ("refactor_max_argument_order", "pts = max(np.floor(area / a / dt), 1)", "pts = max(1, np.floor(area / a / dt))", 0, "breaks"),
    ("refactor_num_written_1_plus_r", "ramp_up = np.linspace(0, ramppts, num=ramppts + 1) / ramppts\n                ramp_dn = np.linspace(ramppts, 0, num=ramppts + 1) / ramppts\n                pulse = np.concatenate((ramp_up, ramp_dn))",
     "ramp_up = np.linspace(0, ramppts, num=1 + ramppts) / ramppts\n                ramp_dn = np.linspace(ramppts, 0, num=ramppts + 1) / ramppts\n                pulse = np.concatenate((ramp_up, ramp_dn))", 0, "breaks"),
]


def nth_replace(text, old, new, k):
    if k == -1:
        assert old in text, old
        return text.replace(old, new)
    idx = -1
    for _ in range(k + 1):
        idx = text.find(old, idx + 1)
        if idx < 0:
            raise AssertionError("pattern not found (occurrence %d): %r" % (k, old))
    return text[:idx] + new + text[idx + len(old):]


def compile_gen(path):
    p = subprocess.run(["coqc", "-w", "-all", "-Q", core.COQ, "SV", path], cwd=os.path.dirname(path),
                       stdout=subprocess.PIPE, stderr=subprocess.STDOUT, text=True, timeout=600)
    return p.returncode, p.stdout


def one(name, src):
    d = os.path.join(SCRATCH, name.replace(":", "_"))
    shutil.rmtree(d, ignore_errors=True)
    os.makedirs(os.path.join(d, "sigpy", "mri", "rf"))
    with open(os.path.join(d, T.SRC_REL), "w") as f:
        f.write(src)
    try:
        text = T.translate_trap(d)               # reads <d>/sigpy/mri/rf/trajgrad.py
    except T.TranslationError as e:
        return ("fails closed", str(e))
    except SyntaxError as e:
        return ("fails closed", "SyntaxError: %s" % e)
    path = os.path.join(d, "Gen_trap.v")
    with open(path, "w") as f:
        f.write(text)
    rc, out = compile_gen(path)
    if rc == 0:
        return ("ok", "")
    return ("lemma fails", str(T.failing_lemma(text, out)))


def seeded_patches(src0):
    """the seeded changes of /verif/seeded for C20 that touch trajgrad.py (informational)"""
    out = []
    root = os.path.join(core.VERIF, "seeded")
    for name in sorted(os.listdir(root)) if os.path.isdir(root) else []:
        patch = os.path.join(root, name, "patch.diff")
        if not name.startswith("C20_") or not os.path.exists(patch):
            continue
        files = [l.split()[1][2:] for l in open(patch) if l.startswith("+++ ")]
        if T.SRC_REL not in files:
            continue
        d = os.path.join(SCRATCH, "seeded_src_" + name)
        shutil.rmtree(d, ignore_errors=True)
        os.makedirs(os.path.join(d, "sigpy", "mri", "rf"))
        open(os.path.join(d, T.SRC_REL), "w").write(src0)
        p = subprocess.run(["patch", "-p1", "-s", "--no-backup-if-mismatch", "-d", d, "-i", patch],
                           stdout=subprocess.PIPE, stderr=subprocess.STDOUT, text=True)
        if p.returncode:
            out.append(("seeded:" + name, None, "does not apply"))
            continue
        out.append(("seeded:" + name, open(os.path.join(d, T.SRC_REL)).read(), "info"))
        shutil.rmtree(d, ignore_errors=True)
    return out


def main():
    pos = [a for a in sys.argv[1:] if not a.startswith("--")]
    repo = pos[0] if pos else core.REPO
    t0 = time.time()
    ok, log = core.coq_make(["model/Trap.vo"], timeout=900)
    if not ok:
        print("cannot build the hand model:\n" + log[-1500:])
        return 2
    src0 = open(os.path.join(repo, T.SRC_REL)).read()
    jobs = [("UNMODIFIED", src0, "pass")]
    for name, old, new, k, expect in MUTATIONS:
        jobs.append((name, nth_replace(src0, old, new, k), expect))
    if "--no-seeded" not in sys.argv:
        jobs += [j for j in seeded_patches(src0) if j[1] is not None]
    with concurrent.futures.ThreadPoolExecutor(max_workers=8) as ex:
        results = list(ex.map(lambda j: one(j[0], j[1]), jobs))
    bad = 0
    tally = {}
    print("%-32s %-8s %-9s %s" % ("mutation", "expected", "verdict", "how"))
    for (name, _, expect), (how, detail) in zip(jobs, results):
        verdict = "pass" if how == "ok" else "caught"
        good = expect == "info" or verdict == {"caught": "caught", "breaks": "caught", "pass": "pass"}[expect]
        bad += 0 if good else 1
        tally[(expect, how)] = tally.get((expect, how), 0) + 1
        print("%-32s %-8s %-9s %s%s" % (name, expect, verdict + ("" if good else " (!!)"), how, (": " + detail[:200]) if detail else ""))
    print("; ".join("%s/%s: %d" % (e, h, n) for (e, h), n in sorted(tally.items())))
    print("%d cases, %d unexpected, %.1fs" % (len(jobs), bad, time.time() - t0))
    return 1 if bad else 0


if __name__ == "__main__":
    sys.exit(main())
