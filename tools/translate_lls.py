#!/usr/bin/env python3
"""Fail-closed translator: the CONFIGURATION logic of sigpy.app.LinearLeastSquares (Python `ast`) -> Gallina.

From the SOURCE TEXT of sigpy/app.py (class LinearLeastSquares; plus the constructor signatures and ADMM._update of
sigpy/alg.py and util.axpy of sigpy/util.py) it regenerates, on every run, coq/gen/Gen_lls.v:

    gen_lls_signature                 __init__'s parameter list with defaults            = lls_signature   (model/LLSExpr.v)
    gen_get_alg                       _get_alg as a decision function on the flags       = get_alg         (model/LLS.v)
    gen_get_ConjugateGradient         the ConjugateGradient(...) call it configures      = cg_op / cg_rhs
    gen_get_GradientMethod            the GradientMethod(...) call incl. the gradf closure and the MaxEig default step
                                                                                          = gm_gradf / gm_alpha (lls_gm_step)
    gen_get_PDHG_noG / gen_get_PDHG_G the PrimalDualHybridGradient(...) call, G None / G given
                                                                                          = pdhg_* / pdhgG_* / stackA / pdhg_steps
    gen_get_ADMM_noG / gen_get_ADMM_G the ADMM(...) call incl. the minL_x / minL_v closures = admm_* / admmG_*
    gen_ADMM__update_u                alg.ADMM._update's dual update                     = admm_u / admmG_u

written in the expression language of coq/model/LLSExpr.v (Linop / Prox combinators, constructor-call records) over the
operations of the hand model coq/model/LLS.v, each followed by a lemma  gen_<f>_ok : generated = hand model  proved by
normalisation, case analysis on the tests that occur and `reflexivity` -- nothing else.

Entry points: translate_lls(repo[, app_path]) -> text of Gen_lls.v; translate_sources(app_src, alg_src, util_src);
tie(ctx) for props/C14.py; tools/test_translate_lls.py is the self-test.  See notes/translate_lls.md.
"""
import ast
import hashlib
import os
import re
import sys


class TranslationError(Exception):
    pass


def san(text):
    """Python source inside a Coq comment."""
    return " ".join(text.split()).replace("(*", "( *").replace("*)", "* )")


# ---------------------------------------------------------------------------------------------
# symbolic values
# ---------------------------------------------------------------------------------------------
def space_term(sp):
    return sp if isinstance(sp, str) else "(prodV S %s %s)" % (space_term(sp[1]), space_term(sp[2]))


class Arr:                       # an array: a reference to a buffer (env.store[buf] is its current value)
    def __init__(self, space, buf):
        self.space, self.buf = space, buf


class Scal:                      # real scalar of the model (S)
    def __init__(self, term):
        self.term = term


class Lit:                       # Python integer literal, not yet given a type
    def __init__(self, value):
        self.value = value


class IntV:                      # Python int of the model: ty 'Z' (max_iter, max_cg_iter) or 'nat' (max_power_iter)
    def __init__(self, term, ty):
        self.term, self.ty = term, ty


class BoolV:
    def __init__(self, term):
        self.term = term


class Opt:                       # an optional constructor argument not yet tested on this path
    def __init__(self, what, space, term, attr):
        self.what, self.space, self.term, self.attr = what, space, term, attr      # what: 'arr' | 'scal' | 'prox'


class Lin:                       # a Linop expression (term : linop dom cod)
    def __init__(self, dom, cod, term):
        self.dom, self.cod, self.term = dom, cod, term


class ProxV:                     # a Prox object acting on `space` (term : S -> space -> space)
    def __init__(self, space, term):
        self.space, self.term = space, term


class Shape:
    def __init__(self, space):
        self.space = space


class Marker:
    def __init__(self, kind):
        self.kind = kind

    def __repr__(self):
        return "<%s>" % self.kind


DEV, XP, DTYPE, NONE, IGNORED = Marker("device"), Marker("xp"), Marker("dtype"), Marker("None"), Marker("ignored")


class StrV:
    def __init__(self, s):
        self.s = s


class Opaque:                    # passed through unchanged (the preconditioner P)
    def __init__(self, term, ty):
        self.term, self.ty = term, ty


class ListV:
    def __init__(self, items):
        self.items = items


class Closure:
    def __init__(self, fn):
        self.fn = fn


class CallV:                     # a constructed solver object
    def __init__(self, kind, term, x_buf=None):
        self.kind, self.term, self.x_buf = kind, term, x_buf


class Pending:                   # MaxEig(...) / App(...) before .run()
    def __init__(self, kind, payload):
        self.kind, self.payload = kind, payload


class Poison:                    # an ill-typed object: harmless while dead, an error when it reaches a result
    def __init__(self, msg):
        self.msg = msg


class Env:
    def __init__(self):
        self.locals = {}
        self.attrs = {}           # self.<attr> -> value
        self.store = {}           # buffer id -> current term
        self.borrowed = {}        # buffer id -> why it must not be written in place
        self.facts = {}           # boolean term -> decided on this path
        self.opt = {}             # optional attribute -> "none" | bound name
        self.lines = []
        self.ran = []             # closures: the solver runs executed on this path
        self.returned = None

    def fork(self):
        e = Env()
        e.locals, e.attrs, e.store = dict(self.locals), dict(self.attrs), dict(self.store)
        e.borrowed, e.facts, e.opt = dict(self.borrowed), dict(self.facts), dict(self.opt)
        e.ran = list(self.ran)
        e.lines = []
        return e


SLIT = {0: "(@s0 S)", 1: "(@s1 S)"}
MODULES = ("backend", "linop", "prox", "util")
ALG_CLASSES = ("ADMM", "ConjugateGradient", "GradientMethod", "PowerMethod", "PrimalDualHybridGradient")
# in-place writes into the result of a Linop application that the CURRENT source performs and the value model accepts
# (trusted: G(x) is a fresh array -- false for view-returning G such as Identity / Reshape, see notes/translate_lls.md)
ALLOW_WRITE = set()      # (the pinned tree wrote into `self.G(self.x)` in _get_ADMM: defect F23, repaired in /repo)


class PopFrame:
    lineno = 0

    def __init__(self, saved):
        self.saved = saved


# ---------------------------------------------------------------------------------------------
# symbolic execution of one method of LinearLeastSquares in one configuration
# ---------------------------------------------------------------------------------------------
class Exec:
    def __init__(self, mod, spec):
        self.mod, self.spec = mod, spec
        self.counter = {}
        self.nbuf = 0
        self.bufname = {}
        self.where = spec["method"]
        self.in_closure = None

    # ---- helpers ---------------------------------------------------------------------------
    def err(self, node, msg):
        ln = getattr(node, "lineno", 0)
        seg = ""
        try:
            seg = ast.unparse(node) if isinstance(node, ast.AST) else ""
        except Exception:
            pass
        raise TranslationError("LinearLeastSquares.%s [%s], app.py line %d: %s%s"
                               % (self.where, self.spec["gen"], ln, msg, (": `%s`" % " ".join(seg.split())[:140]) if seg else ""))

    def fresh(self, hint):
        hint = re.sub(r"[^A-Za-z0-9_]", "_", hint)
        k = self.counter.get(hint, 0) + 1
        self.counter[hint] = k
        return "%s_%d" % (hint, k)

    def newbuf(self, env, term, name=None, borrowed=None):
        self.nbuf += 1
        env.store[self.nbuf] = term
        if name:
            self.bufname[self.nbuf] = name
        if borrowed:
            env.borrowed[self.nbuf] = borrowed
        return self.nbuf

    def let(self, env, hint, term, node):
        name = self.fresh(hint)
        cm = ""
        if node is not None and getattr(node, "lineno", 0):
            cm = "   (* L%d: %s *)" % (node.lineno, san(ast.unparse(node))[:150])
        env.lines.append("let %s := %s in%s" % (name, term, cm))
        return name

    def bad(self, v, node, what):
        if isinstance(v, Poison):
            self.err(node, "%s, but the value is ill-typed: %s" % (what, v.msg))
        self.err(node, what)

    def aterm(self, v, env):
        return env.store[v.buf]

    def scal(self, v, node, what="a scalar of the model is expected"):
        """coerce to a model scalar term"""
        if isinstance(v, Scal):
            return v.term
        if isinstance(v, Lit):
            if v.value not in SLIT:
                self.err(node, "integer literal %d in a floating-point position is not representable over the model's operations" % v.value)
            return SLIT[v.value]
        self.bad(v, node, what)

    def arr(self, v, node, what="an array is expected"):
        if isinstance(v, Arr):
            return v
        if isinstance(v, Opt):
            self.err(node, "self.%s may be None here (no `is None` test on this path)" % v.attr)
        self.bad(v, node, what)

    # ---- attributes ------------------------------------------------------------------------
    def load_attr(self, attr, env, node):
        if attr not in env.attrs:
            self.err(node, "self.%s is not available to this method in the hand model's configuration `%s`" % (attr, self.spec["variant"]))
        return env.attrs[attr]

    def is_self_attr(self, n):
        return isinstance(n, ast.Attribute) and isinstance(n.value, ast.Name) and n.value.id == "self"

    def as_option(self, node, env, what, space):
        """an argument position that accepts None (L2Reg's y / proxh, GradientMethod's proxg): -> Coq option term or Poison"""
        v = self.val(node, env)
        if v is NONE:
            return "None"
        if isinstance(v, Opt):
            if v.what != what:
                self.err(node, "an optional %s is passed where an optional %s is expected" % (v.what, what))
            if v.space != space:
                return Poison("self.%s lives on %s but is used on %s" % (v.attr, space_term(v.space), space_term(space)))
            return v.term
        if what == "arr" and isinstance(v, Arr):
            if v.space != space:
                return Poison("array on %s used on %s" % (space_term(v.space), space_term(space)))
            return "(Some %s)" % self.aterm(v, env)
        if what == "prox" and isinstance(v, ProxV):
            if v.space != space:
                return Poison("Prox on %s used on %s" % (space_term(v.space), space_term(space)))
            return "(Some %s)" % v.term
        if isinstance(v, Poison):
            return v
        self.err(node, "argument not understood (None or %s expected)" % what)

    # ---- expressions -----------------------------------------------------------------------
    def ev(self, n, env):
        if isinstance(n, ast.Constant):
            if isinstance(n.value, bool):
                return BoolV("true" if n.value else "false")
            if isinstance(n.value, int):
                return Lit(n.value)
            if n.value is None:
                return NONE
            if isinstance(n.value, str):
                return StrV(n.value)
            self.err(n, "constant not understood")
        if isinstance(n, ast.Name):
            if n.id in env.locals:
                return env.locals[n.id]
            if n.id in self.mod.modules:
                return Marker("module:" + self.mod.modules[n.id])
            if n.id in self.mod.alg_names:
                return Marker("alg:" + self.mod.alg_names[n.id])
            if n.id in ("MaxEig", "App") and n.id in self.mod.classes:
                return Marker("app:" + n.id)
            self.err(n, "unknown name")
        if isinstance(n, ast.Attribute):
            if self.is_self_attr(n):
                return self.load_attr(n.attr, env, n)
            base = self.ev(n.value, env)
            if isinstance(base, Lin):
                if n.attr == "H":
                    return Lin(base.cod, base.dom, "(lH %s)" % base.term)
                if n.attr == "N":
                    return Lin(base.dom, base.dom, "(lN %s)" % base.term)
                if n.attr == "oshape":
                    return Shape(base.cod)
                if n.attr == "ishape":
                    return Shape(base.dom)
            if isinstance(base, Arr):
                if n.attr == "shape":
                    return Shape(base.space)
                if n.attr == "dtype":
                    return DTYPE
            if base is DEV and n.attr == "xp":
                return XP
            if base is XP:
                return Marker("xp." + n.attr)
            if isinstance(base, Marker) and base.kind.startswith("module:"):
                return Marker(base.kind[7:] + "." + n.attr)
            if isinstance(base, Opt):
                self.err(n, "self.%s may be None here (no `is None` test on this path)" % base.attr)
            self.bad(base, n, "attribute access not understood")
        if isinstance(n, ast.List):
            return ListV([self.ev(e, env) for e in n.elts])
        if isinstance(n, ast.UnaryOp):
            if isinstance(n.op, ast.USub):
                v = self.ev(n.operand, env)
                if isinstance(v, Lit):
                    return Lit(-v.value)
                if isinstance(v, Arr):
                    return ("fresh", v.space, "(vscale (sopp s1) %s)" % self.aterm(v, env))
                if isinstance(v, Scal):
                    return Scal("(sopp %s)" % v.term)
                if isinstance(v, Lin):
                    return Lin(v.dom, v.cod, "(lneg %s)" % v.term)
                self.bad(v, n, "negation of this kind of value is not an operation of the model")
            self.err(n, "unary operator not understood")
        if isinstance(n, ast.BinOp):
            return self.binop(n, env)
        if isinstance(n, ast.Compare):
            if len(n.ops) != 1:
                self.err(n, "chained comparison")
            a, b = self.ev(n.left, env), self.ev(n.comparators[0], env)
            if isinstance(a, Scal) and isinstance(b, Lit) and b.value == 0:
                fmt = {ast.NotEq: "(sne0 S %s)", ast.Gt: "(sgt0 %s)", ast.Eq: "(seq0 %s)"}.get(type(n.ops[0]))
                if fmt:
                    return BoolV(fmt % a.term)
            self.err(n, "comparison is not one of the model's tests (`s != 0`, `s > 0`, `s == 0`)")
        if isinstance(n, ast.Call):
            return self.call(n, env)
        self.err(n, "expression form not understood")

    def val(self, n, env):
        """ev, with fresh array results materialised as anonymous buffers"""
        v = self.ev(n, env)
        if isinstance(v, tuple) and v[0] == "fresh":
            return Arr(v[1], self.newbuf(env, v[2], borrowed=v[3] if len(v) > 3 else None))
        return v

    def binop(self, n, env):
        names = {ast.Add: "add", ast.Sub: "sub", ast.Mult: "mul", ast.Div: "div"}
        if type(n.op) not in names:
            self.err(n, "binary operator not understood")
        op = names[type(n.op)]
        a, b = self.val(n.left, env), self.val(n.right, env)
        for v in (a, b):
            if isinstance(v, Opt):
                self.err(n, "self.%s may be None here (no `is None` test on this path)" % v.attr)
        sc = lambda v: isinstance(v, (Scal, Lit))
        if isinstance(a, Lit) and isinstance(b, Lit):
            self.err(n, "arithmetic on integer literals only")
        if isinstance(a, Arr) and isinstance(b, Arr) and op in ("add", "sub"):
            if a.space != b.space:
                self.err(n, "arrays on different spaces (%s, %s)" % (space_term(a.space), space_term(b.space)))
            return ("fresh", a.space, "(%s %s %s)" % ("vadd" if op == "add" else "vsub", self.aterm(a, env), self.aterm(b, env)))
        if op == "mul" and sc(a) and isinstance(b, Arr):
            return ("fresh", b.space, "(vscale %s %s)" % (self.scal(a, n), self.aterm(b, env)))
        if op == "mul" and isinstance(a, Arr) and sc(b):                  # array * scalar: scalar-first normal form (IEEE `*` commutes)
            return ("fresh", a.space, "(vscale %s %s)" % (self.scal(b, n), self.aterm(a, env)))
        if op == "div" and isinstance(a, Arr) and sc(b):
            return ("fresh", a.space, "(vdivs %s %s)" % (self.aterm(a, env), self.scal(b, n)))
        if sc(a) and sc(b):
            return Scal("(%s %s %s)" % ({"add": "sadd", "sub": "ssub", "mul": "smul", "div": "sdiv"}[op], self.scal(a, n), self.scal(b, n)))
        if isinstance(a, Lin) or isinstance(b, Lin):
            if op == "mul" and sc(a):                                     # Linop.__rmul__
                return Lin(b.dom, b.cod, "(lscale %s %s)" % (self.scal(a, n), b.term))
            if op == "mul" and sc(b):                                     # Linop.__mul__ with a scalar
                return Lin(a.dom, a.cod, "(lmulr %s %s)" % (a.term, self.scal(b, n)))
            if op == "mul" and isinstance(a, Lin) and isinstance(b, Lin):
                if b.cod != a.dom:
                    return Poison("composition of Linops with mismatched shapes (%s after %s)" % (a.term, b.term))
                return Lin(b.dom, a.cod, "(lcomp %s %s)" % (a.term, b.term))
            if op == "mul" and isinstance(a, Lin) and isinstance(b, Arr):  # Linop.__mul__ with an array = apply
                return self.apply_lin(a, b, env, n)
            if op in ("add", "sub") and isinstance(a, Lin) and isinstance(b, Lin):
                if (a.dom, a.cod) != (b.dom, b.cod):
                    return Poison("sum of Linops with different shapes (%s, %s)" % (a.term, b.term))
                return Lin(a.dom, a.cod, "(ladd %s %s)" % (a.term, b.term if op == "add" else "(lneg %s)" % b.term))
        for v in (a, b):
            if isinstance(v, Poison):
                return v
        self.err(n, "operation `%s` on these operands is not one of the model's operations" % op)

    def apply_lin(self, L, x, env, node):
        if L.dom != x.space:
            self.err(node, "Linop on %s applied to an array on %s" % (space_term(L.dom), space_term(x.space)))
        # the result may be the input itself or a view of it (Identity, Reshape ...): it must never be written in place
        return ("fresh", L.cod, "(fwd %s %s)" % (L.term, self.aterm(x, env)), "the result of `%s`" % san(ast.unparse(node)))

    # ---- calls -----------------------------------------------------------------------------
    def bind_args(self, n, sig, what):
        """sig: [(name, default AST or None)] -> {name: AST node | ('default', AST)}"""
        names = [a for a, _ in sig]
        if len(n.args) > len(names):
            self.err(n, "%s called with too many arguments" % what)
        for a in n.args:
            if isinstance(a, ast.Starred):
                self.err(n, "starred argument")
        out = dict(zip(names, n.args))
        for kw in n.keywords:
            if kw.arg is None or kw.arg not in names or kw.arg in out:
                self.err(n, "keyword `%s` of %s not understood" % (kw.arg, what))
            out[kw.arg] = kw.value
        for a, d in sig:
            if a not in out:
                if d is None:
                    self.err(n, "%s called without its argument `%s`" % (what, a))
                out[a] = ("default", d)
        return out

    def argval(self, a, env):
        if isinstance(a, tuple):        # a default of the callee's signature: a constant
            return self.val(a[1], env)
        return self.val(a, env)

    def int_term(self, v, ty, node):
        if isinstance(v, IntV) and v.ty == ty:
            return v.term
        if isinstance(v, Lit):
            return "%d%%%s" % (v.value, ty) if v.value >= 0 and ty == "nat" else "(%d)%%%s" % (v.value, ty)
        self.bad(v, node, "an integer of type %s is expected" % ty)

    def shape_of(self, node, env):
        v = self.val(node, env)
        if not isinstance(v, Shape):
            self.bad(v, node, "a shape (x.shape, y.shape, L.ishape, L.oshape) is expected")
        return v.space

    def call(self, n, env):
        f = n.func
        # <MaxEig(...) | App(...)>.run()
        if isinstance(f, ast.Attribute) and f.attr == "run" and isinstance(f.value, ast.Call) and not n.args and not n.keywords:
            p = self.val(f.value, env)
            if isinstance(p, Pending) and p.kind == "maxeig":
                return Scal(p.payload)
            if isinstance(p, Pending) and p.kind == "app":
                self.err(n, "App(...).run() is only understood as a statement")
            self.bad(p, n, ".run() of something that is not MaxEig(...) / App(...)")
        # e.copy()
        if isinstance(f, ast.Attribute) and f.attr == "copy" and not n.args and not n.keywords:
            v = self.arr(self.val(f.value, env), n, ".copy() of something that is not an array")
            return ("fresh", v.space, self.aterm(v, env))                 # identity on values, FRESH buffer
        fv = self.val(f, env)
        if isinstance(fv, Lin):                                           # Linop.__call__ = __mul__
            if len(n.args) != 1 or n.keywords:
                self.err(n, "a Linop is called with one argument")
            x = self.arr(self.val(n.args[0], env), n, "a Linop is applied to something that is not an array")
            return self.apply_lin(fv, x, env, n)
        if isinstance(fv, ProxV):                                         # Prox.__call__(alpha, input)
            if len(n.args) != 2 or n.keywords:
                self.err(n, "a Prox is called with (alpha, input)")
            a = self.scal(self.val(n.args[0], env), n.args[0])
            x = self.arr(self.val(n.args[1], env), n.args[1])
            if x.space != fv.space:
                self.err(n, "Prox on %s applied to an array on %s" % (space_term(fv.space), space_term(x.space)))
            return ("fresh", x.space, "(%s %s %s)" % (fv.term, a, self.aterm(x, env)), "the result of `%s`" % san(ast.unparse(n)))
        if isinstance(fv, Opt):
            self.err(n, "self.%s may be None here (no `is None` test on this path)" % fv.attr)
        if not isinstance(fv, Marker):
            self.bad(fv, n, "call not understood")
        k = fv.kind
        if k == "backend.get_device" and len(n.args) == 1 and not n.keywords:
            self.arr(self.val(n.args[0], env), n)
            return DEV
        if k == "linop.Identity":
            a = self.bind_args(n, [("shape", None)], k)
            return Lin(*[self.shape_of(a["shape"], env)] * 2, "(lid %s)" % space_term(self.shape_of(a["shape"], env)))
        if k == "linop.Multiply":
            a = self.bind_args(n, [("ishape", None), ("mult", None)], k)
            sp = self.shape_of(a["ishape"], env)
            return Lin(sp, sp, "(lmult %s %s)" % (space_term(sp), self.scal(self.val(a["mult"], env), a["mult"],
                                                                           "linop.Multiply by something that is not a scalar of the model")))
        if k == "linop.Vstack":
            a = self.bind_args(n, [("linops", None)], k)
            l = self.val(a["linops"], env)
            if not (isinstance(l, ListV) and len(l.items) == 2 and all(isinstance(x, Lin) for x in l.items)):
                self.err(n, "linop.Vstack of something other than a list of two Linops")
            l1, l2 = l.items
            if l1.dom != l2.dom:
                return Poison("Vstack of Linops with different input shapes")
            return Lin(l1.dom, ("prod", l1.cod, l2.cod), "(lvstack %s %s)" % (l1.term, l2.term))
        if k == "prox.NoOp":
            a = self.bind_args(n, [("shape", None)], k)
            sp = self.shape_of(a["shape"], env)
            return ProxV(sp, "(@noop S %s)" % space_term(sp))
        if k == "prox.L2Reg":
            a = self.bind_args(n, [("shape", None), ("lamda", None), ("y", ast.Constant(None)), ("proxh", ast.Constant(None))], k)
            sp = self.shape_of(a["shape"], env)
            lam = self.scal(self.val(a["lamda"], env), a["lamda"])
            y = self.as_option(a["y"][1] if isinstance(a["y"], tuple) else a["y"], env, "arr", sp)
            h = self.as_option(a["proxh"][1] if isinstance(a["proxh"], tuple) else a["proxh"], env, "prox", sp)
            for o in (y, h):
                if isinstance(o, Poison):
                    return Poison("prox.L2Reg on %s: %s" % (space_term(sp), o.msg))
            return ProxV(sp, "(@l2reg S %s %s %s %s)" % (space_term(sp), lam, y, h))
        if k == "prox.Conj":
            a = self.bind_args(n, [("prox", None)], k)
            p = self.val(a["prox"], env)
            if isinstance(p, Poison):
                return p
            if not isinstance(p, ProxV):
                self.bad(p, n, "prox.Conj of something that is not a Prox")
            return ProxV(p.space, "(@conj_prox S %s %s)" % (space_term(p.space), p.term))
        if k == "prox.Stack":
            a = self.bind_args(n, [("proxs", None)], k)
            l = self.val(a["proxs"], env)
            if not (isinstance(l, ListV) and len(l.items) == 2):
                self.err(n, "prox.Stack of something other than a list of two Prox objects")
            for p in l.items:
                if isinstance(p, Poison):
                    return p
                if not isinstance(p, ProxV):
                    self.bad(p, n, "prox.Stack of something that is not a Prox")
            p1, p2 = l.items
            return ProxV(("prod", p1.space, p2.space), "(stack_prox %s %s)" % (p1.term, p2.term))
        if k == "xp.zeros":
            a = self.bind_args(n, [("shape", None), ("dtype", None)], k)
            if self.val(a["dtype"], env) is not DTYPE:
                self.err(n, "xp.zeros: dtype is not the dtype of one of the arrays")
            sp = self.shape_of(a["shape"], env)
            return ("fresh", sp, self.zeros(sp, n))
        if k == "xp.zeros_like":
            a = self.bind_args(n, [("a", None)], k)
            v = self.arr(self.val(a["a"], env), n)
            return ("fresh", v.space, self.zeros(v.space, n))
        if k == "app:MaxEig":
            sig = self.mod.signature("MaxEig", self.mod.classes["MaxEig"])
            a = self.bind_args(n, sig, "MaxEig")
            L = self.val(a["A"], env)
            if not (isinstance(L, Lin) and L.dom == L.cod):
                self.bad(L, n, "MaxEig of something that is not a square Linop expression")
            if isinstance(a["dtype"], tuple) or ast.unparse(a["dtype"]) != "self.x.dtype" or self.val(a["dtype"], env) is not DTYPE:
                self.err(n, "MaxEig: dtype is not self.x.dtype (the model's power iteration runs in the precision of x)")
            if isinstance(a["device"], tuple) or self.val(a["device"], env) is not DEV:
                self.err(n, "MaxEig: device is not a device")
            it = self.int_term(self.argval(a["max_iter"], env), "nat", n)
            rnd = self.spec["rand"].get(L.dom)
            if rnd is None:
                self.err(n, "MaxEig on the space %s has no counterpart in this configuration of the hand model" % space_term(L.dom))
            # MaxEig(op, max_iter=n).run(): PowerMethod from a random start vector (data of the model), np.inf when n = 0
            return Pending("maxeig", "(max_eig (fwd %s) %s %s inf)" % (L.term, it, rnd))
        if k == "app:App":
            sig = self.mod.signature("App", self.mod.classes["App"])
            a = self.bind_args(n, sig, "App")
            c = self.val(a["alg"], env)
            if not isinstance(c, CallV):
                self.bad(c, n, "App(...) of something that is not a solver constructed here")
            return Pending("app", c)
        if k.startswith("alg:"):
            return self.construct(k[4:], n, env)
        self.err(n, "call of `%s` not understood" % k)

    def zeros(self, sp, node):
        z = self.spec["zeros"].get(sp)
        if z is None:
            self.err(node, "an all-zero array on %s has no counterpart in this configuration of the hand model" % space_term(sp))
        return z

    # ---- solver constructors ---------------------------------------------------------------
    def the_x(self, v, env, node, what):
        """the solver must iterate on self.x itself"""
        x = self.arr(v, node)
        cur = env.attrs.get("x")
        if not (isinstance(cur, Arr) and cur.buf == x.buf):
            self.err(node, "%s is not given self.x itself as its iterate" % what)
        return x

    def construct(self, cls, n, env):
        sig = self.mod.alg_signature(cls)
        a = self.bind_args(n, sig, cls)
        g = lambda k: self.argval(a[k], env)
        if cls == "ConjugateGradient":
            self.mod.expect_params(cls, ["A", "b", "x", "P", "max_iter", "tol"])
            L = g("A")
            if not (isinstance(L, Lin) and L.dom == L.cod):
                self.bad(L, n, "ConjugateGradient: the system operator is not a square Linop expression")
            b = self.arr(g("b"), n)
            x = self.the_x(g("x"), env, n, cls)
            if not (L.dom == b.space == x.space):
                self.err(n, "ConjugateGradient: operator, right-hand side and x live on different spaces")
            P = g("P")
            if P is NONE:
                pt = "None"
            elif isinstance(P, Opaque) and P.ty == ("precond", x.space):
                pt = P.term
            else:
                self.bad(P, n, "ConjugateGradient: P is not self.P")
            return CallV("cg", "(mkCGCall (fwd %s) %s %s %s %s %s)" % (L.term, self.aterm(b, env), self.aterm(x, env), pt,
                                                                        self.int_term(g("max_iter"), "Z", n), self.scal(g("tol"), n)), x.buf)
        if cls == "GradientMethod":
            self.mod.expect_params(cls, ["gradf", "x", "alpha", "proxg", "accelerate", "max_iter", "tol"])
            x = self.the_x(g("x"), env, n, cls)
            gf = g("gradf")
            if not isinstance(gf, Closure):
                self.bad(gf, n, "GradientMethod: gradf is not a function defined in this method")
            gterm = self.closure_fun(gf, env, [x.space], x.space)
            pnode = a["proxg"][1] if isinstance(a["proxg"], tuple) else a["proxg"]
            pg = self.as_option(pnode, env, "prox", x.space)
            if isinstance(pg, Poison):
                self.err(n, "GradientMethod: proxg is ill-typed: " + pg.msg)
            acc = g("accelerate")
            if not isinstance(acc, BoolV):
                self.bad(acc, n, "GradientMethod: accelerate is not a boolean of the model")
            return CallV("gm", "(mkGMCall %s %s %s %s %s %s %s)" % (gterm, self.aterm(x, env), self.scal(g("alpha"), n, "GradientMethod: alpha is not a scalar (may it be None here?)"),
                                                                    pg, acc.term, self.int_term(g("max_iter"), "Z", n), self.scal(g("tol"), n)), x.buf)
        if cls == "PrimalDualHybridGradient":
            self.mod.expect_params(cls, ["proxfc", "proxg", "A", "AH", "x", "u", "tau", "sigma", "theta", "gamma_primal", "gamma_dual", "max_iter", "tol"])
            x = self.the_x(g("x"), env, n, cls)
            u = self.arr(g("u"), n)
            A, AH, pf, pg = g("A"), g("AH"), g("proxfc"), g("proxg")
            for v, c, w in ((A, Lin, "A"), (AH, Lin, "AH"), (pf, ProxV, "proxfc"), (pg, ProxV, "proxg")):
                if not isinstance(v, c):
                    self.bad(v, n, "PrimalDualHybridGradient: %s is not a %s expression" % (w, "Linop" if c is Lin else "Prox"))
            U = u.space
            if not (A.dom == x.space and A.cod == U and AH.dom == U and AH.cod == x.space and pf.space == U and pg.space == x.space):
                self.err(n, "PrimalDualHybridGradient: shapes do not fit (A : %s -> %s, AH : %s -> %s, proxfc on %s, proxg on %s, x on %s, u on %s)"
                         % tuple(space_term(t) for t in (A.dom, A.cod, AH.dom, AH.cod, pf.space, pg.space, x.space, U)))
            if self.spec.get("dual") != U:
                self.err(n, "the dual variable lives on %s, the hand model's on %s" % (space_term(U), space_term(self.spec.get("dual"))))
            sc = lambda k: self.scal(g(k), n, "PrimalDualHybridGradient: %s is not a scalar (may it be None here?)" % k)
            return CallV("pd", "(mkPDCall %s %s (fwd %s) (fwd %s) %s %s %s %s %s %s %s %s %s)"
                         % (pf.term, pg.term, A.term, AH.term, self.aterm(x, env), self.aterm(u, env), sc("tau"), sc("sigma"), sc("theta"),
                            sc("gamma_primal"), sc("gamma_dual"), self.int_term(g("max_iter"), "Z", n), sc("tol")), x.buf)
        if cls == "ADMM":
            self.mod.expect_params(cls, ["minL_x", "minL_z", "x", "z", "u", "A", "B", "c", "max_iter"])
            x = self.the_x(g("x"), env, n, cls)
            z, u = self.arr(g("z"), n), self.arr(g("u"), n)
            if len({x.buf, z.buf, u.buf}) != 3:
                self.err(n, "ADMM: x, z, u must be three distinct arrays (z a private copy: minL_z overwrites it)")
            A, B, c = g("A"), g("B"), g("c")
            if not (isinstance(A, Lin) and isinstance(B, Lin)):
                self.bad(A if not isinstance(A, Lin) else B, n, "ADMM: A / B is not a Linop expression")
            if not (A.dom == x.space and A.cod == z.space == u.space and B.dom == z.space and B.cod == u.space):
                self.err(n, "ADMM: shapes of A, B, x, z, u do not fit")
            if self.spec.get("dual") != z.space:
                self.err(n, "the split variable lives on %s, the hand model's on %s" % (space_term(z.space), space_term(self.spec.get("dual"))))
            if not (isinstance(c, Lit) and c.value == 0):
                self.bad(c, n, "ADMM: c is not the integer 0 (the model of ADMM._update drops `- c`)")
            fx, fz = g("minL_x"), g("minL_z")
            if not (isinstance(fx, Closure) and isinstance(fz, Closure)):
                self.err(n, "ADMM: minL_x / minL_z is not a function defined in this method")
            tx = self.closure_state(fx, env, (x, z, u), "solve_x")
            tz = self.closure_state(fz, env, (x, z, u), "write_z")
            return CallV("admm", "(mkADMMCall %s %s %s %s %s (fwd %s) (fwd %s) %s)"
                         % (tx, tz, self.aterm(x, env), self.aterm(z, env), self.aterm(u, env), A.term, B.term, self.int_term(g("max_iter"), "Z", n)), x.buf)
        self.err(n, "constructor of %s not understood" % cls)

    # ---- closures --------------------------------------------------------------------------
    def closure_env(self, clos, env, node=None):
        fn = clos.fn
        if fn.decorator_list or fn.args.vararg or fn.args.kwarg or fn.args.kwonlyargs or fn.args.defaults:
            self.err(fn, "signature of the nested function not understood")
        for s in ast.walk(fn):
            if isinstance(s, (ast.Nonlocal, ast.Global, ast.Lambda, ast.Yield, ast.YieldFrom, ast.Await)) or \
                    (isinstance(s, (ast.FunctionDef, ast.ClassDef)) and s is not fn):
                self.err(s, "statement not understood inside a nested function")
        assigned = set()
        for s in ast.walk(fn):
            tg = s.targets if isinstance(s, ast.Assign) else [s.target] if isinstance(s, (ast.AugAssign, ast.AnnAssign)) else []
            for t in tg:
                if isinstance(t, ast.Name):
                    assigned.add(t.id)
        e = env.fork()
        # Python closures read the enclosing variables when CALLED (after the method returned): the values at the end of the
        # method are the ones bound here (the closure is translated at the constructor call, the last statement)
        e.locals = {k: v for k, v in env.locals.items() if k not in assigned}
        e.ran, e.returned = [], None
        return e

    def closure_body(self, fn):
        return [s for s in fn.body if not (isinstance(s, ast.Expr) and isinstance(s.value, ast.Constant) and isinstance(s.value.value, str))]

    def render_fun(self, params, lines):
        return "(fun %s =>\n      %s)" % (" ".join("(%s : %s)" % p for p in params), "\n      ".join(lines))

    def closure_fun(self, clos, env, arg_spaces, ret_space):
        """a closure used as a function of arrays returning an array (gradf)"""
        fn = clos.fn
        e = self.closure_env(clos, env)
        names = [a.arg for a in fn.args.args]
        if len(names) != len(arg_spaces):
            self.err(fn, "the nested function takes %d arguments, the solver passes %d" % (len(names), len(arg_spaces)))
        saved, self.counter = self.counter, dict(self.counter)
        prev, self.in_closure = self.in_closure, fn.name
        params = []
        for nm, sp in zip(names, arg_spaces):
            pn = self.fresh(nm)
            params.append((pn, space_term(sp)))
            e.locals[nm] = Arr(sp, self.newbuf(e, pn, nm, borrowed="the argument `%s` of %s (the solver's own array)" % (nm, fn.name)))
        entry = dict(e.store)

        def leaf(le, ret):
            if ret is None or ret.value is None:
                self.err(fn, "a path of %s ends without returning a value" % fn.name)
            v = self.arr(self.val(ret.value, le), ret)
            if v.space != ret_space:
                self.err(ret, "%s returns an array on %s, the solver expects %s" % (fn.name, space_term(v.space), space_term(ret_space)))
            self.unchanged(le, entry, ret, fn.name)
            return [self.aterm(v, le)]
        lines = self.run(self.closure_body(fn), e, leaf)
        self.counter, self.in_closure = saved, prev
        return self.render_fun(params, lines)

    def unchanged(self, env, entry, node, who, except_bufs=()):
        for b, t in entry.items():
            if b not in except_bufs and env.store.get(b) != t:
                self.err(node, "%s modifies the array `%s` in place, which the model treats as unchanged" % (who, self.bufname.get(b, "?")))

    def closure_state(self, clos, env, xzu, mode):
        """ADMM's closures: no arguments, act on the captured arrays (self.x, v, u).
           mode 'solve_x': runs ONE inner ConjugateGradient on self.x to the end, writes nothing else -> fun x v u => that call
           mode 'write_z': overwrites v, nothing else                                                -> fun x v u => new v"""
        fn = clos.fn
        if fn.args.args:
            self.err(fn, "%s takes arguments" % fn.name)
        e = self.closure_env(clos, env)
        saved, self.counter = self.counter, dict(self.counter)
        prev, self.in_closure = self.in_closure, fn.name
        params = []
        for v, nm in zip(xzu, ("x", "v", "u")):
            pn = self.fresh(nm + "c")
            params.append((pn, space_term(v.space)))
            e.store[v.buf] = pn
        entry = dict(e.store)
        xb, zb, ub = (v.buf for v in xzu)

        def leaf(le, ret):
            if ret is not None and ret.value is not None:
                self.err(ret, "%s returns a value" % fn.name)
            if mode == "solve_x":
                if len(le.ran) != 1 or le.ran[0].kind != "cg" or le.ran[0].x_buf != xb:
                    self.err(fn, "%s does not run exactly one inner ConjugateGradient on self.x on some path" % fn.name)
                self.unchanged(le, entry, fn, fn.name)
                return [le.ran[0].term]
            if le.ran:
                self.err(fn, "%s runs a solver" % fn.name)
            self.unchanged(le, entry, fn, fn.name, except_bufs=(zb,))
            return [le.store[zb]]
        lines = self.run(self.closure_body(fn), e, leaf)
        self.counter, self.in_closure = saved, prev
        return self.render_fun(params, lines)

    # ---- statements ------------------------------------------------------------------------
    def bind_value(self, env, hint, v, node):
        """value of `name = v`: arrays alias, everything computed gets a `let`"""
        if isinstance(v, tuple) and v[0] == "fresh":
            name = self.let(env, hint, v[2], node)
            return Arr(v[1], self.newbuf(env, name, hint, borrowed=v[3] if len(v) > 3 else None))
        if isinstance(v, Scal):
            return Scal(self.let(env, hint, v.term, node)) if not re.fullmatch(r"[A-Za-z0-9_']+", v.term) else v
        if isinstance(v, Lin):
            return Lin(v.dom, v.cod, self.let(env, hint, v.term, node)) if not re.fullmatch(r"[A-Za-z0-9_']+", v.term) else v
        if isinstance(v, ProxV):
            return ProxV(v.space, self.let(env, hint, v.term, node)) if not re.fullmatch(r"[A-Za-z0-9_']+", v.term) else v
        if v is NONE:
            self.err(node, "None assigned to a variable")
        if isinstance(v, (Arr, Lit, IntV, BoolV, Marker, Closure, CallV, Poison, Opaque, Shape)):
            return v
        if isinstance(v, Opt):
            self.err(node, "self.%s (possibly None) is stored in a variable: only a direct `self.%s is None` test is understood" % (v.attr, v.attr))
        self.err(node, "value not understood in an assignment")

    def write(self, target, env, node):
        """permission to write into the buffer of `target` in place"""
        why = env.borrowed.get(target.buf)
        if why and (self.where, self.bufname.get(target.buf), why) not in ALLOW_WRITE:
            self.err(node, "in-place write into %s, which may be (a view of) another array" % why)

    def update_inplace(self, target, term, env, node, hint):
        self.write(target, env, node)
        env.store[target.buf] = self.let(env, self.bufname.get(target.buf, hint), term, node)

    def simple(self, s, env):
        """a statement that does not fork; returns statements to be executed next (inlined calls)"""
        if isinstance(s, PopFrame):
            env.locals = s.saved
            return []
        if isinstance(s, ast.Pass):
            return []
        if isinstance(s, ast.FunctionDef):
            if self.in_closure:
                self.err(s, "function nested in a nested function")
            env.locals[s.name] = Closure(s)
            return []
        if isinstance(s, ast.Expr):
            if isinstance(s.value, ast.Constant) and isinstance(s.value.value, str):
                return []
            if isinstance(s.value, ast.Call):
                return self.call_stmt(s.value, env, s)
            self.err(s, "expression statement not understood")
        if isinstance(s, ast.Assign):
            if len(s.targets) != 1:
                self.err(s, "multiple assignment targets")
            t = s.targets[0]
            v = self.ev(s.value, env)
            if isinstance(t, ast.Name):
                env.locals[t.id] = self.bind_value(env, t.id, v, s)
                return []
            if self.is_self_attr(t):
                if self.in_closure:
                    self.err(s, "a nested function assigns an attribute")
                if t.attr == "alg":
                    v = self.val(s.value, env) if not isinstance(v, CallV) else v
                    if not isinstance(v, CallV):
                        self.bad(v, s, "self.alg is assigned something that is not a solver constructed here")
                    env.attrs["alg"] = v
                    return []
                if t.attr in self.spec.get("step_attrs", ()):
                    if isinstance(v, Lit):
                        v = Scal(self.scal(v, s))
                    if not isinstance(v, Scal):
                        self.bad(v, s, "self.%s is assigned something that is not a scalar of the model" % t.attr)
                    env.attrs[t.attr] = Scal(self.let(env, t.attr, v.term, s))
                    env.opt.pop(t.attr, None)
                    return []
                self.err(s, "assignment to self.%s: the hand model takes it as a constructor constant" % t.attr)
            self.err(s, "assignment target not understood")
        if isinstance(s, ast.AugAssign):
            if not isinstance(s.op, (ast.Add, ast.Sub)) or not isinstance(s.target, ast.Name):
                self.err(s, "augmented assignment not understood (only `name += e`, `name -= e`)")
            nm = s.target.id
            cur = env.locals.get(nm)
            if isinstance(cur, Lin):                     # Linops have no __iadd__: `L += M` rebinds L = L + M
                new = self.binop(ast.BinOp(left=s.target, op=s.op, right=s.value, lineno=s.lineno), env)
                env.locals[nm] = self.bind_value(env, nm, new, s)
                return []
            if isinstance(cur, Arr):
                v = self.arr(self.val(s.value, env), s, "in-place update of an array by something that is not an array")
                if v.space != cur.space:
                    self.err(s, "in-place update with an array on another space")
                self.update_inplace(cur, "(%s %s %s)" % ("vadd" if isinstance(s.op, ast.Add) else "vsub", self.aterm(cur, env), self.aterm(v, env)), env, s, nm)
                return []
            self.bad(cur, s, "in-place update of `%s`, which is not an array or Linop variable" % nm)
        self.err(s, "statement form not understood (%s)" % type(s).__name__)

    def call_stmt(self, c, env, s):
        f = c.func
        # App(<solver>, show_pbar=False).run()
        if isinstance(f, ast.Attribute) and f.attr == "run" and isinstance(f.value, ast.Call) and not c.args and not c.keywords:
            p = self.val(f.value, env)
            if isinstance(p, Pending) and p.kind == "app":
                if not self.in_closure:
                    self.err(s, "a solver is run while configuring")
                env.ran.append(p.payload)
                return []
            self.bad(p, s, "call statement not understood")
        fv = self.val(f, env) if isinstance(f, ast.Attribute) else None
        if isinstance(fv, Marker) and fv.kind == "util.axpy":
            fn = self.mod.util_fns.get("axpy")
            if c.keywords or len(c.args) != len(fn.args.args):
                self.err(s, "util.axpy called with other than its positional arguments")
            args = [self.val(a, env) for a in c.args]
            if not isinstance(args[0], Arr):
                self.bad(args[0], s, "first argument of util.axpy is not an array")
            saved = env.locals
            env.locals = dict(zip([a.arg for a in fn.args.args], args))
            body = [b for b in fn.body if not (isinstance(b, ast.Expr) and isinstance(b.value, ast.Constant))]
            for b in body:
                if not isinstance(b, (ast.AugAssign, ast.Assign)):
                    raise TranslationError("util.axpy (util.py line %d): statement not understood: `%s`" % (b.lineno, san(ast.unparse(b))))
            return body + [PopFrame(saved)]
        if isinstance(fv, Marker) and fv.kind == "backend.copyto" and len(c.args) == 2 and not c.keywords:
            dst = self.arr(self.val(c.args[0], env), s, "destination of backend.copyto is not an array")
            srcv = self.ev(c.args[1], env)
            if isinstance(srcv, tuple):
                term, sp = srcv[2], srcv[1]
            else:
                srcv = self.arr(srcv, s, "source of backend.copyto is not an array")
                term, sp = self.aterm(srcv, env), srcv.space
            if sp != dst.space:
                self.err(s, "backend.copyto between arrays on different spaces")
            hint = getattr(c.args[0], "id", "buf")
            self.update_inplace(dst, term, env, s, hint)
            return []
        self.err(s, "call statement not understood")

    # ---- control flow ----------------------------------------------------------------------
    def cond(self, test, env):
        """-> ('static', bool) | ('bool', term) | ('opt', attr, then_is_none)"""
        if isinstance(test, ast.Compare) and len(test.ops) == 1 and isinstance(test.ops[0], (ast.Is, ast.IsNot)):
            rhs = test.comparators[0]
            if not (isinstance(rhs, ast.Constant) and rhs.value is None and self.is_self_attr(test.left)):
                self.err(test, "`is` test other than `self.attr is [not] None`")
            v = self.load_attr(test.left.attr, env, test.left)
            is_none = isinstance(test.ops[0], ast.Is)
            if isinstance(v, Opt):
                return ("opt", test.left.attr, is_none)
            if isinstance(v, Poison):
                self.bad(v, test, "test on an ill-typed value")
            return ("static", (v is NONE) == is_none)
        v = self.val(test, env)
        if not isinstance(v, BoolV):
            self.bad(v, test, "condition is not a boolean of the model")
        if v.term in ("true", "false"):
            return ("static", v.term == "true")
        if v.term in env.facts:
            return ("static", env.facts[v.term])
        return ("bool", v.term)

    @staticmethod
    def indent(lines):
        return ["  " + x for x in lines]

    def run(self, stmts, env, leaf):
        stmts = list(stmts)
        while stmts:
            s = stmts.pop(0)
            if env.ran and not isinstance(s, PopFrame):
                self.err(s, "statement after the inner solver run (its effect on self.x is not part of the value model)")
            if isinstance(s, ast.With):
                for it in s.items:
                    if it.optional_vars is not None or self.val(it.context_expr, env) is not DEV:
                        self.err(it.context_expr, "`with` on something that is not a device")
                stmts = list(s.body) + stmts
                continue
            if isinstance(s, ast.If):
                c = self.cond(s.test, env)
                cm = "   (* L%d: if %s *)" % (s.lineno, san(ast.unparse(s.test)))
                if c[0] == "static":
                    stmts = list(s.body if c[1] else s.orelse) + stmts
                    continue
                e1, e2 = env.fork(), env.fork()
                if c[0] == "bool":
                    e1.facts[c[1]] = True
                    e2.facts[c[1]] = False
                    return env.lines + ["if %s then (%s" % (c[1], cm)] + self.indent(self.run(list(s.body) + stmts, e1, leaf)) \
                        + [") else ("] + self.indent(self.run(list(s.orelse) + stmts, e2, leaf)) + [")"]
                attr, then_is_none = c[1], c[2]
                o = env.attrs[attr]
                bound = attr + "_v"
                e_none, e_some = (e1, e2) if then_is_none else (e2, e1)
                e_none.attrs[attr] = NONE
                e_none.opt[attr] = "none"
                e_some.opt[attr] = bound
                if o.what == "arr":
                    e_some.attrs[attr] = Arr(o.space, self.newbuf(e_some, bound, attr, borrowed="self.%s (the caller's array)" % attr))
                elif o.what == "scal":
                    e_some.attrs[attr] = Scal(bound)
                else:
                    e_some.attrs[attr] = ProxV(o.space, bound)
                b_none = list(s.body if then_is_none else s.orelse) + stmts
                b_some = list(s.orelse if then_is_none else s.body) + stmts
                return env.lines + ["match %s with%s" % (o.term, cm), "| None => ("] + self.indent(self.run(b_none, e_none, leaf)) \
                    + [")", "| Some %s => (" % bound] + self.indent(self.run(b_some, e_some, leaf)) + [")", "end"]
            if isinstance(s, ast.Return):
                if not self.in_closure:
                    self.err(s, "return in a configuration method")
                return env.lines + leaf(env, s)
            stmts = self.simple(s, env) + stmts
        return env.lines + leaf(env, None)

    # ---- entry -----------------------------------------------------------------------------
    def translate(self):
        sp = self.spec
        fn = self.mod.method("LinearLeastSquares", sp["method"])
        if [a.arg for a in fn.args.args] != ["self"] or fn.args.vararg or fn.args.kwarg or fn.args.kwonlyargs:
            raise TranslationError("LinearLeastSquares.%s: signature not understood" % sp["method"])
        env = Env()
        for attr, w in sp["attrs"].items():
            if isinstance(w, tuple) and w[0] == "const_arr":          # the caller's arrays y, x
                env.attrs[attr] = Arr(w[1], self.newbuf(env, w[2], attr, borrowed=w[3]))
            else:
                env.attrs[attr] = w
        entry = dict(env.store)
        for l in sp.get("prelude", []):
            env.lines.append(l)

        def leaf(le, ret):
            c = le.attrs.get("alg")
            if not (isinstance(c, CallV) and c.kind == sp["kind"]):
                raise TranslationError("LinearLeastSquares.%s [%s]: a path ends without self.alg being the %s solver the model expects"
                                       % (sp["method"], sp["gen"], sp["kind"]))
            self.unchanged(le, entry, fn, sp["method"])
            return [c.term]
        body = [s for s in fn.body if not (isinstance(s, ast.Expr) and isinstance(s.value, ast.Constant) and isinstance(s.value.value, str))]
        return self.run(body, env, leaf)


# ---------------------------------------------------------------------------------------------
# parsed sources and class-level checks
# ---------------------------------------------------------------------------------------------
CONFIG_METHODS = ("_get_alg", "_get_ConjugateGradient", "_get_GradientMethod", "_get_PrimalDualHybridGradient", "_get_ADMM")
# attributes the configuration reads, and the only methods that may assign them (besides `self.a = a` in __init__)
ATTR_WRITERS = {"solver": {"_get_alg"}, "alpha": {"_get_GradientMethod"}, "tau": {"_get_PrimalDualHybridGradient"},
                "sigma": {"_get_PrimalDualHybridGradient"}, "x": set(),
                "alg": {"_get_ConjugateGradient", "_get_GradientMethod", "_get_PrimalDualHybridGradient", "_get_ADMM"}}


class Module:
    def __init__(self, app_src, alg_src, util_src):
        self.tree = ast.parse(app_src)
        self.classes = {c.name: c for c in self.tree.body if isinstance(c, ast.ClassDef)}
        self.modules, self.alg_names = {}, {}
        for s in self.tree.body:
            if isinstance(s, ast.ImportFrom) and s.module == "sigpy" and s.level == 0:
                for a in s.names:
                    if a.name in MODULES:
                        self.modules[a.asname or a.name] = a.name
            if isinstance(s, ast.ImportFrom) and s.module == "sigpy.alg" and s.level == 0:
                for a in s.names:
                    if a.name in ALG_CLASSES:
                        self.alg_names[a.asname or a.name] = a.name
        for need in MODULES:
            if need not in self.modules.values():
                raise TranslationError("app.py no longer imports sigpy.%s the way the translator assumes" % need)
        for need in ("ADMM", "ConjugateGradient", "GradientMethod", "PrimalDualHybridGradient"):
            if need not in self.alg_names.values():
                raise TranslationError("app.py no longer imports %s from sigpy.alg" % need)
        names = set(self.modules) | set(self.alg_names)
        for s in self.tree.body:                      # nothing at module level may rebind these names
            bound = []
            if isinstance(s, (ast.FunctionDef, ast.ClassDef)):
                bound = [s.name]
            elif isinstance(s, ast.Assign):
                bound = [t.id for t in s.targets if isinstance(t, ast.Name)]
            elif isinstance(s, (ast.Import, ast.ImportFrom)):
                if isinstance(s, ast.ImportFrom) and s.module in ("sigpy", "sigpy.alg"):
                    continue
                bound = [(a.asname or a.name).split(".")[0] for a in s.names]
            for b in bound:
                if b in names:
                    raise TranslationError("module-level name %s is rebound in app.py" % b)
        for c in ("App", "MaxEig", "LinearLeastSquares"):
            if [x.name for x in self.tree.body if isinstance(x, ast.ClassDef)].count(c) != 1:
                raise TranslationError("class %s is not defined exactly once in app.py" % c)
        self.alg_tree = ast.parse(alg_src)
        self.alg_classes = {c.name: c for c in self.alg_tree.body if isinstance(c, ast.ClassDef)}
        ut = ast.parse(util_src)
        self.util_fns = {f.name: f for f in ut.body if isinstance(f, ast.FunctionDef) and f.name == "axpy"}
        if "axpy" not in self.util_fns or self.util_fns["axpy"].decorator_list:
            raise TranslationError("util.axpy not found / decorated")
        self.check_app_classes()

    @staticmethod
    def find_method(cls, name, what):
        found = [m for m in cls.body if isinstance(m, ast.FunctionDef) and m.name == name]
        if len(found) != 1:
            raise TranslationError("%s.%s is not defined exactly once" % (what, name))
        if found[0].decorator_list:
            raise TranslationError("%s.%s is decorated" % (what, name))
        return found[0]

    def method(self, cls, name):
        return self.find_method(self.classes[cls], name, cls)

    def signature(self, what, cls):
        """[(parameter, default AST | None)] of cls.__init__, without self"""
        fn = self.find_method(cls, "__init__", what)
        a = fn.args
        if a.vararg or a.kwarg or a.kwonlyargs or a.posonlyargs:
            raise TranslationError("%s.__init__: signature not understood" % what)
        names = [x.arg for x in a.args]
        if not names or names[0] != "self":
            raise TranslationError("%s.__init__: no self" % what)
        defaults = [None] * (len(names) - len(a.defaults)) + list(a.defaults)
        return list(zip(names, defaults))[1:]

    def alg_signature(self, cls):
        if cls not in self.alg_classes:
            raise TranslationError("class %s not found in alg.py" % cls)
        sig = self.signature(cls, self.alg_classes[cls])
        for nm, d in sig:
            if d is not None and not (isinstance(d, ast.Constant) and (d.value is None or isinstance(d.value, (bool, int)) and not isinstance(d.value, float))):
                raise TranslationError("alg.%s.__init__: default of `%s` is not None / an integer / a boolean" % (cls, nm))
        return sig

    def expect_params(self, cls, names):
        got = [n for n, _ in self.alg_signature(cls)]
        if got != names:
            raise TranslationError("alg.%s.__init__ takes %s, the call records of model/LLSExpr.v assume %s" % (cls, got, names))

    def check_app_classes(self):
        c = self.classes["LinearLeastSquares"]
        if c.decorator_list or c.keywords or len(c.bases) != 1 or getattr(c.bases[0], "id", None) != "App":
            raise TranslationError("class LinearLeastSquares no longer derives from App alone")
        for m in c.body:
            if isinstance(m, (ast.Assign, ast.AnnAssign)):
                raise TranslationError("class LinearLeastSquares has class-level attributes")
            if isinstance(m, ast.FunctionDef) and m.name in ("__getattr__", "__setattr__", "__getattribute__", "run"):
                raise TranslationError("class LinearLeastSquares overrides %s" % m.name)
        for nm in CONFIG_METHODS + ("__init__",):
            self.method("LinearLeastSquares", nm)
        params = {p for p, _ in self.signature("LinearLeastSquares", c)}
        for m in c.body:
            if not isinstance(m, ast.FunctionDef):
                continue
            for s in ast.walk(m):
                tg = []
                if isinstance(s, ast.Assign):
                    tg = list(s.targets)
                elif isinstance(s, (ast.AugAssign, ast.AnnAssign)):
                    tg = [s.target]
                elif isinstance(s, ast.Delete):
                    tg = list(s.targets)
                elif isinstance(s, ast.Call) and isinstance(s.func, ast.Name) and s.func.id in ("setattr", "delattr"):
                    raise TranslationError("LinearLeastSquares.%s uses %s" % (m.name, s.func.id))
                flat = []
                for t in tg:
                    flat += list(t.elts) if isinstance(t, (ast.Tuple, ast.List)) else [t]
                for t in flat:
                    while isinstance(t, (ast.Subscript, ast.Starred)):
                        t = t.value
                    if isinstance(t, ast.Attribute) and isinstance(t.value, ast.Name) and t.value.id == "self" and (t.attr in params or t.attr in ATTR_WRITERS):
                        if m.name == "__init__" and isinstance(s, ast.Assign):
                            continue                                     # checked by check_init
                        if m.name in ATTR_WRITERS.get(t.attr, ()) and isinstance(s, ast.Assign):
                            continue
                        raise TranslationError("LinearLeastSquares.%s assigns self.%s, which the hand model takes as fixed there (line %d)"
                                               % (m.name, t.attr, s.lineno))
        # MaxEig: the reading `MaxEig(op, max_iter=n).run() = max_eig op n <random start> inf` (PowerMethod run to the end)
        want_init = ["self.x = util.randn(A.ishape, dtype=dtype, device=device)", "alg = PowerMethod(A, self.x, max_iter=max_iter)",
                     "super().__init__(alg, show_pbar=show_pbar, leave_pbar=leave_pbar)"]
        me = self.classes["MaxEig"]
        if len(me.bases) != 1 or getattr(me.bases[0], "id", None) != "App" or any(isinstance(m, ast.FunctionDef) and m.name == "run" for m in me.body):
            raise TranslationError("class MaxEig no longer derives from App alone / overrides run")
        got = [" ".join(ast.unparse(s).split()) for s in self.find_method(me, "__init__", "MaxEig").body
               if not (isinstance(s, ast.Expr) and isinstance(s.value, ast.Constant))]
        if got != [" ".join(ast.unparse(ast.parse(w)).split()) for w in want_init]:
            raise TranslationError("MaxEig.__init__ is no longer `x = randn(A.ishape); PowerMethod(A, x, max_iter)`: %s" % got)
        got = [" ".join(ast.unparse(s).split()) for s in self.find_method(me, "_output", "MaxEig").body]
        if got != ["return self.alg.max_eig"]:
            raise TranslationError("MaxEig._output is no longer `return self.alg.max_eig`: %s" % got)
        # App.run: `while not self.alg.done(): ... self.alg.update() ...; return self._output()`
        run = self.find_method(self.classes["App"], "run", "App")
        loops = [s for s in run.body if isinstance(s, ast.While)]
        if len(loops) != 1 or " ".join(ast.unparse(loops[0].test).split()) != "not self.alg.done()" or loops[0].orelse:
            raise TranslationError("App.run is no longer a single `while not self.alg.done()` loop")
        upd = [s for s in ast.walk(loops[0]) if isinstance(s, ast.Call) and ast.unparse(s.func) == "self.alg.update"]
        brk = [s for s in ast.walk(loops[0]) if isinstance(s, (ast.Break, ast.Continue, ast.Return))]
        direct = [s for s in loops[0].body if isinstance(s, ast.Expr) and isinstance(s.value, ast.Call) and ast.unparse(s.value.func) == "self.alg.update"]
        if len(upd) != 1 or len(direct) != 1 or brk:
            raise TranslationError("App.run: the loop body no longer calls self.alg.update() exactly once per pass")
        if not (isinstance(run.body[-1], ast.Return) and ast.unparse(run.body[-1].value) == "self._output()"):
            raise TranslationError("App.run no longer ends in `return self._output()`")


# ---------------------------------------------------------------------------------------------
# __init__: the signature (names, order, defaults) and the fixed shape of the body
# ---------------------------------------------------------------------------------------------
def nodoc(body):
    return [s for s in body if not (isinstance(s, ast.Expr) and isinstance(s.value, ast.Constant) and isinstance(s.value.value, str))]


def flat(s):
    return " ".join(ast.unparse(s).split())


def translate_init(mod):
    cls = mod.classes["LinearLeastSquares"]
    fn = mod.method("LinearLeastSquares", "__init__")
    sig = mod.signature("LinearLeastSquares", cls)
    rows = []
    for nm, d in sig:
        if d is None:
            t = "PyRequired"
        elif isinstance(d, ast.Constant) and d.value is None:
            t = "PyNone"
        elif isinstance(d, ast.Constant) and isinstance(d.value, bool):
            t = "PyBool %s" % ("true" if d.value else "false")
        elif isinstance(d, ast.Constant) and isinstance(d.value, int):
            t = "PyInt %s" % (d.value if d.value >= 0 else "(%d)" % d.value)
        else:
            raise TranslationError("LinearLeastSquares.__init__, app.py line %d: default of `%s` is not None / an integer / a boolean: `%s`"
                                   % (fn.lineno, nm, flat(d)))
        rows.append('("%s", %s)' % (nm, t))
    # the body: `self.p = p` for every parameter, devices, the default x, self._get_alg() exactly once, then the App part
    params = [nm for nm, _ in sig]
    stored, state = set(), "store"
    got_alg = x_default = False

    def bad(s, why):
        raise TranslationError("LinearLeastSquares.__init__, app.py line %d: %s: `%s`" % (s.lineno, why, flat(s)[:140]))
    for s in nodoc(fn.body):
        t = flat(s)
        m = re.fullmatch(r"self\.(\w+) = (\w+)", t)
        if m and m.group(1) == m.group(2) and m.group(1) in params:
            if got_alg or m.group(1) in stored:
                bad(s, "a constructor argument is stored twice / after the configuration ran")
            stored.add(m.group(1))
            continue
        if m and m.group(1) in params:
            bad(s, "self.%s is not assigned the constructor argument of the same name" % m.group(1))
        if t in ("self.y_device = backend.get_device(y)", "self.x_device = backend.get_device(self.x)"):
            if got_alg or (t.startswith("self.x_device") and not x_default):
                bad(s, "device looked up after the configuration ran / before x is defaulted")
            continue
        if isinstance(s, ast.If) and flat(s.test) == "self.x is None" and not s.orelse and not got_alg:
            inner = nodoc(s.body)
            while len(inner) == 1 and isinstance(inner[0], ast.With):
                inner = nodoc(inner[0].body)
            # reading: x defaults to the all-zero array on the domain of A (the space X of the model)
            if len(inner) != 1 or flat(inner[0]) != "self.x = self.y_device.xp.zeros(A.ishape, dtype=y.dtype)":
                bad(s, "the default of x is no longer zeros(A.ishape, dtype=y.dtype)")
            x_default = True
            continue
        if t == "self._get_alg()":
            if got_alg or set(params) - stored or not x_default:
                bad(s, "self._get_alg() runs twice / before every argument is stored and x is defaulted (missing: %s)" % sorted(set(params) - stored))
            got_alg = True
            continue
        if got_alg and isinstance(s, ast.If) and flat(s.test) == "self.save_objective_values" and not s.orelse \
                and [flat(b) for b in nodoc(s.body)] == ["self.objective_values = [self.objective()]"]:
            continue
        if got_alg and t == "super().__init__(self.alg, show_pbar=show_pbar, leave_pbar=leave_pbar)":
            state = "done"
            continue
        bad(s, "statement not understood")
    if not got_alg or state != "done":
        raise TranslationError("LinearLeastSquares.__init__: self._get_alg() / super().__init__(self.alg, ...) missing")
    out = ["(* LinearLeastSquares.__init__  (app.py line %d): parameters in order with their defaults; the body stores every argument in the\n"
           "   attribute of the same name, defaults x to zeros(A.ishape), then runs self._get_alg() once (checked by the translator) *)" % fn.lineno,
           "Definition gen_lls_signature : list (string * pydefault) :=\n  [ %s ]." % ";\n    ".join(rows),
           "Lemma gen_lls_signature_ok : gen_lls_signature = lls_signature.\nProof. reflexivity. Qed.\n"]
    return out


# ---------------------------------------------------------------------------------------------
# _get_alg: a decision function on the flags
# ---------------------------------------------------------------------------------------------
SOLVER_CTOR = {"ConjugateGradient": "SolCG", "GradientMethod": "SolGM", "PrimalDualHybridGradient": "SolPDHG", "ADMM": "SolADMM"}
BRANCH = {"_get_ConjugateGradient": "BrCG", "_get_GradientMethod": "BrGM", "_get_PrimalDualHybridGradient": "BrPDHG", "_get_ADMM": "BrADMM"}
ERRORS = [("ConjugateGradient cannot have proxg", "ErrCGProxg"), ("GradientMethod cannot have G", "ErrGMG"), ("Invalid solver", "ErrInvalidSolver")]
FLAG = {"proxg": "fl_proxg fl", "G": "fl_G fl"}


class Decide:
    """_get_alg executed on a KNOWN solver option (one run per constructor of solver_opt) and symbolic flags proxg / G given?"""

    def __init__(self, mod):
        self.mod = mod
        self.fn = mod.method("LinearLeastSquares", "_get_alg")

    def err(self, node, msg):
        raise TranslationError("LinearLeastSquares._get_alg, app.py line %d: %s: `%s`" % (getattr(node, "lineno", 0), msg, flat(node)[:140]))

    def test(self, t, st):
        """-> True / False / ('flag', name, value_when_true_is_given)"""
        if isinstance(t, ast.UnaryOp) and isinstance(t.op, ast.Not):
            r = self.test(t.operand, st)
            return (not r) if isinstance(r, bool) else ("flag", r[1], not r[2])
        if isinstance(t, ast.Compare) and len(t.ops) == 1 and isinstance(t.left, ast.Attribute) and flat(t.left.value) == "self":
            attr, op, rhs = t.left.attr, t.ops[0], t.comparators[0]
            if isinstance(op, (ast.Is, ast.IsNot)) and isinstance(rhs, ast.Constant) and rhs.value is None:
                pos = isinstance(op, ast.Is)
                if attr == "solver":
                    return (st["solver"] == "SolNone") == pos
                if attr in FLAG:
                    if attr in st:
                        return (not st[attr]) == pos
                    return ("flag", attr, not pos)            # test is true exactly when given == (not pos)
            if attr == "solver" and isinstance(op, (ast.Eq, ast.NotEq)) and isinstance(rhs, ast.Constant) and isinstance(rhs.value, str):
                if rhs.value not in SOLVER_CTOR:
                    self.err(t, "comparison with a solver name the hand model does not know")
                # (None == '<name>' is False in Python; SolOther is a string different from the four names)
                return (st["solver"] == SOLVER_CTOR[rhs.value]) == isinstance(op, ast.Eq)     # SolOther: a string different from the four names
        self.err(t, "test not understood (self.solver is None, self.solver == '<name>', self.proxg / self.G is [not] None)")

    def run(self, stmts, st):
        """-> lines of a decision term"""
        stmts = list(stmts)
        while stmts:
            s = stmts.pop(0)
            if isinstance(s, ast.If):
                r = self.test(s.test, st)
                if isinstance(r, bool):
                    stmts = list(s.body if r else s.orelse) + stmts
                    continue
                _, attr, given_when_true = r
                st1, st2 = dict(st), dict(st)
                st1[attr], st2[attr] = given_when_true, not given_when_true
                yes, no = (s.body, s.orelse)
                bt = self.run(list(yes) + stmts, st1)
                bf = self.run(list(no) + stmts, st2)
                given, notgiven = (bt, bf) if given_when_true else (bf, bt)
                return ["if %s then (   (* L%d: %s *)" % (FLAG[attr], s.lineno, san(flat(s.test)))] + ["  " + x for x in given] + [") else ("] \
                    + ["  " + x for x in notgiven] + [")"]
            if isinstance(s, ast.Expr) and isinstance(s.value, ast.Constant) and isinstance(s.value.value, str):
                continue
            if isinstance(s, ast.Pass):
                continue
            if isinstance(s, ast.Assign) and len(s.targets) == 1 and flat(s.targets[0]) == "self.solver" \
                    and isinstance(s.value, ast.Constant) and isinstance(s.value.value, str):
                if s.value.value not in SOLVER_CTOR:
                    self.err(s, "self.solver is set to a name the hand model does not know")
                st = dict(st, solver=SOLVER_CTOR[s.value.value])
                continue
            if isinstance(s, ast.Raise):
                e = s.exc
                if not (isinstance(e, ast.Call) and flat(e.func) == "ValueError" and len(e.args) == 1 and not e.keywords and s.cause is None):
                    self.err(s, "raise of something other than ValueError(<message>)")
                m = e.args[0]
                if isinstance(m, ast.Call) and isinstance(m.func, ast.Attribute) and m.func.attr == "format":
                    m = m.func.value
                if not (isinstance(m, ast.Constant) and isinstance(m.value, str)):
                    self.err(s, "error message is not a string literal")
                kinds = [k for p, k in ERRORS if m.value.startswith(p)]
                if len(kinds) != 1:
                    self.err(s, "error message is none of the three the hand model (and props/C14.py) distinguish")
                return ["Reject %s   (* L%d: %s *)" % (kinds[0], s.lineno, san(flat(s))[:110])]
            if isinstance(s, ast.Expr) and isinstance(s.value, ast.Call) and not s.value.args and not s.value.keywords \
                    and isinstance(s.value.func, ast.Attribute) and flat(s.value.func.value) == "self" and s.value.func.attr in BRANCH:
                if "chosen" in st:
                    self.err(s, "a second solver is configured on the same path")
                st = dict(st, chosen=(BRANCH[s.value.func.attr], s.lineno, flat(s)))
                continue
            self.err(s, "statement not understood")
        if "chosen" not in st:
            raise TranslationError("LinearLeastSquares._get_alg: a path ends without configuring a solver or raising")
        return ["Accept %s   (* L%d: %s *)" % st["chosen"]]

    def translate(self):
        fn = self.fn
        if [a.arg for a in fn.args.args] != ["self"]:
            raise TranslationError("LinearLeastSquares._get_alg: signature not understood")
        out = ["match fl_solver fl with"]
        for ctor, cm in (("SolNone", "solver=None"), ("SolCG", "'ConjugateGradient'"), ("SolGM", "'GradientMethod'"),
                         ("SolPDHG", "'PrimalDualHybridGradient'"), ("SolADMM", "'ADMM'"), ("SolOther", "any other string")):
            out.append("| %s => (   (* %s *)" % (ctor, cm))
            out += ["    " + x for x in self.run(nodoc(fn.body), {"solver": ctor})]
            out.append("  )")
        out.append("end")
        return ["(* LinearLeastSquares._get_alg  (app.py line %d): which solver is configured / which error is raised, as a function of the\n"
                "   options (solver string, proxg given?, G given?) *)" % fn.lineno,
                "Definition gen_get_alg (fl : lls_flags) : decision :=\n  " + "\n  ".join(out) + ".",
                "Lemma gen_get_alg_ok : forall fl : lls_flags, gen_get_alg fl = get_alg fl.\n"
                "Proof. intros [s p g l zf]. destruct s, p, g; reflexivity. Qed.\n"]


# ---------------------------------------------------------------------------------------------
# alg.ADMM: constructor stores its arguments; _update = minL_x(); minL_z(); u += A(x) + B(z) - c
# ---------------------------------------------------------------------------------------------
def translate_admm_update(mod):
    cls = mod.alg_classes.get("ADMM")
    if cls is None or len(cls.bases) != 1 or getattr(cls.bases[0], "id", None) != "Alg":
        raise TranslationError("alg.ADMM not found / no longer derives from Alg alone")
    init = Module.find_method(cls, "__init__", "alg.ADMM")
    params = [n for n, _ in mod.alg_signature("ADMM")]
    got = [flat(s) for s in nodoc(init.body)]
    want = ["self.%s = %s" % (p, p) for p in params if p != "max_iter"] + ["super().__init__(max_iter)"]
    if got != want:
        raise TranslationError("alg.ADMM.__init__ (alg.py line %d) no longer just stores its arguments: %s" % (init.lineno, got))
    upd = Module.find_method(cls, "_update", "alg.ADMM")
    body = nodoc(upd.body)

    def bad(s, why):
        raise TranslationError("alg.ADMM._update, alg.py line %d: %s: `%s`" % (s.lineno, why, flat(s)[:140]))
    if len(body) != 3 or flat(body[0]) != "self.minL_x()" or flat(body[1]) != "self.minL_z()":
        bad(body[0] if body else upd, "the step is no longer `self.minL_x(); self.minL_z(); self.u += ...`")
    s = body[2]
    if not (isinstance(s, ast.AugAssign) and flat(s.target) == "self.u" and isinstance(s.op, (ast.Add, ast.Sub))):
        bad(s, "dual update is not `self.u += e` / `self.u -= e`")

    def ev(n):
        """-> ('W', term) | ('c',)"""
        t = flat(n)
        if t == "self.A(self.x)":
            return ("W", "(A x)")
        if t == "self.B(self.z)":
            return ("W", "(B z)")
        if t == "self.u":
            return ("W", "u")
        if t == "self.c":
            return ("c",)
        if isinstance(n, ast.BinOp) and isinstance(n.op, (ast.Add, ast.Sub)):
            a, b = ev(n.left), ev(n.right)
            if a[0] == "W" and b[0] == "c":
                return a                     # c is the Python integer 0 (checked where ADMM is constructed): e - 0, e + 0 are e
            if a[0] == "W" and b[0] == "W":
                return ("W", "(%s %s %s)" % ("vadd" if isinstance(n.op, ast.Add) else "vsub", a[1], b[1]))
        bad(n, "expression not understood (self.A(self.x), self.B(self.z), self.c, +, -)")
    r = ev(s.value)
    if r[0] != "W":
        bad(s, "the increment is not an array")
    term = "(%s u %s)" % ("vadd" if isinstance(s.op, ast.Add) else "vsub", r[1])
    return ["(* alg.ADMM._update  (alg.py line %d): after minL_x() and minL_z() (in this order),  %s   [c = 0] *)" % (upd.lineno, san(flat(s))),
            "Definition gen_ADMM__update_u (S : SOps) (X W : VOps S) (A : X -> W) (B : W -> W) (x : X) (z u : W) : W :=\n  %s." % term]


# ---------------------------------------------------------------------------------------------
# specifications: which method, in which configuration, is compared with which hand-model term
# ---------------------------------------------------------------------------------------------
YW = ("prod", "Y", "W")
B_COMMON = [("S", "SOps"), ("X Y", "VOps S"), ("A", "X -> Y"), ("AH", "Y -> X")]
B_G = [("S", "SOps"), ("X Y W", "VOps S"), ("A", "X -> Y"), ("AH", "Y -> X"), ("G", "X -> W"), ("GH", "W -> X")]
B_DATA = [("y", "Y"), ("lamda", "S"), ("z", "option X")]
PRE_A = "let A_ := @mkLin S X Y A AH in   (* self.A with its adjoint self.A.H *)"
PRE_G = "let G_ := @mkLin S X W G GH in   (* self.G with its adjoint self.G.H *)"


def base_attrs(prox_space, with_G):
    a = {
        "A": Lin("X", "Y", "A_"),
        "y": ("const_arr", "Y", "y", "self.y (the caller's array)"),
        "x": ("const_arr", "X", "x", "self.x (the solver's iterate: configuring must not change it)"),
        "lamda": Scal("lamda"),
        "z": Opt("arr", "X", "z", "z"),
        "max_iter": IntV("max_iter", "Z"), "tol": Scal("tol"),
        "x_device": DEV, "y_device": DEV, "show_pbar": IGNORED,
    }
    if prox_space:
        a["proxg"] = Opt("prox", prox_space, "proxg", "proxg")
    if with_G is True:
        a["G"] = Lin("X", "W", "G_")
    elif with_G is False:
        a["G"] = NONE
    return a


def specs():
    out = []
    # ---- _get_ConjugateGradient (proxg is None; G is not looked at) ----
    a = base_attrs(None, None)
    a["P"] = Opaque("P", ("precond", "X"))
    out.append(dict(
        gen="gen_get_ConjugateGradient", method="_get_ConjugateGradient", variant="ConjugateGradient", kind="cg", attrs=a,
        binders=B_COMMON + B_DATA + [("P", "option (X -> X)"), ("x", "X"), ("max_iter", "Z"), ("tol", "S")], prelude=[PRE_A],
        rtype="cg_call S X", rand={}, zeros={},
        hand="mkCGCall (cg_op S X Y A AH lamda) (cg_rhs S X Y AH y lamda z) x P max_iter tol"))
    # ---- _get_GradientMethod (G is None) ----
    a = base_attrs("X", False)
    a.update(alpha=Opt("scal", None, "alpha", "alpha"), accelerate=BoolV("accelerate"), max_power_iter=IntV("max_power_iter", "nat"))
    gmb = B_COMMON + B_DATA + [("proxg", "option (S -> X -> X)"), ("alpha", "option S"), ("accelerate", "bool"), ("max_power_iter", "nat"),
                               ("xrand", "X"), ("inf", "S"), ("x", "X"), ("max_iter", "Z"), ("tol", "S")]
    out.append(dict(
        gen="gen_get_GradientMethod", method="_get_GradientMethod", variant="GradientMethod, G is None", kind="gm", attrs=a,
        binders=gmb, prelude=[PRE_A], rtype="gm_call S X", rand={"X": "xrand"}, zeros={}, step_attrs=("alpha",),
        hand="mkGMCall (gm_gradf S X Y A AH y lamda z) x (gm_alpha S X Y A AH lamda alpha max_power_iter xrand inf) proxg accelerate max_iter tol",
        step=("gm_call_step", "gm_state S X",
              "lls_gm_step S X Y A AH y lamda z proxg accelerate (gm_alpha S X Y A AH lamda alpha max_power_iter xrand inf) st",
              ["gm_call_step", "lls_gm_step"])))
    # ---- _get_PrimalDualHybridGradient ----
    steps = [("tau sigma", "option S"), ("max_power_iter", "nat")]
    for withG in (False, True):
        a = base_attrs("W" if withG else "X", withG)
        a.update(tau=Opt("scal", None, "tau", "tau"), sigma=Opt("scal", None, "sigma", "sigma"), max_power_iter=IntV("max_power_iter", "nat"))
        U = YW if withG else "Y"
        Ut = "(stackU S Y W)" if withG else "Y"
        tail = [("xrand", "X"), ("urand", Ut), ("inf", "S"), ("x", "X"), ("zerosU", Ut), ("max_iter", "Z"), ("tol", "S")]
        if withG:
            K, KH = "(stackA S X Y W A G)", "(stackAH S X Y W AH GH)"
            st = "(pdhg_steps S X (stackU S Y W) %s %s tau sigma max_power_iter xrand urand inf)" % (K, KH)
            hand = ("mkPDCall (pdhgG_dual_prox S Y W y proxg) (pdhgG_primal_prox S X lamda z) %s %s x zerosU (fst %s) (snd %s) (@s1 S) "
                    "(pdhgG_gamma_primal S lamda) (pdhgG_gamma_dual S) max_iter tol" % (K, KH, st, st))
            step = ("pd_call_step", "pd_state S X (stackU S Y W) S S", "lls_pdhgG_step S X Y W A AH G GH y lamda z proxg st",
                    ["pd_call_step", "lls_pdhgG_step"])
        else:
            st = "(pdhg_steps S X Y A AH tau sigma max_power_iter xrand urand inf)"
            hand = ("mkPDCall (pdhg_dual_prox_data S Y y) (pdhg_primal_prox S X lamda z proxg) A AH x zerosU (fst %s) (snd %s) (@s1 S) "
                    "(pdhg_gamma_primal S lamda) (pdhg_gamma_dual_noG S) max_iter tol" % (st, st))
            step = ("pd_call_step", "pd_state S X Y S S", "lls_pdhg_step S X Y A AH y lamda z proxg st", ["pd_call_step", "lls_pdhg_step"])
        out.append(dict(
            gen="gen_get_PDHG_G" if withG else "gen_get_PDHG_noG", method="_get_PrimalDualHybridGradient",
            variant="PrimalDualHybridGradient, G %s" % ("given" if withG else "is None"), kind="pd", attrs=a,
            binders=(B_G if withG else B_COMMON) + B_DATA + [("proxg", "option (S -> %s -> %s)" % (("W", "W") if withG else ("X", "X")))] + steps + tail,
            prelude=[PRE_A] + ([PRE_G] if withG else []), rtype="pd_call S X %s" % Ut, dual=U,
            rand={"X": "xrand", U: "urand"}, zeros={U: "zerosU"}, step_attrs=("tau", "sigma"), hand=hand, step=step))
    # ---- _get_ADMM ----
    for withG in (False, True):
        a = base_attrs("W" if withG else "X", withG)
        a.update(rho=Scal("rho"), P=Opaque("P", ("precond", "X")), max_cg_iter=IntV("max_cg_iter", "Z"))
        V = "W" if withG else "X"
        tail = [("proxg", "option (S -> %s -> %s)" % (V, V)), ("rho", "S"), ("P", "option (X -> X)"), ("x", "X"), ("zerosV", V),
                ("max_cg_iter max_iter", "Z"), ("tol", "S")]
        if withG:
            hand = ("mkADMMCall (fun (xc : X) (vc uc : W) => mkCGCall (admmG_op S X Y W A AH G GH lamda rho) (admmG_rhs S X Y W AH GH y lamda z rho vc uc) xc P max_cg_iter (@s0 S)) "
                    "(fun (xc : X) (vc uc : W) => admmG_v S X W G proxg rho xc uc) x (G x) zerosV G (fun v0 : W => vscale (sopp s1) v0) max_iter")
            uhand = "admmG_u S X W G x0 v0 u0"
        else:
            hand = ("mkADMMCall (fun xc vc uc : X => mkCGCall (admm_op S X Y A AH lamda rho) (admm_rhs S X Y AH y lamda z rho vc uc) xc P max_cg_iter (@s0 S)) "
                    "(fun xc vc uc : X => admm_v S X proxg rho xc uc) x x zerosV (fun x0 : X => x0) (fun v0 : X => vscale (sopp s1) v0) max_iter")
            uhand = "admm_u S X x0 v0 u0"
        out.append(dict(
            gen="gen_get_ADMM_G" if withG else "gen_get_ADMM_noG", method="_get_ADMM", variant="ADMM, G %s" % ("given" if withG else "is None"),
            kind="admm", attrs=a, binders=(B_G if withG else B_COMMON) + B_DATA + tail, prelude=[PRE_A] + ([PRE_G] if withG else []),
            rtype="admm_call S X %s" % V, dual=V, rand={}, zeros={V: "zerosV"}, hand=hand, admm_u=(V, uhand)))
    for sp in out:
        sp["binder_names"] = [n for b, _ in sp["binders"] for n in b.split()]
    return out


# ---------------------------------------------------------------------------------------------
# rendering
# ---------------------------------------------------------------------------------------------
NORM = ("fwd adj lH lcomp lN lid lmult lscale lmulr ladd lneg lvstack stack_prox fst snd "
        "cgc_A cgc_b cgc_x cgc_P cgc_max_iter cgc_tol gmc_gradf gmc_x gmc_alpha gmc_proxg gmc_accelerate gmc_max_iter gmc_tol "
        "pdc_proxfc pdc_proxg pdc_A pdc_AH pdc_x pdc_u pdc_tau pdc_sigma pdc_theta pdc_gamma_primal pdc_gamma_dual pdc_max_iter pdc_tol "
        "adc_minL_x adc_minL_z adc_x adc_z adc_u adc_A adc_B adc_max_iter "
        "AHA sne0 prox_or_noop cg_op cg_rhs gm_gradf gm_alpha pdhg_primal_prox pdhg_gamma_primal pdhg_dual_prox_data pdhg_gamma_dual_noG "
        "pdhg_steps stackU stackA stackAH pdhgG_dual_prox pdhgG_primal_prox pdhgG_gamma_primal pdhgG_gamma_dual "
        "admm_op admm_rhs admm_v admm_u admmG_op admmG_rhs admmG_v admmG_u")

HEADER = """(* Gen_lls.v -- GENERATED by tools/translate_lls.py from sigpy/app.py (sha256 %s),
   the constructor signatures and ADMM._update of sigpy/alg.py (sha256 %s) and util.axpy of sigpy/util.py (sha256 %s).
   Do not edit.
   What class LinearLeastSquares configures, as written in the source, in the expression language of model/LLSExpr.v
   (a Linop is the pair (apply, adjoint apply); L.H, L.N, *, +, -, Identity, Multiply, Vstack and prox.NoOp / L2Reg / Conj / Stack
   are combinators; a solver constructor call is a record of its arguments), and its agreement with the hand model
   model/LLS.v (each lemma: normalisation, case analysis on the tests that occur, reflexivity).
   Conventions: every Python assignment is a `let` (comment: source line); arrays are values, `.copy()` is the identity
   on values -- which names share an array is tracked by the translator while it executes the method symbolically, and an
   in-place write into the result of a Linop / Prox application, into y, z or x makes the translation FAIL CLOSED;
   a nested function (gradf, minL_x, minL_v) becomes a `fun` of its arguments resp. of the arrays it captures (x, v, u);
   MaxEig(op, max_iter=n).run() is [max_eig op n <random start vector> inf]; one definition per configuration of the
   hand model (G is None / G given). *)
From Coq Require Import ZArith List Bool String.
From SV Require Import model.ProxGrad model.LLS model.LLSExpr.
Import ListNotations.
Local Open Scope string_scope.
Local Open Scope Z_scope.

(* normalisation over the expression language and the hand model's definitions, then case analysis on every test that
   occurs (innermost first), then computation *)
Ltac tie_norm := cbv beta iota zeta delta [%s].
Ltac tie_case :=
  match goal with
  | |- context [match ?c with _ => _ end] =>
      lazymatch c with
      | context [match _ with _ => _ end] => fail
      | _ => destruct c
      end
  end.
Ltac tie := tie_norm; repeat (tie_case; cbv beta iota zeta); reflexivity.
"""


def bnd(binders):
    return " ".join("(%s : %s)" % b for b in binders)


def names_of(binders):
    return " ".join(n for b, _ in binders for n in b.split())


def render(mod, sp):
    lines = Exec(mod, sp).translate()
    fn = mod.method("LinearLeastSquares", sp["method"])
    out = ["(* LinearLeastSquares.%s  (app.py line %d), configuration: %s *)" % (sp["method"], fn.lineno, sp["variant"])]
    out.append("Definition %s %s : %s :=\n  %s." % (sp["gen"], bnd(sp["binders"]), sp["rtype"], "\n  ".join(lines)))
    args = names_of(sp["binders"])
    out.append("Lemma %s_ok : forall %s,\n  %s %s\n  = %s.\nProof. intros. unfold %s. tie. Qed.\n"
               % (sp["gen"], bnd(sp["binders"]), sp["gen"], args, sp["hand"], sp["gen"]))
    if sp.get("step"):
        proj, sty, hand, unf = sp["step"]
        out.append("(* the step the configured solver performs (model/ProxGrad.v) is the hand model's *)\n"
                   "Lemma %s_step_ok : forall %s (st : %s),\n  %s (%s %s) st\n  = %s.\nProof. intros. unfold %s, %s. tie. Qed.\n"
                   % (sp["gen"], bnd(sp["binders"]), sty, proj, sp["gen"], args, hand, ", ".join(unf), sp["gen"]))
    if sp.get("admm_u"):
        V, uhand = sp["admm_u"]
        c = "(%s %s)" % (sp["gen"], args)
        out.append("(* alg.ADMM._update's dual update with the configured A, B *)\n"
                   "Lemma %s_u_ok : forall %s (x0 : X) (v0 u0 : %s),\n  gen_ADMM__update_u S X %s (adc_A S X %s %s) (adc_B S X %s %s) x0 v0 u0\n  = %s.\n"
                   "Proof. intros. unfold gen_ADMM__update_u, %s. tie. Qed.\n"
                   % (sp["gen"], bnd(sp["binders"]), V, V, V, c, V, c, uhand, sp["gen"]))
    return out


def translate_sources(app_src, alg_src, util_src):
    mod = Module(app_src, alg_src, util_src)
    sh = tuple(hashlib.sha256(t.encode()).hexdigest() for t in (app_src, alg_src, util_src))
    out = [HEADER % (sh + (NORM,)), "(* ===== __init__ ===== *)"]
    out += translate_init(mod)
    out.append("(* ===== _get_alg ===== *)")
    out += Decide(mod).translate()
    out.append("(* ===== alg.ADMM._update ===== *)")
    out += translate_admm_update(mod)
    out.append("")
    group = None
    for sp in specs():
        if sp["method"] != group:
            group = sp["method"]
            out.append("(* ===== %s ===== *)" % group)
        out += render(mod, sp)
    return "\n".join(out) + "\n"


def read_sources(repo, app_path=None):
    return (open(app_path or os.path.join(repo, "sigpy", "app.py")).read(),
            open(os.path.join(repo, "sigpy", "alg.py")).read(),
            open(os.path.join(repo, "sigpy", "util.py")).read())


def translate_lls(repo, app_path=None):
    return translate_sources(*read_sources(repo, app_path))


COVERED = ("LinearLeastSquares __init__ signature, _get_alg, _get_ConjugateGradient, _get_GradientMethod, "
           "_get_PrimalDualHybridGradient, _get_ADMM incl. gradf / minL_x / minL_v; alg.ADMM._update")


def failing_lemma(gen_text, log):
    m = re.search(r'line (\d+), characters', log)
    if not m:
        return None
    lines = gen_text.split("\n")
    for i in range(min(int(m.group(1)), len(lines)) - 1, -1, -1):
        mm = re.match(r"\s*(?:Lemma|Definition)\s+([A-Za-z0-9_']+)", lines[i])
        if mm:
            return mm.group(1)
    return None


def tie(ctx):
    """The two obligations props/C14.py adds (DESIGN 2.10 steps 1-2): regenerate gen/Gen_lls.v from the tree under test, then
    compile it (the `_ok` lemmas ARE the tie).  Returns None when both hold, else {"theorem": ..., "log": ...} for the
    no-failing-input report."""
    from tools import translate_all
    from vlib import core
    tr_err = translate_all.run(strict=False, only=["lls"])
    ctx.source_hash("sigpy/app.py", "sigpy/alg.py", "sigpy/util.py")
    ctx.obligation("translate:sigpy/app.py (%s)" % COVERED, not tr_err)
    name = "tie:generated LinearLeastSquares configuration == hand model (Gen_lls.v lemmas)"
    if tr_err:
        ctx.notes.append("translator failed closed: %s" % tr_err)
        ctx.obligation(name, False)
        return {"theorem": "translate:sigpy/app.py", "log": str(tr_err)}
    ctx.checker_cmds.append("cd %s && make gen/Gen_lls.vo" % core.COQ)
    ok, log = core.coq_make(["gen/Gen_lls.vo"], timeout=900)
    ctx.obligation(name, ok)
    if ok:
        return None
    which = []
    for m in re.finditer(r'File "[^"]*?Gen_lls\.v", line (\d+)', log):
        try:
            lem = failing_lemma(open(os.path.join(core.COQ, "gen", "Gen_lls.v")).read(), "line %s, characters" % m.group(1))
        except OSError:
            lem = None
        w = "%s (gen/Gen_lls.v)" % (lem or "?")
        if w not in which:
            which.append(w)
    ctx.notes.append("generated LinearLeastSquares configuration no longer equals the hand model: %s: %s" % (", ".join(which), log[-1200:]))
    return {"theorem": "tie:" + (", ".join(which) or "gen/Gen_lls.v"), "log": log[-2500:]}


if __name__ == "__main__":
    args = [a for a in sys.argv[1:] if not a.startswith("--")]
    sys.stdout.write(translate_lls(args[0] if args else "/repo"))
