#!/usr/bin/env python3
"""Regenerate MANIFEST.json from tools/manifest_data.py (single source of truth)."""
import json, os, sys
HERE = os.path.dirname(os.path.abspath(__file__))
sys.path.insert(0, os.path.dirname(HERE))
from tools import manifest_data as D

props = [json.loads(l) for l in open(os.path.join(os.path.dirname(HERE), "properties.jsonl"))]
ids = [p["id"] for p in props]
checks, na = [], []
for pid in ids:
    if pid in D.CHECKS:
        c = D.CHECKS[pid]
        checks.append({
            "property_id": pid,
            "quick_cmd": "./check %s --tier quick" % pid,
            "thorough_cmd": "./check %s --tier thorough" % pid,
            "evidence_file": "/verif/evidence/%s.json" % pid,
            "replay_cmd_template": "./check %s --replay {path}" % pid,
            "engine": "coq-sv",
            "level_claimed": {"category": "proof", "text": c["text"], "design_ref": c.get("design_ref", "DESIGN.md §3 " + pid)},
            "level_note": c["note"],
            "technique": c["technique"],
        })
    else:
        na.append({"property_id": pid, "reason": D.NOT_APPLICABLE.get(pid, "check not built yet in this development (no claim made)")})
m = {
    "version": 1,
    "setup_cmd": "./check --setup",
    "hooks": {"guard": "SIGPY_VERIF", "enable": "no source hooks are needed: checks import /repo directly (PYTHONPATH=/repo) and set SIGPY_VERIF=1",
              "baseline_off_cmd": "cd /repo && /venv/bin/python -m pytest -ra -q -p no:cacheprovider --timeout=900 --continue-on-collection-errors",
              "source_commits": [], "add_only": True},
    "engines": [{"name": "coq-sv", "path": "/verif/coq", "serves_properties": sorted(D.CHECKS),
                 "kind_free_text": "Coq 8.16.1 development (abstract *-ring linear-operator theory, loop-nest IR generated from the numba kernels, "
                                   "hand models) + correspondence harness evaluating the models by vm_compute against the implementation"}],
    "checks": checks,
    "notes": D.NOTES,
    "not_applicable": na,
}
json.dump(m, open(os.path.join(os.path.dirname(HERE), "MANIFEST.json"), "w"), indent=1)
print("checks:", [c["property_id"] for c in checks], "not claimed:", len(na))
