#!/usr/bin/env python3
"""Self-test of tools/translate_bloch.py: small textual mutations of a COPY of sigpy/mri/rf/{sim,optcont,slr}.py.

For every mutation the copy is translated; expected outcome: the translation FAILS CLOSED (TranslationError naming the
line) or the first `_ok` lemma of the generated file that no longer compiles is named.  The unmodified sources and a few
semantics-preserving edits (renamed local, extra comment / docstring, unused local) must pass.
Scratch: /verif/build/trbloch_selftest/<name>/{sigpy/mri/rf/*.py, Gen_bloch.v}.

    /venv/bin/python tools/test_translate_bloch.py [repo] [--no-seeded]        exit 0 = everything as expected
"""
import concurrent.futures
import os
import shutil
import subprocess
import sys
import time

HERE = os.path.dirname(os.path.abspath(__file__))
sys.path.insert(0, os.path.dirname(HERE))
from tools import translate_bloch as T    # noqa: E402
from vlib import core                    # noqa: E402

SCRATCH = os.path.join(core.BUILD, "trbloch_selftest")
SIM, OPT, SLR = T.SIM, T.OPT, T.SLR

# (name, file, old text, new text, which occurrence (0-based; -1 = all), expectation "caught" | "pass")
MUTATIONS = [
    # ---- sim.abrm
    ("abrm_drop_eps", SIM, "phi = xp.sqrt(xp.abs(rf[mm]) ** 2 + om**2) + eps", "phi = xp.sqrt(xp.abs(rf[mm]) ** 2 + om**2)", 0, "caught"),
    ("abrm_eps_constant", SIM, "eps = 1e-16", "eps = 1e-6", 0, "caught"),
    ("abrm_drop_abs_square", SIM, "xp.sqrt(xp.abs(rf[mm]) ** 2 + om**2) + eps", "xp.sqrt(xp.abs(rf[mm]) + om**2) + eps", 0, "caught"),
    ("abrm_sign_av", SIM, "av = xp.cos(phi / 2) - 1j * n[:, 2] * xp.sin(phi / 2)", "av = xp.cos(phi / 2) + 1j * n[:, 2] * xp.sin(phi / 2)", 0, "caught"),
    ("abrm_axis_swapped", SIM, "bv = -1j * (n[:, 0] + 1j * n[:, 1]) * xp.sin(phi / 2)", "bv = -1j * (n[:, 1] + 1j * n[:, 0]) * xp.sin(phi / 2)", 0, "caught"),
    ("abrm_drop_conj", SIM, "at = av * a - xp.conj(bv) * b", "at = av * a - bv * b", 0, "caught"),
    ("abrm_swapped_state", SIM, "bt = bv * a + xp.conj(av) * b", "bt = bv * b + xp.conj(av) * a", 0, "caught"),
    ("abrm_full_angle", SIM, "av = xp.cos(phi / 2) - 1j * n[:, 2] * xp.sin(phi / 2)", "av = xp.cos(phi) - 1j * n[:, 2] * xp.sin(phi / 2)", 0, "caught"),
    ("abrm_loop_off_by_one", SIM, "for mm in range(xp.size(rf)):\n            om = x * g[mm]", "for mm in range(xp.size(rf) - 1):\n            om = x * g[mm]", 0, "caught"),
    ("abrm_gradient_constant", SIM, "g = xp.ones(xp.size(rf)) * 2 * xp.pi / xp.size(rf)", "g = xp.ones(xp.size(rf)) * xp.pi / xp.size(rf)", 0, "caught"),
    ("abrm_rewinder_sign", SIM, "g = -2 * xp.pi / 2", "g = 2 * xp.pi / 2", 0, "caught"),
    ("abrm_rewinder_drop_abs", SIM, "phi = xp.abs(om) + eps", "phi = om + eps", 0, "caught"),
    ("abrm_rewinder_wrong_branch", SIM, "if balanced:  # apply a rewinder", "if not balanced:  # apply a rewinder", 0, "caught"),
    ("abrm_rewinder_b_not_conj", SIM, "            b = xp.conj(av) * b\n", "            b = av * b\n", 0, "caught"),
    # ---- sim.abrm_nd
    ("nd_eps_inside_phi", SIM, "phi = xp.sqrt(xp.abs(rf[mm]) ** 2 + om**2)\n", "phi = xp.sqrt(xp.abs(rf[mm]) ** 2 + om**2) + eps\n", 0, "caught"),
    ("nd_drop_eps_one_axis", SIM, "                    om / (phi + eps),", "                    om / phi,", 0, "caught"),
    ("nd_index_shift", SIM, "om = x @ g[mm, :]", "om = x @ g[mm - 1, :]", 0, "caught"),
    ("nd_transposed_index", SIM, "om = x @ g[mm, :]", "om = x @ g[:, mm]", 0, "caught"),
    # ---- sim.abrm_hp
    ("hp_phase_sign", SIM, "z = xp.exp(-1j * (xx * gamgdt[ii,] + dom0dt))", "z = xp.exp(1j * (xx * gamgdt[ii,] + dom0dt))", 0, "caught"),
    ("hp_drop_offres", SIM, "z = xp.exp(-1j * (xx * gamgdt[ii,] + dom0dt))", "z = xp.exp(-1j * (xx * gamgdt[ii,]))", 0, "caught"),
    ("hp_rf_before_gradient", SIM, "            z = xp.exp(-1j * (xx * gamgdt[ii,] + dom0dt))\n            b = b * z\n", "", 0, "caught"),
    ("hp_S_drops_1j", SIM, "S = 1j * xp.exp(1j * xp.angle(rf[ii])) * xp.sin(xp.abs(rf[ii]) / 2)", "S = xp.exp(1j * xp.angle(rf[ii])) * xp.sin(xp.abs(rf[ii]) / 2)", 0, "caught"),
    ("hp_S_cos_for_sin", SIM, "S = 1j * xp.exp(1j * xp.angle(rf[ii])) * xp.sin(xp.abs(rf[ii]) / 2)", "S = 1j * xp.exp(1j * xp.angle(rf[ii])) * xp.cos(xp.abs(rf[ii]) / 2)", 0, "caught"),
    ("hp_at_plus", SIM, "at = a * C - b * xp.conj(S)", "at = a * C + b * xp.conj(S)", 0, "caught"),
    ("hp_total_phase_not_halved", SIM, "z = xp.exp(1j / 2 * (xx * xp.sum(gamgdt, axis=0) + Nt * dom0dt))", "z = xp.exp(1j * (xx * xp.sum(gamgdt, axis=0) + Nt * dom0dt))", 0, "caught"),
    ("hp_total_phase_drops_Nt", SIM, "+ Nt * dom0dt))", "+ dom0dt))", 0, "caught"),
    ("hp_total_phase_only_a", SIM, "        a = a * z\n        b = b * z\n\n        return a, b\n\n\ndef abrm_ptx", "        a = a * z\n\n        return a, b\n\n\ndef abrm_ptx", 0, "caught"),
    # ---- sim.abrm_ptx
    ("ptx_gamma_constant", SIM, "gam = 267.522 * 1e6 / 1000", "gam = 267.522 * 1e6", 0, "caught"),
    ("ptx_drop_normfact_guard", SIM, "                normfact[xp.isinf(normfact)] = 0\n", "", 0, "caught"),
    ("ptx_normfact_no_dt", SIM, "normfact = dt * gam * (phi**-1)", "normfact = gam * (phi**-1)", 0, "caught"),
    ("ptx_beta_drop_conj", SIM, "beta = xp.expand_dims(1j * xp.conj(nxy) * sp, 1)", "beta = xp.expand_dims(1j * nxy * sp, 1)", 0, "caught"),
    ("ptx_alpha_sign", SIM, "alpha = xp.expand_dims(cp + 1j * nz * sp, 1)", "alpha = xp.expand_dims(cp - 1j * nz * sp, 1)", 0, "caught"),
    ("ptx_tmpb_sign", SIM, "tmpb = -xp.conj(beta) * statea + xp.conj(alpha) * stateb", "tmpb = xp.conj(beta) * statea + xp.conj(alpha) * stateb", 0, "caught"),
    ("ptx_b_out_not_negated", SIM, "b = -xp.conj(stateb)", "b = xp.conj(stateb)", 0, "caught"),
    ("ptx_sens_not_transposed", SIM, "            sens = xp.transpose(sens)\n", "", 0, "caught"),
    ("ptx_fmap_no_2pi", SIM, "bz += xp.transpose(rep_b0 / gam * 2 * xp.pi)", "bz += xp.transpose(rep_b0 / gam)", 0, "caught"),
    ("ptx_drop_expand_dims", SIM, "alpha = xp.expand_dims(cp + 1j * nz * sp, 1)", "alpha = cp + 1j * nz * sp", 0, "caught"),
    ("ptx_half_angle", SIM, "            cp = xp.cos(phi / 2)\n", "            cp = xp.cos(phi)\n", 0, "caught"),
    # ---- optcont.blochsim
    ("bs_skip_silent_samples", OPT, "            # apply RF\n", "            if rf[mm] == 0:\n                continue\n            # apply RF\n", 0, "caught"),
    ("bs_drop_gradient", OPT, "            b = b * z\n\n        # apply total", "\n        # apply total", 0, "caught"),
    ("bs_ndim_ge", OPT, "            if g.ndim > 1:\n                z = xp.exp(-1j", "            if g.ndim >= 1:\n                z = xp.exp(-1j", 0, "caught"),
    ("bs_phase_sign_nd", OPT, "z = xp.exp(-1j * x @ g[mm, :])", "z = xp.exp(1j * x @ g[mm, :])", 0, "caught"),
    ("bs_phase_sign_1d", OPT, "z = xp.exp(-1j * x * g[mm])", "z = xp.exp(1j * x * g[mm])", 0, "caught"),
    ("bs_ndim_test", OPT, "            if g.ndim > 1:\n                z = xp.exp(-1j", "            if g.ndim > 2:\n                z = xp.exp(-1j", 0, "caught"),
    ("bs_total_phase_full", OPT, "z = xp.exp(1j / 2 * x @ xp.sum(g, 0))", "z = xp.exp(1j * x @ xp.sum(g, 0))", 0, "caught"),
    ("bs_bt_wrong_operand", OPT, "bt = a * s + b * c", "bt = a * s + a * c", 0, "caught"),
    ("bs_range_start", OPT, "for mm in range(0, xp.size(rf), 1):", "for mm in range(1, xp.size(rf), 1):", 0, "caught"),
    # ---- slr.ab2rf
    ("slr_psi_of_quotient", SLR, "psi = np.angle(sj)", "psi = np.angle(b[ii] / a[ii])", 0, "caught"),
    ("slr_arctan2_swapped", SLR, "theta = np.arctan2(np.abs(sj), cj)", "theta = np.arctan2(cj, np.abs(sj))", 0, "caught"),
    ("slr_theta_not_doubled", SLR, "rf[ii] = 2 * theta * np.exp(1j * psi)", "rf[ii] = theta * np.exp(1j * psi)", 0, "caught"),
    ("slr_sj_drop_conj", SLR, "sj = np.conj(cj * b[ii] / a[ii])", "sj = cj * b[ii] / a[ii]", 0, "caught"),
    ("slr_cj_drop_square", SLR, "cj = np.sqrt(1 / (1 + np.abs(b[ii] / a[ii]) ** 2))", "cj = np.sqrt(1 / (1 + np.abs(b[ii] / a[ii])))", 0, "caught"),
    ("slr_bt_sign", SLR, "bt = -np.conj(sj) * a + cj * b", "bt = np.conj(sj) * a + cj * b", 0, "caught"),
    ("slr_slice_off_by_one", SLR, "a = at[1 : ii + 1 : 1]", "a = at[0:ii:1]", 0, "caught"),
    ("slr_index_off_by_one", SLR, "cj = np.sqrt(1 / (1 + np.abs(b[ii] / a[ii]) ** 2))", "cj = np.sqrt(1 / (1 + np.abs(b[ii - 1] / a[ii]) ** 2))", 0, "caught"),
    ("slr_guard_ge", SLR, "        if ii > 0:\n            at = cj * a + sj * b", "        if ii >= 0:\n            at = cj * a + sj * b", 0, "caught"),
    ("slr_range_start", SLR, "for ii in range(n - 1, -1, -1):\n        cj", "for ii in range(n - 2, -1, -1):\n        cj", 0, "caught"),
    # ---- semantics-preserving edits: the tie must survive them
    ("neutral_rename_local_g", SIM, "        g = xp.ones(xp.size(rf)) * 2 * xp.pi / xp.size(rf)\n\n        a = xp.ones(xp.size(x), dtype=xp.complex128)\n        b = xp.zeros(xp.size(x), dtype=xp.complex128)\n        for mm in range(xp.size(rf)):\n            om = x * g[mm]",
     "        grad = xp.ones(xp.size(rf)) * 2 * xp.pi / xp.size(rf)\n\n        a = xp.ones(xp.size(x), dtype=xp.complex128)\n        b = xp.zeros(xp.size(x), dtype=xp.complex128)\n        for mm in range(xp.size(rf)):\n            om = x * grad[mm]", 0, "pass"),
    ("neutral_rename_local_phi", SIM, "phi", "phi_angle", -1, "pass"),
    ("neutral_comment_docstring", OPT, "            # apply RF\n", "            # apply the RF rotation (hard pulse)\n            \"\"\"rotation\"\"\"\n", 0, "pass"),
    ("neutral_unused_local", SIM, "            # apply rf\n", "            # apply rf\n            unused_phase = xp.angle(rf[ii])\n", 0, "pass"),
    ("neutral_rename_loop_var", SLR, "    for ii in range(n - 1, -1, -1):\n        cj = np.sqrt(1 / (1 + np.abs(b[ii] / a[ii]) ** 2))\n        sj = np.conj(cj * b[ii] / a[ii])\n        theta = np.arctan2(np.abs(sj), cj)\n        psi = np.angle(sj)\n        rf[ii] = 2 * theta * np.exp(1j * psi)\n\n        # remove this rotation from polynomials\n        if ii > 0:\n            at = cj * a + sj * b\n            bt = -np.conj(sj) * a + cj * b\n            a = at[1 : ii + 1 : 1]\n            b = bt[0:ii:1]",
     "    for jj in range(n - 1, -1, -1):\n        cj = np.sqrt(1 / (1 + np.abs(b[jj] / a[jj]) ** 2))\n        sj = np.conj(cj * b[jj] / a[jj])\n        theta = np.arctan2(np.abs(sj), cj)\n        psi = np.angle(sj)\n        rf[jj] = 2 * theta * np.exp(1j * psi)\n\n        # remove this rotation from polynomials\n        if jj > 0:\n            at = cj * a + sj * b\n            bt = -np.conj(sj) * a + cj * b\n            a = at[1 : jj + 1 : 1]\n            b = bt[0:jj:1]", 0, "pass"),
    ("neutral_edit_outside_scope", SLR, "def b2a(b):\n    n = np.size(b)\n", "def b2a(b):\n    n = np.size(b) + 0\n", 0, "pass"),
    # harmless refactors that change the TERM are reported too (accepted: the check then relies on correspondence + oracles)
    ("refactor_commuted_product", SIM, "bt = bv * a + xp.conj(av) * b", "bt = a * bv + xp.conj(av) * b", 0, "caught"),
    ("refactor_phi_half_hoisted", SIM, "            cp = xp.cos(phi / 2)\n            sp = xp.sin(phi / 2)\n", "            hphi = phi * 0.5\n            cp = xp.cos(hphi)\n            sp = xp.sin(hphi)\n", 0, "caught"),
]


def nth_replace(text, old, new, k):
    if k == -1:
        assert old in text, old
        return text.replace(old, new)
    idx = -1
    for _ in range(k + 1):
        idx = text.find(old, idx + 1)
        if idx < 0:
            raise AssertionError("pattern not found (occurrence %d): %r" % (k, old))
    return text[:idx] + new + text[idx + len(old):]


def compile_gen(path):
    p = subprocess.run(["coqc", "-w", "-all", "-Q", core.COQ, "SV", path], cwd=os.path.dirname(path),
                       stdout=subprocess.PIPE, stderr=subprocess.STDOUT, text=True, timeout=600)
    return p.returncode, p.stdout


def one(name, srcs):
    d = os.path.join(SCRATCH, name)
    shutil.rmtree(d, ignore_errors=True)
    for rel, text in srcs.items():
        os.makedirs(os.path.dirname(os.path.join(d, rel)), exist_ok=True)
        with open(os.path.join(d, rel), "w") as f:
            f.write(text)
    try:
        text = T.translate_bloch(d)               # reads <d>/sigpy/mri/rf/*.py
    except T.TranslationError as e:
        return ("fails closed", str(e))
    path = os.path.join(d, "Gen_bloch.v")
    with open(path, "w") as f:
        f.write(text)
    rc, out = compile_gen(path)
    if rc == 0:
        return ("ok", "")
    return ("lemma fails", str(T.failing_lemma(text, out)))


def seeded_patches(src0):
    """the seeded changes of /verif/seeded/C19_m* (and any other that touches only the three files): informational"""
    out = []
    root = os.path.join(core.VERIF, "seeded")
    for name in sorted(os.listdir(root)) if os.path.isdir(root) else []:
        patch = os.path.join(root, name, "patch.diff")
        if not os.path.exists(patch):
            continue
        files = [l.split()[1][2:] for l in open(patch) if l.startswith("+++ ")]
        if not files or not set(files) <= set(T.FILES):
            continue
        d = os.path.join(SCRATCH, "seeded_src_" + name)
        shutil.rmtree(d, ignore_errors=True)
        for rel, text in src0.items():
            os.makedirs(os.path.dirname(os.path.join(d, rel)), exist_ok=True)
            open(os.path.join(d, rel), "w").write(text)
        p = subprocess.run(["patch", "-p1", "-s", "--no-backup-if-mismatch", "-d", d, "-i", patch],
                           stdout=subprocess.PIPE, stderr=subprocess.STDOUT, text=True)
        if p.returncode:
            out.append(("seeded:" + name, None, "does not apply"))
            continue
        out.append(("seeded:" + name, {rel: open(os.path.join(d, rel)).read() for rel in T.FILES}, "info"))
        shutil.rmtree(d, ignore_errors=True)
    return out


def main():
    pos = [a for a in sys.argv[1:] if not a.startswith("--")]
    repo = pos[0] if pos else core.REPO
    t0 = time.time()
    ok, log = core.coq_make(["model/Bloch.vo", "proofs/Slr2.vo"], timeout=1500)
    if not ok:
        print("cannot build the hand model:\n" + log[-1500:])
        return 2
    src0 = T.read_sources(repo)
    jobs = [("UNMODIFIED", src0, "pass")]
    for name, rel, old, new, k, expect in MUTATIONS:
        srcs = dict(src0)
        srcs[rel] = nth_replace(srcs[rel], old, new, k)
        jobs.append((name, srcs, expect))
    if "--no-seeded" not in sys.argv:
        jobs += [j for j in seeded_patches(src0) if j[1] is not None]
    with concurrent.futures.ThreadPoolExecutor(max_workers=8) as ex:
        results = list(ex.map(lambda j: one(j[0], j[1]), jobs))
    bad = 0
    print("%-30s %-8s %-9s %s" % ("mutation", "expected", "verdict", "how"))
    for (name, _, expect), res in zip(jobs, results):
        verdict = "pass" if res[0] == "ok" else "caught"
        good = verdict == expect or expect == "info"
        bad += 0 if good else 1
        print("%-30s %-8s %-9s %s%s" % (name, expect, verdict + ("" if good else " (!!)"), res[0], (": " + res[1][:200]) if res[1] else ""))
    print("%d cases, %d unexpected, %.1fs" % (len(jobs), bad, time.time() - t0))
    return 1 if bad else 0


if __name__ == "__main__":
    sys.exit(main())
