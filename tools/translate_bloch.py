#!/usr/bin/env python3
"""Fail-closed translator: the Bloch simulators and the inverse SLR peeling loop (Python `ast`) -> Gallina.

From the SOURCE TEXT of
    sigpy/mri/rf/sim.py      abrm, abrm_nd, abrm_hp, abrm_ptx
    sigpy/mri/rf/optcont.py  blochsim
    sigpy/mri/rf/slr.py      ab2rf
it regenerates, on every run, coq/gen/Gen_bloch.v: for ONE spatial position (numpy broadcasting over positions is the
reading of model/Bloch.v), every `for` loop BODY as a state transformer `gen_<f>_step`, the loop as a fold over the sample
list `gen_<f>_loop`, and the whole function `gen_<f>`, over the operations record FOps + trig oracle `cs` of
coq/model/Bloch.v, each followed by a machine-checked lemma `gen_<f>[_step|_loop]_ok : generated = hand model`.
Step and whole-function lemmas: unfolding, case analysis on the tests / oracle values that occur, reflexivity.  Loop
lemmas: the two fixed congruence lemmas of the prelude (fold_left is extensional; fold_left over a map) + the step lemma.

See notes/translate_bloch.md for the accepted fragment, the normal form and the trusted readings.
Entry points: translate_bloch(repo) -> text; tie(ctx) for props/C19.py; tools/test_translate_bloch.py is the self-test.
"""
import ast
import hashlib
import os
import re
import sys


class TranslationError(Exception):
    pass


RESERVED = set("""at as in end match with let fun fix cofix forall exists if then else return for where using Type Prop Set
 struct cs st ab F two half dot cdot fsum vsum c0 c1 cadd csub cmul cconj cneg cscale cabs2 cdiv f0 f1 fadd fsub fmul fdiv fopp
 fsqrt fabs fofZ fis0 fst snd map length repeat last tl removelast zipw combine fold_left Z nat list bool true false S O
 unit_phasor State Cx atan2 angle gen_countdown pi m I R C Q N""".split())


def ap(f, *args):
    return "(%s %s)" % (f, " ".join(args))


# ---------------------------------------------------------------------------------------------------------------
# symbolic scalars: a real is a SIGNED term (negation floats out of products and quotients: exact in IEEE); a complex
# number has components (signed terms, None = exact zero) and/or a whole term of type Cx
# ---------------------------------------------------------------------------------------------------------------
class R:
    def __init__(self, t, neg=False, angle_of=None, abs_of=None, inf_when=None, halves=0):
        self.t, self.neg, self.angle_of, self.abs_of, self.inf_when, self.halves = t, neg, angle_of, abs_of, inf_when, halves

    def flip(self):
        return R(self.t, not self.neg, inf_when=self.inf_when, halves=self.halves)


def uterm(r):
    """the term without its sign; pending halvings (from `1j / 2 * ...`) are applied outermost: exact in IEEE"""
    if r.t is None:
        raise TranslationError("np.angle(z) is only read inside exp(1j*angle(z))")
    t = r.t
    for _ in range(r.halves):
        t = ap("half", t)
    return t


def rterm(r):
    return ap("fopp", uterm(r)) if r.neg else uterm(r)


def comp(r):
    return "f0" if r is None else rterm(r)


class C:
    def __init__(self, whole=None, re=None, im=None, scaled=None, inf_when=None, proj=None):
        if whole is not None and re is None and im is None:
            re, im = R(ap("fst", whole)), R(ap("snd", whole))
        self.whole, self.re, self.im, self.scaled, self.inf_when, self.proj = whole, re, im, scaled, inf_when, proj


def cwhole(c):
    return c.whole if c.whole is not None else "(%s, %s)" % (comp(c.re), comp(c.im))


def neg_comp(r):
    return None if r is None else r.flip()


class V:
    """a run-time value of the symbolic execution; ax = labelled axes (P position, T time, D gradient dim, C coil, 1)"""
    def __init__(self, kind, val=None, ax=(), **kw):
        self.kind, self.val, self.ax = kind, val, tuple(ax)
        self.__dict__.update(kw)

    def get(self, k, d=None):
        return self.__dict__.get(k, d)


def num(x):
    return V("num", x)


def real(r, ax=()):
    return V("real", r if isinstance(r, R) else R(r), ax)


def cplx(c, ax=()):
    return V("cplx", c if isinstance(c, C) else C(whole=c), ax)


def dim(label, off=0):
    return V("dim", label, off=off)


# ---------------------------------------------------------------------------------------------------------------
# arithmetic of symbolic values (the readings are documented in notes/translate_bloch.md, "normal form")
# ---------------------------------------------------------------------------------------------------------------
class Arith:
    """mixin of Tr: binary / unary operations.  self.fail(msg) raises TranslationError with the current source line."""

    def lit_real(self, x):
        """a Python number in a floating-point position"""
        if isinstance(x, bool):
            self.fail("a boolean in an arithmetic position")
        if isinstance(x, int):
            pos = {0: "f0", 1: "f1", 2: "two"}.get(abs(x), ap("fofZ", str(abs(x))))
            return R(ap("fopp", pos)) if x < 0 else R(pos)       # a negative LITERAL is an atom (-2 -> fopp two)
        for k, name in self.spec.get("consts", {}).items():
            if x == k:
                return R(name)
        self.fail("float constant %r is not a constant of the hand model (%s)" % (x, sorted(self.spec.get("consts", {}))))

    def dim_nat(self, v):
        t = self.spec.get("dims", {}).get(v.val)
        if t is None or v.off:
            self.fail("the size %s%+d has no reading as a list length here" % (v.val, v.off))
        return t

    def lift(self, v):
        """num / dim -> real"""
        if v.kind == "num":
            return real(self.lit_real(v.val))
        if v.kind == "dim":
            return real(R(ap("fofZ", ap("Z.of_nat", self.dim_nat(v)))))
        return v

    def to_cplx(self, v):
        v = self.lift(v)
        if v.kind == "cplx":
            return v
        if v.kind == "real":
            r = v.val
            if not r.neg and r.t in ("f1", "f0"):
                return cplx(C(whole={"f1": "c1", "f0": "c0"}[r.t]), v.ax)
            return cplx(C(re=r, im=None), v.ax)
        self.fail("a %s where a complex number is needed" % v.kind)

    def bcast(self, a, b):
        if a.ax == b.ax or not b.ax:
            return a.ax
        if not a.ax:
            return b.ax
        self.fail("shapes %s and %s do not broadcast elementwise per position" % (a.ax, b.ax))

    # ----- lifting over time arrays and polynomial arrays
    def tmap(self, f, *vs):
        ax = None
        for v in vs:
            if v.kind == "tarr":
                if ax is not None and ax != v.ax:
                    self.fail("time arrays of shapes %s and %s combined elementwise" % (ax, v.ax))
                ax = v.ax
            elif v.kind not in ("num", "real", "dim") or v.ax:
                self.fail("a %s%s combined elementwise with a time array" % (v.kind, list(v.ax)))
        const = all(v.get("const") for v in vs if v.kind == "tarr")
        return V("tarr", None, ax, cell=lambda smp: f(*[v.cell(smp) if v.kind == "tarr" else v for v in vs]), const=const)

    def pmap(self, f, *vs):
        bases, plen = [], None
        for v in vs:
            if v.kind == "poly":
                if plen is not None and plen != v.plen:
                    self.fail("coefficient arrays of different lengths combined elementwise")
                plen = v.plen
                for b in v.bases:
                    if b not in bases:
                        bases.append(b)
            elif v.kind not in ("num", "real", "cplx"):
                self.fail("a %s combined elementwise with a coefficient array" % v.kind)

        def fn(elts):
            return f(*[v.fn(elts) if v.kind == "poly" else v for v in vs])
        return V("poly", None, bases=bases, plen=plen, fn=fn)

    def lifted(self, f, a, b):
        if "tarr" in (a.kind, b.kind):
            return self.tmap(f, a, b)
        if "poly" in (a.kind, b.kind):
            return self.pmap(f, a, b)
        return None

    # ----- multiplication
    def iunit_times(self, u, o):
        sign, halves = u.val
        if o.kind == "list":
            if o.dtype != "R" or o.imag:
                self.fail("1j times a complex array")
            return V("list", o.val, o.ax, dtype="R", neg=(o.neg != (sign < 0)), imag=True, halves=o.halves + halves)
        o = self.lift(o)
        if o.kind == "real":
            r = o.val
            if r.angle_of is not None:
                if halves or sign < 0:
                    self.fail("only exp(1j*angle(z)) is read")
                return cplx(C(re=None, im=r), o.ax)
            if r.t is None:
                self.fail("np.angle(z) is only read inside exp(1j*angle(z))")
            return cplx(C(re=None, im=R(r.t, r.neg != (sign < 0), halves=r.halves + halves)), o.ax)   # (1j/2)*t = 1j*(t/2)
        if o.kind == "cplx":
            if halves:
                self.fail("(1j / 2) times a complex number")
            c = o.val
            re, im = neg_comp(c.im), c.re                          # 1j * (x + 1j*y) = -y + 1j*x
            if sign < 0:
                re, im = neg_comp(re), neg_comp(im)
            return cplx(C(re=re, im=im), o.ax)
        self.fail("1j times a %s" % o.kind)

    def mul(self, a, b):
        if a.kind == "num" and b.kind == "num":
            return num(a.val * b.val)
        if a.kind == "dim" and b.kind == "dim" and a.val == b.val and a.val.startswith("sqrt:") and not a.off and not b.off:
            return dim(a.val[5:])                                  # int(sqrt(Ns)) ** 2 = Ns (a square grid of positions)
        lf = self.lifted(self.mul, a, b)
        if lf is not None:
            return lf
        if a.kind == "iunit" or b.kind == "iunit":
            if a.kind == b.kind:
                self.fail("1j * 1j")
            return self.iunit_times(a, b) if a.kind == "iunit" else self.iunit_times(b, a)
        a, b = self.lift(a), self.lift(b)
        if a.kind == "list" or b.kind == "list":
            self.fail("an array over gradient dimensions / coils times a %s (only `@` is read)" % (b.kind if a.kind == "list" else a.kind))
        if a.kind not in ("real", "cplx") or b.kind not in ("real", "cplx"):
            self.fail("product of a %s and a %s" % (a.kind, b.kind))
        ax = self.bcast(a, b)
        if a.kind == "real" and b.kind == "real":
            x, y = a.val, b.val
            if x.t is None or y.t is None:
                self.fail("np.angle(z) is only read inside exp(1j*angle(z))")
            return real(R(ap("fmul", x.t, y.t), x.neg != y.neg, inf_when=x.inf_when or y.inf_when, halves=x.halves + y.halves), ax)
        if a.kind == "cplx" and b.kind == "cplx":
            return cplx(C(whole=ap("cmul", cwhole(a.val), cwhole(b.val)), inf_when=a.val.inf_when or b.val.inf_when), ax)
        r, c, r_first = (a.val, b.val, True) if a.kind == "real" else (b.val, a.val, False)
        if c.whole is not None:                                    # real * complex value (either order) = cscale real complex
            w = ap("cscale", rterm(r), c.whole)
            return cplx(C(whole=w, scaled=(r, c), inf_when=r.inf_when or c.inf_when), ax)

        def m(k):
            if k is None:
                return None
            if r.t is None or k.t is None:
                self.fail("np.angle(z) is only read inside exp(1j*angle(z))")
            return R(ap("fmul", r.t, k.t) if r_first else ap("fmul", k.t, r.t), r.neg != k.neg, halves=r.halves + k.halves)
        return cplx(C(re=m(c.re), im=m(c.im), inf_when=r.inf_when or c.inf_when), ax)

    # ----- division
    def div(self, a, b):
        if a.kind == "num" and b.kind == "num":
            return num(a.val / b.val)
        if a.kind == "iunit" and b.kind == "num" and b.val == 2 and not isinstance(b.val, bool):
            return V("iunit", (a.val[0], a.val[1] + 1))
        lf = self.lifted(self.div, a, b)
        if lf is not None:
            return lf
        two = b.kind == "num" and b.val == 2 and isinstance(b.val, int)
        a, b = self.lift(a), self.lift(b)
        if a.kind not in ("real", "cplx") or b.kind not in ("real", "cplx"):
            self.fail("quotient of a %s and a %s" % (a.kind, b.kind))
        ax = self.bcast(a, b)
        if a.kind == "real" and b.kind == "real":
            x, y = a.val, b.val
            if two:
                return real(R(ap("half", uterm(x)), x.neg, inf_when=x.inf_when), ax)
            return real(R(ap("fdiv", uterm(x), uterm(y)), x.neg != y.neg, inf_when=x.inf_when), ax)
        if a.kind == "cplx" and b.kind == "cplx":
            c = a.val
            if c.scaled is not None:                               # (r * z) / w  is read  r * (z / w)  (the hand model's association)
                r, z = c.scaled
                q = C(whole=ap("cdiv", cwhole(z), cwhole(b.val)))
                return cplx(C(whole=ap("cscale", rterm(r), q.whole), scaled=(r, q)), ax)
            return cplx(C(whole=ap("cdiv", cwhole(c), cwhole(b.val))), ax)
        self.fail("quotient of a %s and a %s" % (a.kind, b.kind))

    # ----- power
    def pow(self, a, b):
        if b.kind != "num" or isinstance(b.val, bool) or b.val not in (2, -1):
            self.fail("only `** 2` and `** -1` are read")
        if a.kind == "num":
            return num(a.val ** b.val)
        if a.kind in ("tarr", "poly"):
            return self.lifted(self.pow, a, b)
        a = self.lift(a)
        if a.kind != "real":
            self.fail("power of a %s" % a.kind)
        r = a.val
        if b.val == 2:
            if r.abs_of is not None:
                return real(R(ap("cabs2", cwhole(r.abs_of))), a.ax)    # np.abs(z) ** 2 = re^2 + im^2
            return real(R(ap("fmul", uterm(r), uterm(r))), a.ax)
        return real(R(ap("fdiv", "f1", uterm(r)), r.neg, inf_when=uterm(r)), a.ax)   # infinite exactly when the base is 0

    # ----- addition / subtraction
    def addsub(self, a, b, sub):
        if a.kind == "num" and b.kind == "num":
            return num(a.val - b.val if sub else a.val + b.val)
        if a.kind == "dim" and b.kind == "num" and isinstance(b.val, int) and not isinstance(b.val, bool):
            return dim(a.val, a.off + (-b.val if sub else b.val))
        lf = self.lifted(lambda x, y: self.addsub(x, y, sub), a, b)
        if lf is not None:
            return lf
        a, b = self.lift(a), self.lift(b)
        if a.kind not in ("real", "cplx") or b.kind not in ("real", "cplx"):
            self.fail("%s of a %s and a %s" % ("difference" if sub else "sum", a.kind, b.kind))
        ax = self.bcast(a, b)
        if a.kind == "real" and b.kind == "real":
            return real(R(ap("fsub" if sub else "fadd", rterm(a.val), rterm(b.val))), ax)
        ca = a.val if a.kind == "cplx" else C(re=a.val, im=None)
        cb = b.val if b.kind == "cplx" else C(re=b.val, im=None)

        def structural(c):
            return c.whole is None
        if structural(ca) and structural(cb) and (ca.re is None or cb.re is None) and (ca.im is None or cb.im is None):
            def pick(x, y):                                       # one of them is an exact zero: no arithmetic
                if y is None:
                    return x
                return neg_comp(y) if sub else y
            return cplx(C(re=pick(ca.re, cb.re), im=pick(ca.im, cb.im)), ax)
        if a.kind == "real" or b.kind == "real":
            self.fail("a real number added to a general complex value")
        return cplx(C(whole=ap("csub" if sub else "cadd", cwhole(ca), cwhole(cb))), ax)

    def negate(self, a):
        if a.kind == "num":
            return num(-a.val)
        if a.kind == "iunit":
            return V("iunit", (-a.val[0], a.val[1]))
        if a.kind in ("tarr", "poly"):
            return (self.tmap if a.kind == "tarr" else self.pmap)(self.negate, a)
        a = self.lift(a)
        if a.kind == "real":
            return real(a.val.flip(), a.ax)
        if a.kind == "cplx":
            c = a.val
            if c.whole is not None:
                return cplx(C(whole=ap("cneg", c.whole), re=neg_comp(c.re), im=neg_comp(c.im)), a.ax)
            return cplx(C(re=neg_comp(c.re), im=neg_comp(c.im)), a.ax)
        self.fail("negation of a %s" % a.kind)

    # ----- matrix product: the contraction over the gradient dimensions (real: dot) or the coils (complex: cdot)
    def matmul(self, a, b):
        if b.kind == "tarr":
            if a.kind != "list" or len(b.ax) != 2 or b.ax[1] != "T" or a.ax[-1:] != b.ax[:1]:
                self.fail("matrix product of shapes %s @ %s" % (a.ax, b.ax))
            return V("tarr", None, a.ax[:-1] + ("T",), cell=lambda smp: self.matmul(a, b.cell(smp)))
        if a.kind != "list" or b.kind != "list" or not a.ax or not b.ax or a.ax[-1] != b.ax[0] or len(b.ax) != 1:
            self.fail("matrix product of a %s%s and a %s%s" % (a.kind, list(a.ax), b.kind, list(b.ax)))
        ax = a.ax[:-1]
        if b.neg or b.imag or b.halves:
            self.fail("matrix product with a scaled right operand")
        if a.dtype == "R" and b.dtype == "R":
            r = R(ap("dot", a.val, b.val), a.neg, halves=a.halves)
            return cplx(C(re=None, im=r), ax) if a.imag else real(r, ax)     # (1j*x) @ g = 1j*(x @ g): exact
        if a.imag or a.neg or a.halves:
            self.fail("matrix product with a scaled complex operand")
        if b.dtype == "C":
            la = a.val
            if a.dtype == "R":
                if not a.get("ones"):
                    self.fail("a real array @ a complex array")
                la = a.ones                                            # np.ones promoted to complex: 1 + 0j
            return cplx(C(whole=ap("cdot", la, b.val)), ax)
        self.fail("matrix product of a complex and a real array")


# ---------------------------------------------------------------------------------------------------------------
# expressions
# ---------------------------------------------------------------------------------------------------------------
class Expr:
    """mixin of Tr: evaluation of Python expressions to symbolic values"""

    def ev(self, n, env):
        self.node = n if hasattr(n, "lineno") else self.node
        if isinstance(n, ast.Constant):
            v = n.value
            if v is None:
                return V("none")
            if isinstance(v, bool) or isinstance(v, (int, float)):
                return num(v)
            if isinstance(v, complex) and v == 1j:
                return V("iunit", (1, 0))
            self.fail("constant %r" % (v,))
        if isinstance(n, ast.Name):
            if n.id in env:
                return env[n.id]
            self.fail("name `%s` is not defined on this path" % n.id)
        if isinstance(n, ast.Tuple):
            return V("tuple", [self.ev(e, env) for e in n.elts])
        if isinstance(n, ast.UnaryOp) and isinstance(n.op, ast.USub):
            return self.negate(self.ev(n.operand, env))
        if isinstance(n, ast.BinOp):
            a, b = self.ev(n.left, env), self.ev(n.right, env)
            self.node = n
            if isinstance(n.op, ast.Mult):
                return self.mul(a, b)
            if isinstance(n.op, ast.Div):
                return self.div(a, b)
            if isinstance(n.op, ast.Add):
                return self.addsub(a, b, False)
            if isinstance(n.op, ast.Sub):
                return self.addsub(a, b, True)
            if isinstance(n.op, ast.Pow):
                return self.pow(a, b)
            if isinstance(n.op, ast.MatMult):
                return self.matmul(a, b)
            self.fail("operator %s" % type(n.op).__name__)
        if isinstance(n, ast.Attribute):
            return self.attr(n, env)
        if isinstance(n, ast.Call):
            return self.call(n, env)
        if isinstance(n, ast.Subscript):
            return self.subscript(self.ev(n.value, env), n.slice, env)
        self.fail("expression %s" % type(n).__name__)

    def shape_of(self, v):
        if v.kind == "poly":
            return [dim("N")] if v.plen == ("N", 0) else self.fail("the size of a shrunk coefficient array")
        if v.kind in ("real", "cplx", "list", "tarr") and v.ax:
            return [num(1) if a == "1" else dim(a) for a in v.ax]
        self.fail("shape of a %s%s" % (v.kind, list(v.ax)))

    def attr(self, n, env):
        o = self.ev(n.value, env)
        self.node = n
        if o.kind == "xp":
            if n.attr == "pi":
                if "pi" not in self.spec:
                    self.fail("pi is not an operation of this model")
                return real(R(self.spec["pi"]))
            if n.attr == "complex128":
                return V("dtype", "C")
            self.fail("%s.%s" % (n.value.id if isinstance(n.value, ast.Name) else "xp", n.attr))
        if o.kind == "device" and n.attr == "xp":
            return V("xp")
        if n.attr == "shape":
            return V("tuple", self.shape_of(o))
        if n.attr == "ndim" and o.kind in ("real", "cplx", "list", "tarr"):
            return num(len(o.ax))
        self.fail("attribute .%s of a %s" % (n.attr, o.kind))

    # ----- subscripts (loads)
    def is_full_slice(self, s):
        return isinstance(s, ast.Slice) and s.lower is None and s.upper is None and s.step is None

    def subscript(self, v, sl, env):
        idx = list(sl.elts) if isinstance(sl, ast.Tuple) else [sl]
        if v.kind == "tuple":
            if v.get("cols"):
                if len(idx) == 2 and self.is_full_slice(idx[0]) and isinstance(idx[1], ast.Constant) and isinstance(idx[1].value, int) \
                        and 0 <= idx[1].value < len(v.val):
                    return v.val[idx[1].value]
                self.fail("only n[:, k] is read on a column_stack")
            if len(idx) == 1 and isinstance(idx[0], ast.Constant) and isinstance(idx[0].value, int) and 0 <= idx[0].value < len(v.val):
                return v.val[idx[0].value]
            self.fail("tuple index")
        if v.kind == "tarr":
            if len(idx) > len(v.ax):
                self.fail("too many indices")
            pos = None
            for k, e in enumerate(idx):
                if self.is_full_slice(e):
                    continue
                iv = self.ev(e, env) if isinstance(e, ast.Name) else None
                if iv is None or iv.kind != "lv" or pos is not None:
                    self.fail("a time array may only be indexed by the loop variable itself")
                pos = k
            if pos is None or v.ax[pos] != "T":
                self.fail("the loop variable indexes axis %s of an array of shape %s (not its time axis)" % (pos, list(v.ax)))
            if self.smp is None:
                self.fail("time sample read outside the loop")
            return v.cell(self.smp)
        if v.kind == "poly":
            return self.poly_subscript(v, sl, env)
        self.fail("subscript of a %s" % v.kind)

    # ----- calls
    def kwargs(self, n, allowed):
        out = {}
        for k in n.keywords:
            if k.arg not in allowed:
                self.fail("keyword argument %s" % k.arg)
            out[k.arg] = k.value
        return out

    def call(self, n, env):
        f = n.func
        if isinstance(f, ast.Name):
            if f.id == "int" and len(n.args) == 1 and not n.keywords and "int" not in env:
                a = self.ev(n.args[0], env)
                if a.kind == "dimsqrt":
                    return dim("sqrt:" + a.val)
                self.fail("int() of a %s" % a.kind)
            self.fail("call of %s" % f.id)
        if not isinstance(f, ast.Attribute):
            self.fail("call of a computed function")
        o = self.ev(f.value, env)
        self.node = n
        if o.kind == "backend" and f.attr == "get_device" and len(n.args) == 1 and not n.keywords:
            self.ev(n.args[0], env)
            return V("device")
        if o.kind == "xp":
            return self.call_xp(f.attr, n, env)
        if f.attr == "flatten" and not n.args and not n.keywords and o.kind in ("real", "cplx") and o.ax == ("M",):
            return V(o.kind, o.val, ("P",))                      # a position-shaped map, one value per position
        if f.attr == "astype" and len(n.args) == 1 and not n.keywords and o.kind == "poly":
            d = self.ev(n.args[0], env)
            if d.kind == "dtype" and d.val == "C":
                return o
        self.fail("method .%s of a %s" % (f.attr, o.kind))

    def shape_arg(self, v):
        items = v.val if v.kind == "tuple" else [v]
        out = []
        for d in items:
            if d.kind == "dim" and not d.off:
                out.append(d.val)
            elif d.kind == "num" and d.val == 1 and not isinstance(d.val, bool):
                out.append("1")
            else:
                self.fail("array size %s" % d.kind)
        return tuple(out)

    def call_xp(self, name, n, env):
        args = [self.ev(a, env) for a in n.args]
        self.node = n
        na = len(args)
        if name in ("ones", "zeros"):
            kw = self.kwargs(n, ("dtype",))
            if na != 1:
                self.fail("xp.%s arguments" % name)
            cx = False
            if "dtype" in kw:
                d = self.ev(kw["dtype"], env)
                if d.kind != "dtype":
                    self.fail("dtype")
                cx = d.val == "C"
            shp = self.shape_arg(args[0])
            one = name == "ones"
            val = cplx(C(whole="c1" if one else "c0")) if cx else real(R("f1" if one else "f0"))
            if all(a in ("P", "1") for a in shp) and shp[:1] == ("P",):
                return V(val.kind, val.val, shp)
            if shp == ("T",):
                return V("tarr", None, shp, cell=lambda smp: val, const=True)
            if shp == ("P", "C") and one and not cx and "C" in self.spec.get("dims", {}):
                nc = self.spec["dims"]["C"]
                return V("list", ap("repeat", "f1", nc), shp, dtype="R", neg=False, imag=False, halves=0, ones=ap("repeat", "c1", nc))
            if shp == ("N",) and not one and cx:
                return V("out")
            self.fail("xp.%s of shape %s" % (name, list(shp)))
        if n.keywords and name not in ("sum", "repeat"):
            self.fail("keyword arguments of xp.%s" % name)
        if name == "size" and na == 1:
            s = self.shape_of(args[0])
            if len(s) != 1:
                self.fail("xp.size of an array of shape %s" % list(args[0].ax))
            return s[0]
        if name == "shape" and na == 1:
            return V("tuple", self.shape_of(args[0]))
        if name in ("arange", ) and na == 1 and args[0].kind == "dim":
            return V("range", [num(0), args[0], num(1)])
        if name == "multiply" and na == 2:
            return self.mul(args[0], args[1])
        if name == "column_stack" and na == 1 and args[0].kind == "tuple" and all(a.kind == "real" and a.ax == ("P",) for a in args[0].val):
            return V("tuple", args[0].val, cols=True)
        if name == "sum":
            kw = self.kwargs(n, ("axis",))
            axis = None
            if "axis" in kw:
                axis = self.ev(kw["axis"], env)
                if na != 1:
                    self.fail("xp.sum arguments")
            elif na == 2:
                axis = args[1]
            elif na != 1:
                self.fail("xp.sum arguments")
            a = args[0]
            if axis is not None and not (axis.kind == "num" and axis.val == 0 and not isinstance(axis.val, bool)):
                self.fail("xp.sum over an axis other than 0")
            if a.kind != "tarr" or a.ax[0] != "T":
                self.fail("xp.sum of a %s%s" % (a.kind, list(a.ax)))
            if len(a.ax) == 1 and a.get("tlist"):
                return real(R(ap("fsum", a.tlist)))
            if len(a.ax) == 2 and axis is not None and a.get("tsum0"):
                return V("list", a.tsum0, a.ax[1:], dtype="R", neg=False, imag=False, halves=0)
            self.fail("xp.sum of this array has no reading in the model")
        if name == "transpose" and na == 1:
            a = args[0]
            if (a.kind == "tarr" and len(a.ax) == 2) or (a.kind == "list" and a.get("raw")):
                w = V(a.kind, a.val, tuple(reversed(a.ax)))
                w.__dict__.update({k: v for k, v in a.__dict__.items() if k not in ("kind", "val", "ax", "tlist", "tsum0")})
                return w
            self.fail("xp.transpose of a %s%s" % (a.kind, list(a.ax)))
        if name == "reshape" and na == 2:
            a, shp = args[0], self.shape_arg(args[1])
            if a.kind == "list" and a.get("raw") and a.ax == ("Pb", "Pa", "C") and shp == ("P", "C"):
                w = V("list", a.val, shp)
                w.__dict__.update({k: v for k, v in a.__dict__.items() if k not in ("kind", "val", "ax", "raw")})
                return w
            self.fail("xp.reshape of an array of shape %s to %s" % (list(a.ax), list(shp)))
        if name == "expand_dims" and na == 2 and args[1].kind == "num" and not isinstance(args[1].val, bool):
            a, k = args[0], args[1].val
            if a.kind in ("real", "cplx") and a.ax == ("P",) and k in (0, 1):
                return V(a.kind, a.val, ("1", "P") if k == 0 else ("P", "1"))
            self.fail("xp.expand_dims(%s%s, %r)" % (a.kind, list(a.ax), k))
        if name == "repeat":
            kw = self.kwargs(n, ("axis",))
            if na == 2 and "axis" in kw:
                axis = self.ev(kw["axis"], env)
                a, cnt = args
                if a.kind == "real" and a.ax == ("1", "P") and cnt.kind == "dim" and cnt.val == "T" and not cnt.off \
                        and axis.kind == "num" and axis.val == 0:
                    cellv = real(a.val, ("P",))
                    return V("tarr", None, ("T", "P"), cell=lambda smp: cellv)
            self.fail("xp.repeat")
        if na == 2 and name == "arctan2" and self.ext:
            y, x = self.lift(args[0]), self.lift(args[1])
            if y.kind == "real" and x.kind == "real":
                return real(R(ap("atan2", rterm(y.val), rterm(x.val))), self.bcast(y, x))
            self.fail("arctan2 of a %s and a %s" % (y.kind, x.kind))
        if na != 1:
            self.fail("xp.%s with %d arguments" % (name, na))
        a = args[0]
        if a.kind == "tarr" and name in ("abs", "sqrt", "real", "imag", "conj", "cos", "sin", "exp"):
            return self.tmap(lambda v: self.fun1(name, v), a)
        if a.kind == "poly" and name in ("conj",):
            return self.pmap(lambda v: self.fun1(name, v), a)
        return self.fun1(name, a)

    def fun1(self, name, a):
        if name == "sqrt" and a.kind == "dim" and not a.off:
            return V("dimsqrt", a.val)
        a = self.lift(a)
        if a.kind not in ("real", "cplx"):
            self.fail("xp.%s of a %s" % (name, a.kind))
        isr = a.kind == "real"
        if name == "sqrt" and isr:
            return real(R(ap("fsqrt", rterm(a.val))), a.ax)
        if name == "abs":
            if isr:
                return real(R(ap("fabs", rterm(a.val))), a.ax)
            return real(R(ap("fsqrt", ap("cabs2", cwhole(a.val))), abs_of=a.val), a.ax)
        if name in ("real", "imag") and not isr:
            k = a.val.re if name == "real" else a.val.im
            return real(k if k is not None else R("f0"), a.ax)
        if name in ("cos", "sin") and isr:
            return real(R(ap("fst" if name == "cos" else "snd", ap("cs", rterm(a.val)))), a.ax)
        if name == "conj":
            if isr:
                return a
            c = a.val
            return cplx(C(whole=None if c.whole is None else ap("cconj", c.whole), re=c.re, im=neg_comp(c.im)), a.ax)
        if name == "angle" and not isr:
            if self.ext:
                return real(R(ap("angle", cwhole(a.val))), a.ax)
            return real(R(None, angle_of=a.val), a.ax)
        if name == "exp" and not isr and a.val.re is None and a.val.im is not None and a.val.whole is None:
            t = a.val.im
            if t.angle_of is not None:                            # exp(1j*angle(z)) = z/|z|, 1 at z = 0 (the model's unit_phasor)
                return cplx(C(whole=ap("unit_phasor", cwhole(t.angle_of))), a.ax)
            arg = ap("cs", uterm(t))                                   # exp(-1j*t) = conj(exp(1j*t)): the oracle is asked at t
            return cplx(C(re=R(ap("fst", arg)), im=R(ap("snd", arg), t.neg)), a.ax)
        self.fail("xp.%s of a %s value" % (name, "real" if isr else "complex"))


# ---------------------------------------------------------------------------------------------------------------
# statements, loops, one generated function family per spec
# ---------------------------------------------------------------------------------------------------------------
def names_in(node, ctx):
    return {n.id for n in ast.walk(node) if isinstance(n, ast.Name) and isinstance(n.ctx, ctx)}


def flat(stmts):
    out = []
    for s in stmts:
        if isinstance(s, ast.With):
            out += flat(s.body)
        else:
            out.append(s)
    return out


def rw(s):
    """(reads, writes) of a simple statement; a subscript store reads and writes its base"""
    if isinstance(s, ast.Assign):
        reads, writes = names_in(s.value, ast.Load), set()
        for t in s.targets:
            writes |= names_in(t, ast.Store)
            if isinstance(t, ast.Subscript):
                reads |= names_in(t, ast.Load)
                writes |= names_in(t.value, ast.Load)
        return reads, writes
    if isinstance(s, ast.AugAssign):
        w = names_in(s.target, ast.Store) | names_in(s.target, ast.Load)
        return names_in(s.value, ast.Load) | w, w
    if isinstance(s, ast.If):
        reads, writes = names_in(s.test, ast.Load), set()
        for b in flat(s.body) + flat(s.orelse):
            r, w = rw(b)
            reads |= r - writes
            writes |= w
        return reads, writes
    if isinstance(s, ast.Expr) and isinstance(s.value, ast.Constant):
        return set(), set()
    return names_in(s, ast.Load), names_in(s, ast.Store)


class Tr(Arith, Expr):
    def __init__(self, spec, fn, src_lines, relpath):
        self.spec, self.fn, self.src_lines, self.relpath = spec, fn, src_lines, relpath
        self.node = fn
        self.smp = None              # Coq name of the current time sample (inside a loop body)
        self.ext = False             # the operations atan2 / angle are available (last line of ab2rf)
        self.in_loop = False
        self.used = set(RESERVED) | {p for p, _ in spec["params"]} | set(spec.get("reserve", ()))
        self.lets = []               # (coq name, type) of every let, in order
        self.defs = []               # text of the auxiliary definitions + lemmas (step, loop)
        self.loop_info = None

    # ----- errors, names, lets
    def fail(self, msg):
        ln = getattr(self.node, "lineno", self.fn.lineno)
        raise TranslationError("%s:%d (%s): %s   [%s]" % (self.relpath, ln, self.spec["name"], msg, self.src_lines[ln - 1].strip()))

    def fresh(self, py):
        cand, k = (py + "_" if py in RESERVED else py), 0
        while cand in self.used:
            k += 1
            cand = "%s_%d" % (py, k)
        self.used.add(cand)
        return cand

    def comment(self, node):
        ln = node.lineno
        return "   (* L%d: %s *)" % (ln, self.src_lines[ln - 1].strip().replace("(*", "( *").replace("*)", "* )"))

    def let(self, py, term, ty, node, lines, ind):
        cn = self.fresh(py)
        self.lets.append((cn, ty))
        lines.append("%slet %s : %s := %s in%s" % ("  " * ind, cn, ty, term, self.comment(node)))
        return cn

    def bind(self, name, v, env, node, lines, ind):
        if v.kind == "real" and v.val.t is not None:
            r = v.val
            cn = self.let(name, rterm(r), "F", node, lines, ind)
            env[name] = V("real", R(cn, abs_of=r.abs_of, inf_when=r.inf_when), v.ax)
        elif v.kind == "cplx":
            c = v.val
            cn = self.let(name, cwhole(c), "Cx", node, lines, ind)
            env[name] = V("cplx", C(whole=cn, inf_when=c.inf_when, proj=c.proj), v.ax)
        elif v.kind == "tuple" and v.get("cols"):
            items = []
            for k, e in enumerate(v.val):
                cn = self.let("%s_%d" % (name, k), rterm(e.val), "F", node, lines, ind)
                items.append(V("real", R(cn), e.ax))
            env[name] = V("tuple", items, cols=True)
        elif v.kind == "tarr" and v.get("const") and v.ax == ("T",) and not self.in_loop:
            c = self.lift(v.cell(None))                             # an array with the same value at every sample: one scalar
            if c.kind != "real" or c.ax:
                self.fail("a constant time array of %s values" % c.kind)
            cn = self.let(name, rterm(c.val), "F", node, lines, ind)
            atom = real(R(cn))
            env[name] = V("tarr", None, v.ax, cell=lambda smp: atom, const=True)
        elif v.kind == "poly" and not (len(v.bases) == 1 and v.get("atom")):
            cn = self.let(name, self.poly_term(v), "list Cx", node, lines, ind)
            env[name] = self.poly_atom(cn, v.plen)
        else:
            env[name] = v

    # ----- tests
    def test(self, t, env):
        """-> True / False (decided at translation time) or a Coq boolean term"""
        self.node = t
        pins = self.spec.get("pinned_tests", {})
        key = ast.dump(t)
        for src, val in pins.items():
            if ast.dump(ast.parse(src, mode="eval").body) == key:
                return val
        if isinstance(t, ast.Name):
            v = self.ev(t, env)
            if v.kind == "bparam":
                return v.val
            self.fail("test on a %s" % v.kind)
        if isinstance(t, ast.BoolOp) and isinstance(t.op, ast.And):
            vals = [self.test(e, env) for e in t.values]
            if all(isinstance(x, bool) for x in vals):
                return all(vals)
            self.fail("`and` of run-time tests")
        if isinstance(t, ast.Compare) and len(t.ops) == 1:
            a, b = self.ev(t.left, env), self.ev(t.comparators[0], env)
            self.node = t
            op = t.ops[0]
            if isinstance(op, (ast.Is, ast.IsNot)) and b.kind == "none":
                return (a.kind == "none") == isinstance(op, ast.Is)
            if a.kind == "num" and b.kind == "num" and isinstance(op, ast.Gt):
                return a.val > b.val
        self.fail("this test is not read")

    # ----- statements
    def is_ignored(self, s):
        ign = self.spec.get("ignore", ())
        if not ign or not isinstance(s, (ast.Assign, ast.AugAssign)):
            return False
        tg = s.targets if isinstance(s, ast.Assign) else [s.target]
        if not all(isinstance(t, ast.Name) and t.id in ign for t in tg):
            return False
        for n in ast.walk(s.value):
            if isinstance(n, ast.Call):
                f = n.func
                if not (isinstance(f, ast.Attribute) and isinstance(f.value, ast.Name) and f.value.id == "xp"
                        and f.attr in ("conj", "real", "negative")) or n.keywords:
                    self.node = s
                    self.fail("call in an unmodelled statement")
            elif not isinstance(n, (ast.Name, ast.Constant, ast.BinOp, ast.UnaryOp, ast.operator, ast.unaryop, ast.expr_context,
                                    ast.Attribute)):
                self.node = s
                self.fail("%s in an unmodelled statement" % type(n).__name__)
        return True

    def with_ok(self, s, env):
        self.node = s
        for it in s.items:
            if it.optional_vars is not None:
                self.fail("`with ... as`")
            e = it.context_expr
            if isinstance(e, ast.Name) and env.get(e.id) is not None and env[e.id].kind == "device":
                continue
            if ast.dump(e) == ast.dump(ast.parse('xp.errstate(divide="ignore")', mode="eval").body) and env.get("xp") is not None \
                    and env["xp"].kind == "xp":
                continue
            self.fail("`with` item")

    def block(self, stmts, env, ind, final):
        lines = []
        for i, s in enumerate(stmts):
            rest = stmts[i + 1:]
            self.node = s
            if isinstance(s, ast.Pass) or (isinstance(s, ast.Expr) and isinstance(s.value, ast.Constant) and isinstance(s.value.value, str)):
                continue
            if isinstance(s, ast.With):
                self.with_ok(s, env)
                return lines + self.block(list(s.body) + rest, env, ind, final)
            if isinstance(s, ast.If):
                t = self.test(s.test, env)
                if isinstance(t, bool):
                    return lines + self.block(list(s.body if t else s.orelse) + rest, env, ind, final)
                if self.in_loop:
                    self.fail("a run-time test inside the loop body")
                pad = "  " * ind
                a = self.block(list(s.body) + rest, dict(env), ind + 1, final)
                b = self.block(list(s.orelse) + rest, dict(env), ind + 1, final)
                return lines + ["%sif %s then (%s" % (pad, t, self.comment(s))] + a + [pad + ") else ("] + b + [pad + ")"]
            if isinstance(s, ast.Return):
                if self.in_loop:
                    self.fail("return inside the loop")
                return lines + ["  " * ind + self.ret(s, env)]
            if isinstance(s, ast.For):
                if self.in_loop or self.loop_info is not None:
                    self.fail("a second / nested loop")
                self.loop(s, env, lines, ind)
                continue
            if self.is_ignored(s):
                continue
            self.simple(s, env, lines, ind)
        return lines + ["  " * ind + final(env)]

    def simple(self, s, env, lines, ind):
        self.node = s
        if isinstance(s, ast.Assign) and len(s.targets) == 1:
            t = s.targets[0]
            if isinstance(t, ast.Name):
                v = self.ev(s.value, env)
                self.node = s
                return self.bind(t.id, v, env, s, lines, ind)
            if isinstance(t, ast.Tuple) and all(isinstance(e, ast.Name) for e in t.elts) and isinstance(s.value, ast.Tuple) \
                    and len(s.value.elts) == len(t.elts):
                vals = [self.ev(e, env) for e in s.value.elts]
                for e, v in zip(t.elts, vals):
                    self.bind(e.id, v, env, s, lines, ind)
                return
            if isinstance(t, ast.Subscript) and isinstance(t.value, ast.Name):
                return self.store(t, s, env, lines, ind)
        if isinstance(s, ast.AugAssign) and isinstance(s.target, ast.Name) and isinstance(s.op, (ast.Add, ast.Sub, ast.Mult, ast.Div)):
            a, b = self.ev(ast.Name(id=s.target.id, ctx=ast.Load(), lineno=s.lineno, col_offset=0), env), self.ev(s.value, env)
            self.node = s
            v = {ast.Add: lambda: self.addsub(a, b, False), ast.Sub: lambda: self.addsub(a, b, True),
                 ast.Mult: lambda: self.mul(a, b), ast.Div: lambda: self.div(a, b)}[type(s.op)]()
            return self.bind(s.target.id, v, env, s, lines, ind)
        self.fail("statement %s is outside the translated fragment" % type(s).__name__)

    def store(self, t, s, env, lines, ind):
        """v[xp.isinf(v)] = 0 : a value built from finite data is infinite only through the division by zero it contains"""
        name = t.value.id
        v = self.ev(t.value, env)
        mask = ast.parse("xp.isinf(%s)" % name, mode="eval").body
        if ast.dump(t.slice) == ast.dump(mask) and env.get("xp") is not None and env["xp"].kind == "xp" and v.kind in ("real", "cplx"):
            c = self.ev(s.value, env)
            self.node = s
            if c.kind != "num" or isinstance(c.val, bool) or c.val not in (0, 1):
                self.fail("masked store of something other than 0 / 1")
            d = v.val.inf_when
            if d is None:
                return                                              # finite by construction: the store is a no-op
            if v.kind == "real":
                nv = real(R("(if fis0 %s then %s else %s)" % (d, {0: "f0", 1: "f1"}[c.val], rterm(v.val))), v.ax)
            else:
                nv = cplx(C(whole="(if fis0 %s then %s else %s)" % (d, {0: "c0", 1: "c1"}[c.val], cwhole(v.val))), v.ax)
            return self.bind(name, nv, env, s, lines, ind)
        self.fail("subscript store")

    def state_term(self, vals):
        a, b = vals
        if a.kind == "cplx" and b.kind == "cplx" and a.val.proj and b.val.proj and a.val.proj[0] == "fst" and b.val.proj[0] == "snd" \
                and a.val.proj[1] == b.val.proj[1]:
            return a.val.proj[1]                                    # (fst s, snd s) is written s
        return "(%s, %s)" % (cwhole(self.to_cplx(a).val), cwhole(self.to_cplx(b).val))

    def ret(self, s, env):
        self.node = s
        want = self.spec["returns"]
        v = s.value
        if want == "list":
            r = self.ev(v, env)
            if r.kind != "list":
                self.fail("return value")
            return r.val
        if not isinstance(v, ast.Tuple) or len(v.elts) < 2:
            self.fail("return value")
        for e in v.elts[2:]:
            if not (isinstance(e, ast.Name) and e.id in self.spec.get("ignore", ())):
                self.fail("extra return value")
        return self.state_term([self.ev(e, env) for e in v.elts[:2]])

    # ----- loops
    def loop_range(self, s, env):
        it = s.iter
        self.node = s
        if not isinstance(s.target, ast.Name) or s.orelse:
            self.fail("loop header")
        if isinstance(it, ast.Call) and isinstance(it.func, ast.Name) and it.func.id == "range" and "range" not in env and not it.keywords:
            args = [self.ev(a, env) for a in it.args]
        else:
            r = self.ev(it, env)
            if r.kind != "range":
                self.fail("loop iterator")
            args = r.val
        self.node = s
        if len(args) == 1:
            args = [num(0), args[0], num(1)]
        if len(args) != 3:
            self.fail("range arguments")
        lo, hi, st = args

        def isnum(v, k):
            return v.kind == "num" and not isinstance(v.val, bool) and v.val == k
        if isnum(lo, 0) and isnum(st, 1) and hi.kind == "dim" and hi.val == "T" and not hi.off:
            return "fwd"
        if lo.kind == "dim" and lo.val == "N" and lo.off == -1 and isnum(hi, -1) and isnum(st, -1):
            return "countdown"
        self.fail("the loop does not run over exactly the samples of the waveform")

    def loop_state(self, body, exclude=()):
        exposed, written = set(), set()
        for b in body:
            r, w = rw(b)
            exposed |= r - written
            written |= w
        state = (exposed & written) - set(exclude)
        want = self.spec["state"]
        if state != set(want):
            self.fail("the loop-carried variables are %s, the model's state is %s" % (sorted(state), list(want)))
        return written

    def resolve(self, stmts, env):
        """tests inside the loop body that are decided at translation time (g.ndim > 1) select their branch"""
        out = []
        for b in stmts:
            if isinstance(b, ast.If):
                if names_in(b.test, ast.Load) & {n for x in ast.walk(ast.Module(body=list(stmts), type_ignores=[]))
                                                 for n in ([x.id] if isinstance(x, ast.Name) and isinstance(x.ctx, ast.Store) else [])}:
                    self.node = b
                    self.fail("a test on a value computed in the loop body")
                try:
                    t = self.test(b.test, env)
                except TranslationError:
                    t = None
                if not isinstance(t, bool):
                    self.node = b
                    self.fail("a run-time test inside the loop body (only tests decided by the call form, like g.ndim > 1, are read)")
                out += self.resolve(list(b.body if t else b.orelse), env)
            else:
                out.append(b)
        return out

    def params_of(self, text, outer):
        toks = set(re.findall(r"[A-Za-z_][A-Za-z_0-9']*", re.sub(r"\(\*.*?\*\)", "", text)))
        return [(n, t) for n, t in outer if n in toks]

    def loop(self, s, env, lines, ind):
        kind = self.loop_range(s, env)
        if kind == "countdown":
            return self.loop_countdown(s, env, lines, ind)
        sp = self.spec
        s_body = self.resolve(s.body, env)
        body = flat(s_body)
        for b in body:
            if not isinstance(b, (ast.Assign, ast.AugAssign)) and not (isinstance(b, ast.Expr) and isinstance(b.value, ast.Constant)):
                self.node = b
                self.fail("statement %s in the loop body" % type(b).__name__)
        written = self.loop_state(body)
        state = list(sp["state"])
        lv = s.target.id
        if lv in written:
            self.fail("the loop variable is assigned in the body")
        # trailing write-only assignments (a = statea; b = -conj(stateb)) are functions of the final state: moved after the loop
        all_reads = set()
        for b in body:
            all_reads |= rw(b)[0]
        sunk = []
        stmts = list(s_body)
        while stmts and isinstance(stmts[-1], ast.Assign) and len(stmts[-1].targets) == 1 and isinstance(stmts[-1].targets[0], ast.Name):
            b = stmts[-1]
            nm = b.targets[0].id
            if nm in state or nm in all_reads or not (names_in(b.value, ast.Load) <= (set(state) | (set(env) - written))):
                break
            sunk.insert(0, stmts.pop())
        outer = list(sp["params"]) + list(self.lets)
        mark = len(self.lets)
        # --- the body as a state transformer
        senv = dict(env)
        senv[lv] = V("lv", "T")
        self.smp, self.in_loop = sp["elt"], True
        slines = []
        for k, nm in enumerate(state):
            init = self.to_cplx(env[nm]) if nm in env else self.fail("state variable %s is not initialised before the loop" % nm)
            proj = ("fst", "snd")[k]
            cn = self.fresh(nm)
            self.lets.append((cn, "Cx"))
            slines.append("  let %s : Cx := %s st in" % (cn, proj))
            senv[nm] = V("cplx", C(whole=cn, proj=(proj, "st")), init.ax)
        slines += self.block(stmts, senv, 1, lambda e: self.state_term([e[nm] for nm in state]))
        self.smp, self.in_loop = None, False
        step_lets = self.lets[mark:]
        del self.lets[mark:]
        text = "\n".join(slines)
        ps = [q for q in self.params_of(text, outer) if q[0] != sp["samples"]]
        if re.search(r"\b%s\b" % sp["samples"], re.sub(r"\(\*.*?\*\)", "", text)):
            self.fail("the loop body reads the whole sample list")
        nparam = len([p for p in ps if p in sp["params"]])
        name = "gen_" + sp["name"]
        fmt = {"smp": sp["elt"]}
        for k, (n, _) in enumerate(ps[nparam:]):
            fmt["L%d" % k] = n
        bnd = " ".join("(%s : %s)" % p for p in ps)
        args = " ".join(n for n, _ in ps)
        l0, l1 = s.body[0].lineno, max(getattr(n, "end_lineno", 0) or 0 for n in ast.walk(s))
        try:
            hand_step = sp["hand_step"].format(**fmt)
            hand_loop = sp["hand_loop"].format(**fmt)
        except (KeyError, IndexError):
            self.node = s
            self.fail("the loop body uses %d values computed before the loop; the hand model's step is stated for another number"
                      % (len(ps) - nparam))
        d = []
        d.append("(* %s: the loop body, lines %d-%d, as a state transformer (state = (%s)) *)" % (sp["func"], l0, l1, ", ".join(state)))
        d.append("Definition %s_step %s (%s : %s) (st : State) : State :=\n%s." % (name, bnd, sp["elt"], sp["elt_type"], text))
        d.append("Lemma %s_step_ok : forall %s (%s : %s) (st : State),\n  %s_step %s %s st = %s.\nProof. intros. unfold %s_step. tie. Qed.\n"
                 % (name, bnd, sp["elt"], sp["elt_type"], name, args, sp["elt"], hand_step, name))
        d.append("(* %s: the loop, line %d: a fold of the body over the sample list *)" % (sp["func"], s.lineno))
        d.append("Definition %s_loop %s (%s : list (%s)) (st : State) : State :=\n  fold_left (fun st %s => %s_step %s %s st) %s st."
                 % (name, bnd, sp["samples"], sp["elt_type"], sp["elt"], name, args, sp["elt"], sp["samples"]))
        script = "intros. unfold %s_loop%s. %sapply gen_fold_left_ext. intros. apply %s_step_ok." % (
            name, "".join(", " + u for u in sp.get("loop_unfold", ())), "rewrite gen_fold_left_map. " if sp.get("loop_map") else "", name)
        d.append("Lemma %s_loop_ok : forall %s (%s : list (%s)) (st : State),\n  %s_loop %s %s st = %s.\nProof. %s Qed.\n"
                 % (name, bnd, sp["samples"], sp["elt_type"], name, args, sp["samples"], hand_loop, script))
        self.defs += d
        self.loop_info = {"name": name + "_loop"}
        # --- after the loop
        init = self.state_term([env[nm] for nm in state])
        cn = self.fresh("st")
        self.lets.append((cn, "State"))
        lines.append("%slet %s : State := %s_loop %s %s %s in%s" % ("  " * ind, cn, name, args, sp["samples"], init, self.comment(s)))
        for nm in written:
            if nm not in state:
                env.pop(nm, None)          # temporaries of the body are not read after the loop (they fail closed as undefined)
        for k, nm in enumerate(state):
            proj = ("fst", "snd")[k]
            c2 = self.fresh(nm)
            self.lets.append((c2, "Cx"))
            lines.append("%slet %s : Cx := %s %s in" % ("  " * ind, c2, proj, cn))
            env[nm] = V("cplx", C(whole=c2, proj=(proj, cn)), self.to_cplx(env[nm]).ax)
        for b in sunk:
            self.simple(b, env, lines, ind)

    # ----- coefficient arrays (ab2rf): length bookkeeping by the invariant  len(a) = len(b) = ii + 1
    def poly_atom(self, term, plen):
        return V("poly", None, bases=[term], plen=plen, fn=lambda elts: elts[term], atom=True)

    def poly_term(self, v):
        xs = [self.fresh(n) for n in ("x", "y")[:len(v.bases)]]
        if not 1 <= len(v.bases) <= 2:
            self.fail("an elementwise expression over %d coefficient arrays" % len(v.bases))
        body = cwhole(self.to_cplx(v.fn({b: cplx(C(whole=n)) for b, n in zip(v.bases, xs)})).val)
        for n in xs:
            self.used.discard(n)
        if len(xs) == 2:
            return "(zipw (fun %s %s => %s) %s %s)" % (xs[0], xs[1], body, v.bases[0], v.bases[1])
        return "(map (fun %s => %s) %s)" % (xs[0], body, v.bases[0])

    def poly_subscript(self, v, sl, env):
        if not v.get("atom"):
            self.fail("subscript of an array expression")
        t = v.bases[0]

        def isnum(n, k):
            if n is None:
                return False
            w = self.ev(n, env)
            return w.kind == "num" and not isinstance(w.val, bool) and w.val == k

        def isii(n, off):
            if n is None:
                return False
            w = self.ev(n, env)
            return w.kind == "dim" and w.val == "ii" and w.off == off
        if v.plen != ("ii", 1):
            self.fail("the array does not have ii + 1 coefficients here")
        if not isinstance(sl, ast.Slice):
            if isii(sl, 0):
                return cplx(C(whole=ap("last", t, "c0")))            # x[ii] on ii + 1 coefficients: the top coefficient
            self.fail("coefficient index")
        if not (sl.step is None or isnum(sl.step, 1)):
            self.fail("slice step")
        if isnum(sl.lower, 1) and isii(sl.upper, 1):
            return self.poly_atom(ap("tl", t), ("ii", 0))           # x[1:ii+1] drops the lowest coefficient
        if (sl.lower is None or isnum(sl.lower, 0)) and isii(sl.upper, 0):
            return self.poly_atom(ap("removelast", t), ("ii", 0))   # x[0:ii] drops the top coefficient
        self.fail("slice of a coefficient array")

    def loop_countdown(self, s, env, lines, ind):
        sp = self.spec
        lv = s.target.id
        body = list(s.body)
        self.node = s
        guard = body[-1] if body else None
        want = ast.parse("%s > 0" % lv, mode="eval").body
        if not isinstance(guard, ast.If) or guard.orelse or ast.dump(guard.test) != ast.dump(want):
            self.fail("the loop body must end with the guarded update `if %s > 0:`" % lv)
        pre, upd = body[:-1], list(guard.body)
        for b in pre + upd:
            if not (isinstance(b, ast.Assign) and len(b.targets) == 1):
                self.node = b
                self.fail("statement %s in the loop body" % type(b).__name__)
        self.loop_state(pre + [guard], exclude=sp["outputs"])
        state = list(sp["state"])
        # statements that feed the state update (the peel) / the rest (the output sample)
        needed = set()
        for b in upd:
            needed |= rw(b)[0]
        peel, outs = [], []
        for b in reversed(pre):
            r, w = rw(b)
            if w & needed:
                needed |= r
                peel.insert(0, b)
            else:
                outs.insert(0, b)
        pw = []
        for b in peel:
            pw += [n for n in rw(b)[1] if n not in pw]
        oreads = set()
        for b in outs:
            oreads |= rw(b)[0]
        emit = [n for n in pw if n in oreads]
        if emit != list(sp["emit"]):
            self.fail("the output sample depends on %s; the model's peel emits %s" % (emit, list(sp["emit"])))
        owritten = set()
        for b in outs:
            owritten |= rw(b)[1]
        free = oreads - set(emit) - owritten - {lv} - {k for k, v in env.items() if v.kind in ("xp", "out")}
        if free or not outs:
            self.fail("the output sample reads %s besides %s" % (sorted(free), emit))
        name = "gen_" + sp["name"]
        d = []
        # --- the peel: ((cj, sj), (a', b'))
        self.in_loop = True
        penv = dict(env)
        penv[lv] = dim("ii")
        pl = []
        for k, nm in enumerate(state):
            v = env.get(nm)
            if v is None or v.kind != "poly" or v.plen != ("N", 0):
                self.fail("state variable %s is not the input coefficient array" % nm)
            cn = self.fresh(nm)
            pl.append("  let %s : list Cx := %s ab in" % (cn, ("fst", "snd")[k]))
            penv[nm] = self.poly_atom(cn, ("ii", 1))

        def fin(e):
            a, b = e[state[0]], e[state[1]]
            if a.kind != "poly" or b.kind != "poly" or not a.get("atom") or not b.get("atom") or a.plen != ("ii", 0) or b.plen != ("ii", 0):
                self.fail("after the update the arrays must have ii coefficients (len = ii + 1 at the next iteration)")
            c, sj = self.lift(e[emit[0]]), e[emit[1]]
            if c.kind != "real" or sj.kind != "cplx":
                self.fail("the emitted rotation parameters must be (real, complex)")
            return "((%s, %s), (%s, %s))" % (rterm(c.val), cwhole(sj.val), a.bases[0], b.bases[0])
        pl += self.block(peel + upd, penv, 1, fin)
        l1 = max(getattr(n, "end_lineno", 0) or 0 for n in ast.walk(s))
        d.append("(* %s: one iteration of the loop (lines %d-%d) without the output sample: ((%s), (%s)) *)"
                 % (sp["func"], s.lineno, l1, ", ".join(emit), ", ".join(state)))
        d.append("Definition %s_peel (ab : list Cx * list Cx) : (F * Cx) * (list Cx * list Cx) :=\n%s." % (name, "\n".join(pl)))
        d.append("Lemma %s_peel_ok : forall ab, %s_peel ab = %s.\nProof. intros. unfold %s_peel. tie. Qed.\n" % (name, name, sp["hand_peel"], name))
        a0, b0 = env[state[0]].bases[0], env[state[1]].bases[0]
        fuel = self.dim_nat(dim("N"))
        d.append("(* the countdown loop `for %s in range(n - 1, -1, -1)`: n iterations, the value written at index %s listed by index *)" % (lv, lv))
        d.append("Definition %s_cs (%s %s : list Cx) : list (F * Cx) := gen_countdown %s_peel %s (%s, %s)." % (name, a0, b0, name, fuel, a0, b0))
        d.append("Lemma %s_cs_ok : forall %s %s, %s_cs %s %s = %s.\nProof. intros. unfold %s_cs, ab2cs. rewrite gen_slr_inv_countdown. "
                 "apply gen_countdown_ext. intros. apply %s_peel_ok. Qed.\n" % (name, a0, b0, name, a0, b0, sp["hand_cs"].format(a=a0, b=b0), name, name))
        # --- the output sample as a function of the emitted parameters (operations atan2 / angle)
        self.ext = True
        oenv = {k: v for k, v in env.items() if v.kind in ("xp", "out")}
        oenv[lv] = dim("ii")
        c1n, s1n = self.fresh(emit[0]), self.fresh(emit[1])
        oenv[emit[0]], oenv[emit[1]] = real(R(c1n)), cplx(C(whole=s1n))
        ol = []
        for b in outs[:-1]:
            self.simple(b, oenv, ol, 1)
        last = outs[-1]
        self.node = last
        t = last.targets[0]
        if not (isinstance(t, ast.Subscript) and isinstance(t.value, ast.Name) and t.value.id in sp["outputs"]
                and isinstance(t.slice, ast.Name) and t.slice.id == lv):
            self.fail("the last statement of the output part must store the sample at index %s" % lv)
        ol.append("  " + cwhole(self.to_cplx(self.ev(last.value, oenv)).val))
        self.ext, self.in_loop = False, False
        d.append("(* %s: the sample stored at index %s, from the emitted (%s) *)" % (sp["func"], lv, ", ".join(emit)))
        d.append("Definition %s_out (%s : F) (%s : Cx) : Cx :=\n%s.\n" % (name, c1n, s1n, "\n".join(ol)))
        self.defs += d
        self.loop_info = {"name": name + "_cs"}
        for nm in state:
            env.pop(nm, None)
        env[t.value.id] = V("list", "(map (fun m => %s_out (fst m) (snd m)) (%s_cs %s %s))" % (name, name, a0, b0), ("N",),
                            dtype="C", neg=False, imag=False, halves=0)

    # ----- the whole function
    def translate(self):
        sp = self.spec
        fn = self.fn
        a = fn.args
        if a.vararg or a.kwarg or a.kwonlyargs or a.posonlyargs or fn.decorator_list:
            self.fail("function signature")
        names = [x.arg for x in a.args]
        if names != list(sp["args"]):
            self.fail("arguments %s (expected %s)" % (names, list(sp["args"])))
        defaults = [ast.dump(x) for x in a.defaults]
        if defaults != [ast.dump(ast.parse(x, mode="eval").body) for x in sp.get("defaults", ())]:
            self.fail("argument defaults changed")
        env = {k: v for k, v in sp["env"].items()}
        for n in names:
            env[n] = sp["bind"][n]
        lines = self.block(list(fn.body), env, 1, lambda e: self.fail("the function ends without `return`"))
        if self.loop_info is None:
            self.fail("no loop found")
        name = "gen_" + sp["name"]
        bnd = " ".join("(%s : %s)" % p for p in sp["params"])
        args = " ".join(n for n, _ in sp["params"])
        out = list(self.defs)
        out.append("(* %s  (%s line %d) *)" % (sp["func"], self.relpath, fn.lineno))
        out.append("Definition %s %s : %s :=\n%s." % (name, bnd, sp["ret_type"], "\n".join(lines)))
        if sp.get("hand"):
            out.append("Lemma %s_ok : forall %s,\n  %s %s = %s.\nProof. intros. unfold %s%s. cbv zeta. rewrite %s_ok. tie. Qed.\n"
                       % (name, bnd, name, args, sp["hand"], name, "".join(", " + u for u in sp.get("unfold", ())), self.loop_info["name"]))
        return out


# ---------------------------------------------------------------------------------------------------------------
# what is translated: one spec per generated function family (the readings of the arguments are the hand model's)
# ---------------------------------------------------------------------------------------------------------------
def tinput(ax, cell, **kw):
    return V("tarr", None, ax, cell=cell, **kw)


def lst(term, ax, dtype="R", **kw):
    return V("list", term, ax, dtype=dtype, neg=False, imag=False, halves=0, **kw)


SIM, OPT, SLR = "sigpy/mri/rf/sim.py", "sigpy/mri/rf/optcont.py", "sigpy/mri/rf/slr.py"
GAM = 267.522 * 1e6 / 1000


def specs():
    out = []
    sim_env = {"backend": V("backend")}
    out.append(dict(
        name="abrm", file=SIM, func="abrm", args=("rf", "x", "balanced"), defaults=("False",),
        params=[("pi", "F"), ("eps", "F"), ("rf", "list Cx"), ("x", "F"), ("balanced", "bool")],
        consts={1e-16: "eps"}, pi="pi", dims={"T": "(length rf)"}, env=sim_env,
        bind={"rf": tinput(("T",), lambda smp: cplx(C(whole=smp)), tlist="rf"), "x": real(R("x"), ("P",)), "balanced": V("bparam", "balanced")},
        samples="rf", elt="r", elt_type="Cx", state=("a", "b"), returns="state", ret_type="State",
        hand_step="su2_step (abrm_factor cs eps (fmul x {L0}) r) st",
        hand_loop="abrm_loop cs eps (fmul x {L0}) rf st", loop_unfold=("abrm_loop", "su2_run"), loop_map=True,
        hand="abrm cs pi eps rf x balanced", unfold=("abrm",)))
    rfg_nd = {"rf": tinput(("T",), lambda smp: cplx(C(whole=ap("fst", smp)))),
              "x": lst("x", ("P", "D")),
              "g": tinput(("T", "D"), lambda smp: lst(ap("snd", smp), ("D",)), tsum0="(vsum (map (fun _ => f0) x) (map snd rfg))")}
    out.append(dict(
        name="abrm_nd", file=SIM, func="abrm_nd", args=("rf", "x", "g"),
        params=[("eps", "F"), ("rfg", "list (Cx * list F)"), ("x", "list F")],
        consts={1e-16: "eps"}, dims={"T": "(length rfg)"}, env=sim_env, bind=rfg_nd,
        samples="rfg", elt="rg", elt_type="Cx * list F", state=("a", "b"), returns="state", ret_type="State",
        hand_step="su2_step (abrm_nd_factor cs eps x rg) st",
        hand_loop="su2_run (map (abrm_nd_factor cs eps x) rfg) st", loop_unfold=("su2_run",), loop_map=True,
        hand="abrm_nd cs eps rfg x", unfold=("abrm_nd",)))
    rfg_1d = lambda: {"rf": tinput(("T",), lambda smp: cplx(C(whole=ap("fst", smp)))),           # noqa: E731
                      "g": tinput(("T",), lambda smp: real(R(ap("snd", smp))), tlist="(map snd rfg)")}
    b = rfg_1d()
    out.append(dict(
        name="abrm_hp", file=SIM, func="abrm_hp", args=("rf", "gamgdt", "xx", "dom0dt"), defaults=("0",),
        params=[("rfg", "list (Cx * F)"), ("x", "F"), ("dom0dt", "F")],
        dims={"T": "(length rfg)"}, env=sim_env,
        bind={"rf": b["rf"], "gamgdt": b["g"], "xx": real(R("x"), ("P",)), "dom0dt": real(R("dom0dt"))},
        samples="rfg", elt="rg", elt_type="Cx * F", state=("a", "b"), returns="state", ret_type="State",
        hand_step="rf_rot cs (fst rg) (grad_phase cs (fadd (fmul x (snd rg)) dom0dt) st)",
        hand_loop="abrm_hp_loop cs x dom0dt rfg st", loop_unfold=("abrm_hp_loop",),
        hand="abrm_hp cs rfg x dom0dt", unfold=("abrm_hp",)))
    out.append(dict(
        name="blochsim", file=OPT, func="blochsim", args=("rf", "x", "g"),
        params=[("rfg", "list (Cx * list F)"), ("x", "list F")],
        dims={"T": "(length rfg)"}, env=sim_env, bind=rfg_nd,
        samples="rfg", elt="rg", elt_type="Cx * list F", state=("a", "b"), returns="state", ret_type="State",
        hand_step="grad_phase cs (dot x (snd rg)) (rf_rot cs (fst rg) st)",
        hand_loop="blochsim_loop cs x rfg st", loop_unfold=("blochsim_loop",),
        hand="blochsim cs rfg x", unfold=("blochsim",)))
    b = rfg_1d()
    fold1 = "fold_left (fun s rg => grad_phase cs (fmul x (snd rg)) (rf_rot cs (fst rg) s)) rfg"
    out.append(dict(
        name="blochsim_1d", file=OPT, func="blochsim", args=("rf", "x", "g"),
        note="the call form with 1-D x and g (branch `g.ndim > 1` false): the model's grad_phase / rf_rot / total_phase with x*g for x@g",
        params=[("rfg", "list (Cx * F)"), ("x", "F")],
        dims={"T": "(length rfg)"}, env=sim_env,
        bind={"rf": b["rf"], "g": b["g"], "x": real(R("x"), ("P",))},
        samples="rfg", elt="rg", elt_type="Cx * F", state=("a", "b"), returns="state", ret_type="State",
        hand_step="grad_phase cs (fmul x (snd rg)) (rf_rot cs (fst rg) st)",
        hand_loop=fold1 + " st", loop_unfold=(),
        hand="total_phase cs (fmul x (fsum (map snd rfg))) (%s st0)" % fold1, unfold=()))
    for nosens in (False, True):
        for nofmap in (False, True):
            sens = "(repeat c1 nc)" if nosens else "sens"
            boff = "(fmul (fmul (fdiv fm gam) two) pi)"
            bz = "(dot x (snd bg))" if nofmap else "(fadd (dot x (snd bg)) %s)" % boff
            params = [("pi", "F"), ("dt", "F"), ("gam", "F")] + ([] if nofmap else [("fm", "F")]) \
                + ([("nc", "nat")] if nosens else [("sens", "list Cx")]) + [("x", "list F"), ("b1g", "list (list Cx * list F)")]
            fold = "fold_left (fun s bg => ptx_step (ptx_factor cs (fmul dt gam) (cdot %s (fst bg)) %s) s) b1g" % (sens, bz)
            out.append(dict(
                name="abrm_ptx" + ("_nosens" if nosens else "") + ("_nofmap" if nofmap else ""), file=SIM, func="abrm_ptx",
                note="sens %s, fmap %s" % ("is None (ones)" if nosens else "given", "is None" if nofmap else "given"),
                args=("b1", "x", "g", "dt", "fmap", "sens"), defaults=("None", "None"), params=params,
                consts={GAM: "gam"}, pi="pi", dims=dict({"T": "(length b1g)"}, **({"C": "nc"} if nosens else {})), env=sim_env,
                bind={"b1": tinput(("C", "T"), lambda smp: lst(ap("fst", smp), ("C",), "C")), "x": lst("x", ("P", "D")),
                      "g": tinput(("T", "D"), lambda smp: lst(ap("snd", smp), ("D",))), "dt": real(R("dt")),
                      "fmap": V("none") if nofmap else real(R("fm"), ("M",)),
                      "sens": V("none") if nosens else lst("sens", ("C", "Pa", "Pb"), "C", raw=True)},
                pinned_tests={"xp.sum(xp.abs(fmap)) != 0": True}, ignore=("mxy0", "mz0", "m", "mz"),
                samples="b1g", elt="bg", elt_type="list Cx * list F", state=("statea", "stateb"), returns="state", ret_type="State",
                hand_step="ptx_step (ptx_factor cs (fmul dt gam) (cdot %s (fst bg)) %s) st" % (sens, bz),
                hand_loop=fold + " st", loop_unfold=(),
                hand=("ptx_out (%s st0)" % fold) if nofmap else "abrm_ptx cs (fmul dt gam) %s %s x b1g" % (boff, sens),
                unfold=() if nofmap else ("abrm_ptx",)))
    out.append(dict(
        name="ab2rf", file=SLR, func="ab2rf", args=("a", "b"), params=[("a", "list Cx"), ("b", "list Cx")],
        dims={"N": "(length a)"}, env={"np": V("xp")}, bind={"a": None, "b": None},
        state=("a", "b"), outputs=("rf",), emit=("cj", "sj"), returns="list", ret_type="list Cx",
        hand_peel="slr_peel ab", hand_cs="ab2cs {a} {b}", hand=None))
    return out


HEADER = """(* Gen_bloch.v -- GENERATED by tools/translate_bloch.py from
%s
   Do not edit.  The Bloch simulators abrm / abrm_nd / abrm_hp / abrm_ptx (sim.py), blochsim (optcont.py) and the inverse SLR
   peeling loop ab2rf (slr.py) as written in the source, for ONE spatial position, over the operations record FOps and the
   trig oracle cs of model/Bloch.v, and their agreement with the hand model.
   Conventions: every Python assignment is a `let` (comment: source line; a re-assigned name gets a suffix); the loop body
   is `gen_<f>_step` (a state transformer), the loop `gen_<f>_loop` (a fold over the list of time samples), the function
   `gen_<f>`.  cos t / sin t are fst / snd of `cs t`; exp(1j*t) is (fst (cs t), snd (cs t)), exp(-1j*t) its conjugate;
   exp(1j*angle(z)) is unit_phasor z; np.abs(z)**2 is cabs2 z; a negation floats out of products and quotients;
   real * complex-valued variable is cscale; `x / 2` is half x.  See notes/translate_bloch.md. *)
From Coq Require Import ZArith List Bool.
From SV Require Import model.Bloch.
Import ListNotations.

(* case analysis on every test / oracle value that occurs (innermost first), then computation.  Only the hand model's
   structural definitions are unfolded; the arithmetic of complex numbers stays folded. *)
Ltac tie_case :=
  match goal with
  | |- context [match ?c with _ => _ end] =>
      lazymatch c with
      | context [match _ with _ => _ end] => fail
      | _ => destruct c
      end
  end.
Ltac tie_norm :=
  cbv beta iota zeta delta [half st0 su2_step su2_run abrm_factor abrm_loop abrm abrm_nd_factor abrm_nd unit_phasor rf_rot grad_phase
    total_phase abrm_hp_loop abrm_hp blochsim_loop blochsim ptx_factor ptx_step ptx_out abrm_ptx slr_peel].
Ltac tie := tie_norm; cbn [fst snd]; repeat (tie_case; cbn [fst snd]); reflexivity.

(* the two congruences used by the loop lemmas (fixed text, independent of the source) *)
Lemma gen_fold_left_ext {A B : Type} (f g : A -> B -> A) :
  (forall s x, f s x = g s x) -> forall l s, fold_left f l s = fold_left g l s.
Proof. intros H l. induction l as [|x l IH]; intros s; simpl; [reflexivity | rewrite H; apply IH]. Qed.
Lemma gen_fold_left_map {A B C : Type} (f : A -> C -> A) (g : B -> C) :
  forall l s, fold_left f (map g l) s = fold_left (fun s x => f s (g x)) l s.
Proof. intros l. induction l as [|x l IH]; intros s; simpl; [reflexivity | apply IH]. Qed.

(* a countdown loop `for i in range(n - 1, -1, -1)` that stores one value per iteration at index i: n iterations of `step`,
   the stored values listed by index (the first iteration's value is last) *)
Fixpoint gen_countdown {St Out : Type} (step : St -> Out * St) (fuel : nat) (s : St) : list Out :=
  match fuel with
  | O => []
  | S k => let '(m, s') := step s in gen_countdown step k s' ++ [m]
  end.
Lemma gen_countdown_ext {St Out : Type} (f g : St -> Out * St) :
  (forall s, f s = g s) -> forall k s, gen_countdown f k s = gen_countdown g k s.
Proof. intros H k. induction k as [|k IH]; intros s; simpl; [reflexivity | rewrite H; destruct (g s); rewrite IH; reflexivity]. Qed.
(* the hand model's recursion slr_inv is this iterator of its own step slr_peel *)
Lemma gen_slr_inv_countdown {F : FOps} : forall k ab, slr_inv (F:=F) k ab = gen_countdown slr_peel k ab.
Proof. intros k. induction k as [|k IH]; intros ab; simpl; [reflexivity | destruct (slr_peel ab); rewrite IH; reflexivity]. Qed.

Section Gen.
  Context {F : FOps}.
  Local Notation Cx := (Cx (F:=F)).
  Local Notation State := (State (F:=F)).
  Variable cs : F -> F * F.             (* trig oracle of model/Bloch.v: t |-> (cos t, sin t) *)
  Variable atan2 : F -> F -> F.         (* np.arctan2 and np.angle: used by the last line of ab2rf only *)
  Variable angle : Cx -> F.

"""

FOOTER = """End Gen.

(* ===== ab2rf over the real numbers: the generated function is proofs/Slr2.v's ab2rf (the function of theorem C19_ab2rf_inverts) ===== *)
From SV Require proofs.Bloch proofs.Bloch2 proofs.Slr2.
Lemma gen_ab2rf_out_ok : forall (cj : proofs.Bloch.RF) (sj : Cx (F:=proofs.Bloch.RF)),
  gen_ab2rf_out (F:=proofs.Bloch.RF) proofs.Bloch.rcs Slr2.Ratan2 Slr2.Rangle cj sj = Slr2.cs2rf (cj, sj).
Proof. intros. reflexivity. Qed.
Lemma gen_ab2rf_ok : forall (a b : list (Cx (F:=proofs.Bloch.RF))),
  gen_ab2rf (F:=proofs.Bloch.RF) proofs.Bloch.rcs Slr2.Ratan2 Slr2.Rangle a b = Slr2.ab2rf a b.
Proof. intros. unfold gen_ab2rf, Slr2.ab2rf. rewrite gen_ab2rf_cs_ok. apply map_ext. intros [c s]. apply gen_ab2rf_out_ok. Qed.
"""


def check_module(tree, relpath, need):
    """the module-level names the functions rely on are what they seem"""
    seen = set()
    for s in tree.body:
        if isinstance(s, ast.ImportFrom) and s.module == "sigpy" and s.level == 0:
            seen |= {"from sigpy import " + a.name for a in s.names if a.asname is None}
        elif isinstance(s, ast.Import):
            seen |= {"import %s as %s" % (a.name, a.asname) for a in s.names if a.asname}
    for n in need:
        if n not in seen:
            raise TranslationError("%s: `%s` not found at module level" % (relpath, n))
    bound = [n.split()[-1] for n in need]
    for s in tree.body:
        if isinstance(s, (ast.FunctionDef, ast.ClassDef)) and s.name in bound:
            raise TranslationError("%s:%d: `%s` is redefined" % (relpath, s.lineno, s.name))
        if isinstance(s, (ast.Assign, ast.AugAssign, ast.AnnAssign)) and names_in(s, ast.Store) & set(bound):
            raise TranslationError("%s:%d: a module-level name the simulators use is rebound" % (relpath, s.lineno))


NEED = {SIM: ["from sigpy import backend"], OPT: ["from sigpy import backend"], SLR: ["import numpy as np"]}
COVERED = "abrm, abrm_nd, abrm_hp, abrm_ptx (sim.py); blochsim (optcont.py); ab2rf (slr.py): loop bodies, loops, whole functions"
FILES = (SIM, OPT, SLR)


def translate_sources(srcs):
    """srcs: {relative path: source text} -> text of Gen_bloch.v"""
    trees, out = {}, []
    for rel in FILES:
        try:
            trees[rel] = ast.parse(srcs[rel])
        except SyntaxError as e:
            raise TranslationError("%s: syntax error: %s" % (rel, e))
        check_module(trees[rel], rel, NEED[rel])
    shas = "\n".join("     %s (sha256 %s)" % (rel, hashlib.sha256(srcs[rel].encode()).hexdigest()) for rel in FILES)
    out.append(HEADER % shas)
    for sp in specs():
        rel = sp["file"]
        fns = [s for s in trees[rel].body if isinstance(s, ast.FunctionDef) and s.name == sp["func"]]
        if len(fns) != 1:
            raise TranslationError("%s: function %s not found exactly once" % (rel, sp["func"]))
        sp.setdefault("reserve", ())
        tr = Tr(sp, fns[0], srcs[rel].split("\n"), rel)
        if sp["name"] == "ab2rf":
            sp["bind"] = {"a": tr.poly_atom("a", ("N", 0)), "b": tr.poly_atom("b", ("N", 0))}
        out.append("(* ===== %s%s ===== *)" % (sp["name"], (": " + sp["note"]) if sp.get("note") else ""))
        out += tr.translate()
    out.append(FOOTER)
    return "\n".join(out)


def read_sources(repo):
    return {rel: open(os.path.join(repo, rel)).read() for rel in FILES}


def translate_bloch(repo):
    return translate_sources(read_sources(repo))


def failing_lemma(gen_text, log):
    """name of the lemma / definition a coqc error message points into"""
    m = re.search(r'line (\d+), characters', log)
    if not m:
        return None
    lines = gen_text.split("\n")
    for i in range(min(int(m.group(1)), len(lines)) - 1, -1, -1):
        mm = re.match(r"\s*(?:Lemma|Definition)\s+([A-Za-z0-9_']+)", lines[i])
        if mm:
            return mm.group(1)
    return None


def tie(ctx):
    """The two obligations props/C19.py adds: regenerate gen/Gen_bloch.v from the tree under test, then compile it (the
    `_ok` lemmas ARE the tie).  Returns None when both hold, else {"theorem": <translator or lemma>, "log": ...}."""
    from tools import translate_all
    from vlib import core
    tr_err = translate_all.run(strict=False, only=["bloch"])
    ctx.source_hash(*FILES)
    ctx.obligation("translate:sigpy/mri/rf/sim.py, optcont.py, slr.py (%s)" % COVERED, not tr_err)
    name = "tie:generated == hand model (Gen_bloch.v: gen_<f>_step_ok / _loop_ok / gen_<f>_ok vs model/Bloch.v; gen_ab2rf_ok vs proofs/Slr2.v)"
    if tr_err:
        ctx.notes.append("translator failed closed: %s" % tr_err)
        ctx.obligation(name, False)
        return {"theorem": "translate:tools/translate_bloch.py", "log": str(tr_err)}
    ctx.checker_cmds.append("cd %s && make gen/Gen_bloch.vo" % core.COQ)
    ok, log = core.coq_make(["gen/Gen_bloch.vo"], timeout=900)
    ctx.obligation(name, ok)
    if ok:
        return None
    lem = None
    m = re.search(r'File "[^"]*?Gen_bloch\.v", line (\d+)', log)
    if m:
        try:
            lem = failing_lemma(open(os.path.join(core.COQ, "gen", "Gen_bloch.v")).read(), "line %s, characters" % m.group(1))
        except OSError:
            pass
    ctx.notes.append("generated Bloch simulators no longer equal the hand model: %s: %s" % (lem, log[-1200:]))
    return {"theorem": "tie:%s (gen/Gen_bloch.v)" % (lem or "?"), "log": log[-2500:]}


if __name__ == "__main__":
    sys.stdout.write(translate_bloch(sys.argv[1] if len(sys.argv) > 1 else "/repo"))
