#!/usr/bin/env python3
"""Self-test of tools/translate_alg.py: small textual mutations of a COPY of sigpy/alg.py (and of util.axpy).

For every mutation the copy is translated (from the copied file); expected outcome: the translation FAILS CLOSED
(TranslationError naming the line) or the first `_ok` lemma that no longer compiles is named.  The unmodified
source and a few semantics-preserving edits (renamed local, extra comment / docstring) must pass.
Scratch copies: /verif/build/tralg_selftest/<name>/{alg.py,util.py,Gen_alg.v,Gen_alg_pg.v}.

    /venv/bin/python tools/test_translate_alg.py [repo]        exit 0 = everything as expected
"""
import concurrent.futures
import os
import shutil
import subprocess
import sys
import time

HERE = os.path.dirname(os.path.abspath(__file__))
sys.path.insert(0, os.path.dirname(HERE))
from tools import translate_alg as T      # noqa: E402
from vlib import core                    # noqa: E402

SCRATCH = os.path.join(core.BUILD, "tralg_selftest")

# (name, file, old text, new text, which occurrence (0-based), expectation)
#   expectation: "caught" (fail closed or a lemma breaks) | "pass" (semantics-preserving: must still be accepted)
MUTATIONS = [
    ("cg_beta_eps", "alg", "beta = rznew / self.rzold", "beta = rznew / (self.rzold + 1e-30)", 0, "caught"),
    ("cg_beta_finfo_eps", "alg", "beta = rznew / self.rzold", "beta = rznew / (self.rzold + xp.finfo(rznew.dtype).eps)", 0, "caught"),
    ("cg_axpy_swapped_args", "alg", "util.axpy(self.x, self.alpha, self.p)", "util.axpy(self.p, self.alpha, self.x)", 0, "caught"),
    ("cg_pAp_lt", "alg", "if pAp <= 0:", "if pAp < 0:", 0, "caught"),
    ("cg_dropped_real", "alg", "pAp = xp.real(xp.vdot(self.p, Ap)).item()", "pAp = xp.vdot(self.p, Ap).item()", 0, "caught"),
    ("cg_last_iter_le", "alg", "if self.iter < self.max_iter - 1:", "if self.iter <= self.max_iter - 1:", 0, "caught"),
    ("cg_residual_update_sign", "alg", "util.axpy(self.r, -self.alpha, Ap)", "util.axpy(self.r, self.alpha, Ap)", 0, "caught"),
    ("cg_resid_no_sqrt", "alg", "self.resid = self.rzold.item() ** 0.5", "self.resid = self.rzold.item()", 1, "caught"),
    ("cg_init_resid_no_sqrt", "alg", "self.resid = self.rzold.item() ** 0.5", "self.resid = self.rzold.item()", 0, "caught"),
    ("cg_xpay_to_axpy", "alg", "util.xpay(self.p, beta, z)", "util.axpy(self.p, beta, z)", 0, "caught"),
    ("cg_vdot_wrong_vector", "alg", "rznew = xp.real(xp.vdot(self.r, z))", "rznew = xp.real(xp.vdot(z, z))", 0, "caught"),
    ("cg_init_r_aliases_b", "alg", "            self.r = b - self.A(self.x)\n", "            self.r = b\n            self.r -= self.A(self.x)\n", 0, "caught"),
    ("cg_done_gt", "alg", "            self.iter >= self.max_iter\n            or self.not_positive_definite",
     "            self.iter > self.max_iter\n            or self.not_positive_definite", 0, "caught"),
    ("cg_done_drops_npd", "alg", "            or self.not_positive_definite\n", "", 0, "caught"),
    ("gm_momentum_4t", "alg", "self.t = (1 + (1 + 4 * t_old**2) ** 0.5) / 2", "self.t = (1 + (1 + 4 * t_old) ** 0.5) / 2", 0, "caught"),
    ("gm_extrapolation_t_old_over_t", "alg", "self.x + ((t_old - 1) / self.t) * (self.x - x_old)",
     "self.x + (t_old / self.t) * (self.x - x_old)", 0, "caught"),
    ("gm_done_lt", "alg", "return (self.iter >= self.max_iter) or self.resid <= self.tol",
     "return (self.iter >= self.max_iter) or self.resid < self.tol", 0, "caught"),
    ("gm_x_old_not_copied", "alg", "            x_old = self.x.copy()\n\n            if self.accelerate:", "            x_old = self.x\n\n            if self.accelerate:", 0, "caught"),
    ("gm_step_sign", "alg", "util.axpy(self.x, -self.alpha, self.gradf(self.x))", "util.axpy(self.x, self.alpha, self.gradf(self.x))", 0, "caught"),
    ("gm_prox_step_size", "alg", "self.proxg(self.alpha, self.x)", "self.proxg(1, self.x)", 0, "caught"),
    ("gm_resid_not_divided", "alg", "self.resid = xp.linalg.norm(self.x - x_old).item() / self.alpha",
     "self.resid = xp.linalg.norm(self.x - x_old).item()", 0, "caught"),
    ("gm_init_t_zero", "alg", "                self.t = 1\n", "                self.t = 0\n", 0, "caught"),
    ("gm_writes_into_gradf_result", "alg", "            util.axpy(self.x, -self.alpha, self.gradf(self.x))\n",
     "            g = self.gradf(self.x)\n            g *= -self.alpha\n            self.x += g\n", 0, "caught"),
    ("cg_x_rebound_not_in_place", "alg", "            util.axpy(self.x, self.alpha, self.p)\n", "            self.x = self.x + self.alpha * self.p\n", 0, "caught"),
    ("cg_init_p_not_copied", "alg", "                self.p = z.copy()\n", "                self.p = z\n", 0, "caught"),
    ("gm_init_z_not_copied", "alg", "                self.z = self.x.copy()\n", "                self.z = self.x\n", 0, "caught"),
    ("pdhg_init_x_ext_not_copied", "alg", "            self.x_ext = self.x.copy()\n", "            self.x_ext = self.x\n", 0, "caught"),
    ("pm_multiply", "alg", "backend.copyto(self.x, y / self.max_eig)", "backend.copyto(self.x, y * self.max_eig)", 0, "caught"),
    ("pdhg_tau_divided", "alg", "                self.tau *= theta\n", "                self.tau /= theta\n", 0, "caught"),
    ("pdhg_theta_formula", "alg", "theta = 1 / (1 + 2 * self.gamma_primal * self.tau_min) ** 0.5",
     "theta = 1 / (1 + self.gamma_primal * self.tau_min) ** 0.5", 0, "caught"),
    ("pdhg_extrapolate_from_old", "alg", "backend.copyto(self.x_ext, self.x + theta * x_diff)", "backend.copyto(self.x_ext, x_old + theta * x_diff)", 0, "caught"),
    ("pdhg_dual_uses_x", "alg", "util.axpy(self.u, self.sigma, self.A(self.x_ext))", "util.axpy(self.u, self.sigma, self.A(self.x))", 0, "caught"),
    ("neutral_unused_local", "alg", "        # Update step-size if neccessary.\n",
     "        tau_before = self.tau\n        # Update step-size if neccessary.\n", 0, "pass"),
    ("alg_update_iter_plus_2", "alg", "        self._update()\n        self.iter += 1", "        self._update()\n        self.iter += 2", 0, "caught"),
    ("alg_update_order", "alg", "        self._update()\n        self.iter += 1", "        self.iter += 1\n        self._update()", 0, "caught"),
    ("util_axpy_minus", "util", "    y += a * x\n", "    y -= a * x\n", 0, "caught"),
    ("util_xpay_order", "util", "    y *= a\n    y += x\n", "    y += x\n    y *= a\n", 0, "caught"),
    # semantics-preserving edits: the tie must survive them
    ("neutral_rename_local", "alg", "Ap", "A_times_p", -1, "pass"),
    ("neutral_comment_docstring", "alg", "    def _update(self):\n        with self.device:\n            xp = self.device.xp\n            Ap",
     "    def _update(self):\n        \"\"\"one CG step\"\"\"\n        with self.device:\n            xp = self.device.xp  # array module\n            Ap", 0, "pass"),
    # a harmless refactor that changes the TERM is reported too (accepted: the checks then fall back to the trajectories)
    ("refactor_beta_as_product", "alg", "beta = rznew / self.rzold", "beta = rznew * (1 / self.rzold)", 0, "caught"),
]


def nth_replace(text, old, new, k):
    if k == -1:
        assert old in text, old
        return text.replace(old, new)
    idx = -1
    for _ in range(k + 1):
        idx = text.find(old, idx + 1)
        if idx < 0:
            raise AssertionError("pattern not found (occurrence %d): %r" % (k, old))
    return text[:idx] + new + text[idx + len(old):]


def compile_gen(path):
    p = subprocess.run(["coqc", "-w", "-all", "-Q", core.COQ, "SV", path], cwd=os.path.dirname(path),
                       stdout=subprocess.PIPE, stderr=subprocess.STDOUT, text=True, timeout=600)
    return p.returncode, p.stdout


def one(name, alg_src, util_src):
    d = os.path.join(SCRATCH, name)
    shutil.rmtree(d, ignore_errors=True)
    os.makedirs(os.path.join(d, "sigpy"))
    with open(os.path.join(d, "sigpy", "alg.py"), "w") as f:
        f.write(alg_src)
    with open(os.path.join(d, "sigpy", "util.py"), "w") as f:
        f.write(util_src)
    res = []
    for which, fname, fn in (("alg", "Gen_alg.v", T.translate_alg), ("pg", "Gen_alg_pg.v", T.translate_alg_pg)):
        try:
            text = fn(d)                    # reads <d>/sigpy/alg.py and <d>/sigpy/util.py
        except T.TranslationError as e:
            res.append((fname, "fails closed", str(e)))
            continue
        path = os.path.join(d, fname)
        with open(path, "w") as f:
            f.write(text)
        rc, out = compile_gen(path)
        if rc == 0:
            res.append((fname, "ok", ""))
        else:
            res.append((fname, "lemma fails", str(T.failing_lemma(text, out))))
    return res


def seeded_patches(alg0, util0):
    """the seeded defects of /verif/seeded that touch only sigpy/alg.py / sigpy/util.py (informational)"""
    out = []
    root = os.path.join(core.VERIF, "seeded")
    for name in sorted(os.listdir(root)) if os.path.isdir(root) else []:
        patch = os.path.join(root, name, "patch.diff")
        if not os.path.exists(patch):
            continue
        files = [l.split()[1][2:] for l in open(patch) if l.startswith("+++ ")]
        if not files or not set(files) <= {"sigpy/alg.py", "sigpy/util.py"}:
            continue
        d = os.path.join(SCRATCH, "seeded_src_" + name)
        shutil.rmtree(d, ignore_errors=True)
        os.makedirs(os.path.join(d, "sigpy"))
        open(os.path.join(d, "sigpy", "alg.py"), "w").write(alg0)
        open(os.path.join(d, "sigpy", "util.py"), "w").write(util0)
        p = subprocess.run(["patch", "-p1", "-s", "--no-backup-if-mismatch", "-d", d, "-i", patch],
                           stdout=subprocess.PIPE, stderr=subprocess.STDOUT, text=True)
        if p.returncode:
            out.append(("seeded:" + name, None, None, "does not apply"))
            continue
        out.append(("seeded:" + name, open(os.path.join(d, "sigpy", "alg.py")).read(), open(os.path.join(d, "sigpy", "util.py")).read(), "info"))
        shutil.rmtree(d, ignore_errors=True)
    return out


def main():
    pos = [a for a in sys.argv[1:] if not a.startswith("--")]
    repo = pos[0] if pos else core.REPO
    t0 = time.time()
    ok, log = core.coq_make(["model/Alg.vo", "model/Alg2.vo", "model/ProxGrad.vo"], timeout=900)
    if not ok:
        print("cannot build the hand models:\n" + log[-1500:])
        return 2
    alg0, util0 = T.read_sources(repo)
    jobs = [("UNMODIFIED", alg0, util0, "pass")]
    for name, which, old, new, k, expect in MUTATIONS:
        a, u = alg0, util0
        if which == "alg":
            a = nth_replace(a, old, new, k)
        else:
            u = nth_replace(u, old, new, k)
        jobs.append((name, a, u, expect))
    if "--no-seeded" not in sys.argv:
        jobs += [j for j in seeded_patches(alg0, util0) if j[1] is not None]
    with concurrent.futures.ThreadPoolExecutor(max_workers=8) as ex:
        futs = [ex.submit(one, n, a, u) for n, a, u, _ in jobs]
        results = [f.result() for f in futs]
    bad = 0
    print("%-34s %-8s %-9s %s" % ("mutation", "expected", "verdict", "how (Gen_alg.v | Gen_alg_pg.v)"))
    for (name, _, _, expect), res in zip(jobs, results):
        caught = any(r[1] != "ok" for r in res)
        verdict = "caught" if caught else "pass"
        good = verdict == expect or expect == "info"
        bad += 0 if good else 1
        how = " | ".join("%s%s" % (r[1], (": " + r[2][:170]) if r[2] else "") for r in res)
        print("%-34s %-8s %-9s %s" % (name, expect, verdict + ("" if good else " (!!)"), how))
    print("%d cases, %d unexpected, %.1fs" % (len(jobs), bad, time.time() - t0))
    return 1 if bad else 0


if __name__ == "__main__":
    sys.exit(main())
