#!/usr/bin/env python3
"""Self-test of tools/translate_poisson.py: small textual mutations of a COPY of sigpy/mri/samp.py.

For every mutation the copy is translated; expected outcome: the translation FAILS CLOSED (TranslationError naming the
line) or the first `_ok` lemma / definition of Gen_poisson.v that no longer compiles is named.  The unmodified source and
the meaning-preserving edits that keep the AST shape must pass; meaning-preserving edits that change the generated TERM
(or leave the accepted fragment) are listed with the expectation "breaks" (accepted by the brief: the check then falls
back to the correspondence and the oracle).
Scratch copies: /verif/build/trpoisson_selftest/<name>/{sigpy/mri/samp.py,Gen_poisson.v}.

    /venv/bin/python tools/test_translate_poisson.py [repo] [--no-seeded]        exit 0 = everything as expected
"""
import concurrent.futures
import os
import shutil
import subprocess
import sys
import time

HERE = os.path.dirname(os.path.abspath(__file__))
sys.path.insert(0, os.path.dirname(HERE))
from tools import translate_poisson as T      # noqa: E402
from vlib import core                        # noqa: E402

SCRATCH = os.path.join(core.BUILD, "trpoisson_selftest")

XLINE = "x = np.maximum(abs(x - img_shape[-1] / 2) - calib[-1] / 2, 0)"
GRID = "if qx >= 0 and qx < nx and qy >= 0 and qy < ny:"

# (name, old text, new text, which occurrence (0-based; -1 = all), expectation)
#   "caught": a defect -- must fail closed or break a lemma;  "pass": meaning-preserving, must still be accepted;
#   "breaks": meaning-preserving but changes the generated term / leaves the fragment -- reported, and said so
MUTATIONS = [
    # ---- _poisson: calibration block, prologue -------------------------------------------------------------------
    ("k_calib_wrong_axis", "int(ny / 2 - calib[-2] / 2) :", "int(ny / 2 - calib[-1] / 2) :", 0, "caught"),
    ("k_calib_hi_minus", ": int(nx / 2 + calib[-1] / 2),", ": int(nx / 2 - calib[-1] / 2),", 0, "caught"),
    ("k_calib_value_2", "    ] = 1\n", "    ] = 2\n", 0, "caught"),
    ("k_calib_rows_cols_swapped", "        int(ny / 2 - calib[-2] / 2) : int(ny / 2 + calib[-2] / 2),\n        int(nx / 2 - calib[-1] / 2) : int(nx / 2 + calib[-1] / 2),",
     "        int(nx / 2 - calib[-1] / 2) : int(nx / 2 + calib[-1] / 2),\n        int(ny / 2 - calib[-2] / 2) : int(ny / 2 + calib[-2] / 2),", 0, "caught"),
    ("k_seed_truthy", "    if seed is not None:\n        np.random.seed(int(seed))", "    if seed:\n        np.random.seed(int(seed))", 0, "caught"),
    ("k_first_point_range", "pxs[0] = np.random.randint(0, nx)", "pxs[0] = np.random.randint(0, ny)", 0, "caught"),
    ("k_first_point_order", "    pxs[0] = np.random.randint(0, nx)\n    pys[0] = np.random.randint(0, ny)", "    pys[0] = np.random.randint(0, ny)\n    pxs[0] = np.random.randint(0, nx)", 0, "caught"),
    ("k_num_actives_init_0", "    num_actives = 1\n", "    num_actives = 0\n", 0, "caught"),
    ("k_active_list_short", "pxs = np.empty(nx * ny, np.int32)", "pxs = np.empty(nx, np.int32)", 0, "caught"),
    ("k_zeros_shape_swapped", "mask = np.zeros((ny, nx))", "mask = np.zeros((nx, ny))", 0, "caught"),
    ("k_seed_dropped", "    if seed is not None:\n        np.random.seed(int(seed))\n", "", 0, "caught"),
    ("k_seed_after_first_draw", "    if seed is not None:\n        np.random.seed(int(seed))\n\n    # initialize active list\n    pxs = np.empty(nx * ny, np.int32)\n    pys = np.empty(nx * ny, np.int32)\n    pxs[0] = np.random.randint(0, nx)\n",
     "    # initialize active list\n    pxs = np.empty(nx * ny, np.int32)\n    pys = np.empty(nx * ny, np.int32)\n    pxs[0] = np.random.randint(0, nx)\n    if seed is not None:\n        np.random.seed(int(seed))\n", 0, "caught"),
    # ---- _poisson: main loop ---------------------------------------------------------------------------------------
    ("k_guard_ge", "while nx * ny > num_actives > 0:", "while nx * ny >= num_actives > 0:", 0, "caught"),
    ("k_guard_dropped_bound", "while nx * ny > num_actives > 0:", "while num_actives > 0:", 0, "caught"),
    ("k_randint_hi_plus_1", "i = np.random.randint(0, num_actives)", "i = np.random.randint(0, num_actives + 1)", 0, "caught"),
    ("k_radius_index_swapped", "rx = radius_x[py, px]", "rx = radius_x[px, py]", 0, "caught"),
    ("k_ry_from_radius_x", "ry = radius_y[py, px]", "ry = radius_x[py, px]", 0, "caught"),
    ("k_attempts_le", "while not done and k < max_attempts:", "while not done and k <= max_attempts:", 0, "caught"),
    ("k_attempts_no_flag", "while not done and k < max_attempts:", "while k < max_attempts:", 0, "caught"),
    ("k_counter_by_2", "            k += 1\n", "            k += 2\n", 0, "caught"),
    ("k_radial_law_constant", "v = (np.random.random() * 3 + 1) ** 0.5", "v = (np.random.random() * 2 + 1) ** 0.5", 0, "caught"),
    ("k_radial_law_no_root", "v = (np.random.random() * 3 + 1) ** 0.5", "v = np.random.random() * 3 + 1", 0, "caught"),
    ("k_angle_half_turn", "t = 2 * np.pi * np.random.random()", "t = np.pi * np.random.random()", 0, "caught"),
    ("k_draw_order_swapped", "            v = (np.random.random() * 3 + 1) ** 0.5\n            t = 2 * np.pi * np.random.random()",
     "            t = 2 * np.pi * np.random.random()\n            v = (np.random.random() * 3 + 1) ** 0.5", 0, "caught"),
    ("k_cos_for_sin", "qy = py + v * ry * np.sin(t)", "qy = py + v * ry * np.cos(t)", 0, "caught"),
    ("k_qy_uses_rx", "qy = py + v * ry * np.sin(t)", "qy = py + v * rx * np.sin(t)", 0, "caught"),
    ("k_qx_from_py", "qx = px + v * rx * np.cos(t)", "qx = py + v * rx * np.cos(t)", 0, "caught"),
    ("k_grid_test_le", GRID, "if qx >= 0 and qx <= nx and qy >= 0 and qy < ny:", 0, "caught"),
    ("k_grid_test_dropped_lower", GRID, "if qx < nx and qy >= 0 and qy < ny:", 0, "caught"),
    ("k_grid_test_nx_for_ny", GRID, "if qx >= 0 and qx < nx and qy >= 0 and qy < nx:", 0, "caught"),
    ("k_window_end_no_plus_1", "endx = min(int(qx + rx + 1), nx)", "endx = min(int(qx + rx), nx)", 0, "caught"),
    ("k_window_start_unclamped", "startx = max(int(qx - rx), 0)", "startx = int(qx - rx)", 0, "caught"),
    ("k_window_y_uses_rx", "starty = max(int(qy - ry), 0)", "starty = max(int(qy - rx), 0)", 0, "caught"),
    ("k_conflict_le", "                            < 1\n", "                            <= 1\n", 0, "caught"),
    ("k_conflict_no_mask_test", "if mask[y, x] == 1 and (", "if (", 0, "caught"),
    ("k_conflict_mask_transposed", "if mask[y, x] == 1 and (", "if mask[x, y] == 1 and (", 0, "caught"),
    ("k_conflict_radius_of_candidate", "((qx - x) / radius_x[y, x]) ** 2", "((qx - x) / rx) ** 2", 0, "caught"),
    ("k_conflict_dropped_y_term", "                            + ((qy - y) / (radius_y[y, x])) ** 2\n", "", 0, "caught"),
    ("k_conflict_not_squared", "((qx - x) / radius_x[y, x]) ** 2", "((qx - x) / radius_x[y, x])", 0, "caught"),
    ("k_scan_continues_when_conflict", "                            done = False\n                            break\n", "                            done = True\n                            break\n", 0, "caught"),
    ("k_mask_index_swapped", "mask[int(qy), int(qx)] = 1", "mask[int(qx), int(qy)] = 1", 0, "caught"),
    ("k_store_qy_in_pxs", "pxs[num_actives] = qx", "pxs[num_actives] = qy", 0, "caught"),
    ("k_store_rounded", "pxs[num_actives] = qx", "pxs[num_actives] = round(qx)", 0, "caught"),
    ("k_no_increment", "            num_actives += 1\n", "            num_actives += 0\n", 0, "caught"),
    ("k_remove_reads_past_end", "pxs[i] = pxs[num_actives - 1]", "pxs[i] = pxs[num_actives]", 0, "caught"),
    ("k_remove_pys_from_pxs", "pys[i] = pys[num_actives - 1]", "pys[i] = pxs[num_actives - 1]", 0, "caught"),
    ("k_branches_inverted", "        if done:\n            pxs[num_actives] = qx", "        if not done:\n            pxs[num_actives] = qx", 0, "caught"),
    ("k_returns_scaled", "    return mask\n\n\ndef spiral", "    return mask * 2\n\n\ndef spiral", 0, "caught"),
    # ---- poisson -------------------------------------------------------------------------------------------------------
    ("f_accel_check_lt", "if accel <= 1:", "if accel < 1:", 0, "caught"),
    ("f_accel_check_dropped", "    if accel <= 1:\n        raise ValueError(f\"accel must be greater than 1, got {accel}\")\n", "", 0, "caught"),
    ("f_shape_unpacked_swapped", "ny, nx = img_shape", "nx, ny = img_shape", 0, "caught"),
    ("f_grid_dropped_abs", XLINE, "x = np.maximum(x - img_shape[-1] / 2 - calib[-1] / 2, 0)", 0, "caught"),
    ("f_grid_wrong_calib_axis", XLINE, "x = np.maximum(abs(x - img_shape[-1] / 2) - calib[-2] / 2, 0)", 0, "caught"),
    ("f_grid_not_clamped", XLINE, "x = abs(x - img_shape[-1] / 2) - calib[-1] / 2", 0, "caught"),
    ("f_grid_centre_off_by_half", XLINE, "x = np.maximum(abs(x - (img_shape[-1] - 1) / 2) - calib[-1] / 2, 0)", 0, "caught"),
    ("f_grid_full_calib", XLINE, "x = np.maximum(abs(x - img_shape[-1] / 2) - calib[-1], 0)", 0, "caught"),
    ("f_grid_not_normalised", "    x /= x.max()\n", "", 0, "caught"),
    ("f_grid_y_normalised_by_x", "    y /= y.max()\n", "    y /= x.max()\n", 0, "caught"),
    ("f_radius_dropped_y", "r = np.sqrt(x**2 + y**2)", "r = np.sqrt(x**2)", 0, "caught"),
    ("f_radius_l1", "r = np.sqrt(x**2 + y**2)", "r = x + y", 0, "caught"),
    ("f_slope_max_min", "slope_max = max(nx, ny)", "slope_max = min(nx, ny)", 0, "caught"),
    ("f_slope_min_1", "    slope_min = 0\n", "    slope_min = 1\n", 0, "caught"),
    ("f_midpoint_third", "slope = (slope_max + slope_min) / 2", "slope = (slope_max + slope_min) / 3", 0, "caught"),
    ("f_stall_exit_dropped", "        if slope == slope_min or slope == slope_max:\n            break\n", "", 0, "caught"),
    ("f_stall_exit_and", "if slope == slope_min or slope == slope_max:", "if slope == slope_min and slope == slope_max:", 0, "caught"),
    ("f_radius_floor_0", "radius_x = np.clip((1 + r * slope) * nx / max(nx, ny), 1, None)", "radius_x = np.clip((1 + r * slope) * nx / max(nx, ny), 0, None)", 0, "caught"),
    ("f_radius_upper_clip", "radius_x = np.clip((1 + r * slope) * nx / max(nx, ny), 1, None)", "radius_x = np.clip((1 + r * slope) * nx / max(nx, ny), None, 1)", 0, "caught"),
    ("f_radius_y_scaled_by_nx", "radius_y = np.clip((1 + r * slope) * ny / max(nx, ny), 1, None)", "radius_y = np.clip((1 + r * slope) * nx / max(nx, ny), 1, None)", 0, "caught"),
    ("f_radius_no_offset", "radius_x = np.clip((1 + r * slope) * nx / max(nx, ny), 1, None)", "radius_x = np.clip((r * slope) * nx / max(nx, ny), 1, None)", 0, "caught"),
    ("f_radius_div_min", "radius_x = np.clip((1 + r * slope) * nx / max(nx, ny), 1, None)", "radius_x = np.clip((1 + r * slope) * nx / min(nx, ny), 1, None)", 0, "caught"),
    ("f_kernel_radii_swapped", "            radius_x,\n            radius_y,\n", "            radius_y,\n            radius_x,\n", 0, "caught"),
    ("f_kernel_sizes_swapped", "            img_shape[-1],\n            img_shape[-2],\n            max_attempts", "            img_shape[-2],\n            img_shape[-1],\n            max_attempts", 0, "caught"),
    ("f_kernel_seed_defaulted", "            calib,\n            seed,\n        )", "            calib,\n            0 if seed is None else seed,\n        )", 0, "caught"),
    ("f_crop_le", "mask *= r < 1", "mask *= r <= 1", 0, "caught"),
    ("f_crop_unconditional", "        if crop_corner:\n            mask *= r < 1\n", "        mask *= r < 1\n", 0, "caught"),
    ("f_crop_dropped", "        if crop_corner:\n            mask *= r < 1\n", "", 0, "caught"),
    ("f_accel_inverted", "actual_accel = img_shape[-1] * img_shape[-2] / np.sum(mask)", "actual_accel = np.sum(mask) / (img_shape[-1] * img_shape[-2])", 0, "caught"),
    ("f_accel_one_axis", "actual_accel = img_shape[-1] * img_shape[-2] / np.sum(mask)", "actual_accel = img_shape[-1] * img_shape[-1] / np.sum(mask)", 0, "caught"),
    ("f_tol_test_le", "        if abs(actual_accel - accel) < tol:\n            break", "        if abs(actual_accel - accel) <= tol:\n            break", 0, "caught"),
    ("f_tol_test_dropped_abs", "        if abs(actual_accel - accel) < tol:\n            break", "        if actual_accel - accel < tol:\n            break", 0, "caught"),
    ("f_bisection_inverted", "        if actual_accel < accel:\n", "        if actual_accel > accel:\n", 0, "caught"),
    ("f_bisection_same_end", "        else:\n            slope_max = slope\n", "        else:\n            slope_min = slope\n", 0, "caught"),
    ("f_final_test_gt", "    if abs(actual_accel - accel) >= tol:\n        raise", "    if abs(actual_accel - accel) > tol:\n        raise", 0, "caught"),
    ("f_final_test_dropped", "    if abs(actual_accel - accel) >= tol:\n        raise ValueError(f\"Cannot generate mask to satisfy accel={accel}.\")\n", "", 0, "caught"),
    ("f_final_test_2tol", "    if abs(actual_accel - accel) >= tol:\n        raise", "    if abs(actual_accel - accel) >= 2 * tol:\n        raise", 0, "caught"),
    ("f_raises_runtime_error", "        raise ValueError(f\"Cannot generate mask", "        raise RuntimeError(f\"Cannot generate mask", 0, "caught"),
    ("f_default_tol", "    tol=0.1,\n):", "    tol=0.2,\n):", 0, "caught"),
    ("f_default_max_attempts", "    max_attempts=30,\n", "    max_attempts=10,\n", 0, "caught"),
    ("f_kernel_redefined_later", "def spiral(fov", "def _poisson(nx, ny, max_attempts, radius_x, radius_y, calib, seed=None):\n    return np.ones((ny, nx))\n\n\ndef spiral(fov", 0, "caught"),
    # ---- meaning-preserving edits that keep the AST shape: the tie must survive them --------------------------------------
    ("neutral_rename_num_actives", "num_actives", "n_active", -1, "pass"),
    ("neutral_rename_actual_accel", "actual_accel", "achieved", -1, "pass"),
    ("neutral_rename_flag", "done", "accepted", -1, "pass"),
    ("neutral_rename_mask_r", "radius_x", "rad_x", -1, "pass"),
    ("neutral_comments", "    # initialize active list\n", "    # initialize active list\n    # (one starting point)\n", 0, "pass"),
    ("neutral_docstring", "Generate variable-density Poisson-disc sampling pattern.", "Generate a variable-density Poisson-disc sampling pattern.", 0, "pass"),
    ("neutral_unused_local_front", "    slope_min = 0\n", "    slope_min = 0\n    n_calls = 0\n", 0, "pass"),
    ("neutral_unused_local_kernel", "        ry = radius_y[py, px]\n", "        ry = radius_y[py, px]\n        spare = pys[i]\n", 0, "pass"),
    ("neutral_edit_radial", "phi = np.pi * (3 - 5**0.5)", "phi = np.pi * (3.0 - 5**0.5)", 0, "pass"),
    ("neutral_ge_as_le", GRID, "if 0 <= qx and qx < nx and 0 <= qy and qy < ny:", 0, "pass"),
    ("neutral_guard_as_lt_chain", "while nx * ny > num_actives > 0:", "while 0 < num_actives < nx * ny:", 0, "pass"),
    ("neutral_state_restore_dropped", "    if seed is not None:\n        np.random.set_state(rand_state)\n\n", "", 0, "pass"),
    ("neutral_plain_division", "    x /= x.max()\n", "    x = x / x.max()\n", 0, "pass"),
    ("refactor_np_abs_in_loop_only", "        if abs(actual_accel - accel) < tol:\n            break", "        if np.abs(actual_accel - accel) < tol:\n            break", 0, "breaks"),
    # ---- meaning-preserving edits that change the TERM or leave the fragment: reported (accepted) ------------------------
    ("refactor_commuted_midpoint", "slope = (slope_max + slope_min) / 2", "slope = (slope_min + slope_max) / 2", 0, "breaks"),
    ("refactor_scan_without_break", "                            done = False\n                            break\n", "                            done = False\n", 0, "breaks"),
    ("refactor_no_reshape", "mask = mask.reshape(img_shape).astype(dtype)", "mask = mask.astype(dtype)", 0, "breaks"),
    ("refactor_lists_created_swapped", "    pxs = np.empty(nx * ny, np.int32)\n    pys = np.empty(nx * ny, np.int32)\n", "    pys = np.empty(nx * ny, np.int32)\n    pxs = np.empty(nx * ny, np.int32)\n", 0, "breaks"),
    ("refactor_maximum_for_clip", "radius_x = np.clip((1 + r * slope) * nx / max(nx, ny), 1, None)", "radius_x = np.maximum((1 + r * slope) * nx / max(nx, ny), 1)", 0, "pass"),
    ("refactor_floor_div_calib", "int(ny / 2 - calib[-2] / 2) :", "(ny - calib[-2]) // 2 :", 0, "breaks"),
]


def nth_replace(text, old, new, k):
    if k == -1:
        assert old in text, old
        return text.replace(old, new)
    idx = -1
    for _ in range(k + 1):
        idx = text.find(old, idx + 1)
        if idx < 0:
            raise AssertionError("pattern not found (occurrence %d): %r" % (k, old))
    return text[:idx] + new + text[idx + len(old):]


def compile_gen(path):
    p = subprocess.run(["coqc", "-w", "-all", "-Q", core.COQ, "SV", path], cwd=os.path.dirname(path),
                       stdout=subprocess.PIPE, stderr=subprocess.STDOUT, text=True, timeout=600)
    return p.returncode, p.stdout


def one(name, src):
    d = os.path.join(SCRATCH, name.replace(":", "_"))
    shutil.rmtree(d, ignore_errors=True)
    os.makedirs(os.path.join(d, "sigpy", "mri"))
    with open(os.path.join(d, T.SRC_REL), "w") as f:
        f.write(src)
    try:
        text = T.translate_poisson(d)               # reads <d>/sigpy/mri/samp.py
    except T.TranslationError as e:
        return ("fails closed", str(e))
    except SyntaxError as e:
        return ("fails closed", "SyntaxError: %s" % e)
    path = os.path.join(d, "Gen_poisson.v")
    with open(path, "w") as f:
        f.write(text)
    rc, out = compile_gen(path)
    if rc == 0:
        return ("ok", "")
    return ("lemma fails", str(T.failing_lemma(text, out)))


def seeded_patches(src0):
    """the seeded changes of /verif/seeded for C18 that touch samp.py (informational)"""
    out = []
    root = os.path.join(core.VERIF, "seeded")
    for name in sorted(os.listdir(root)) if os.path.isdir(root) else []:
        patch = os.path.join(root, name, "patch.diff")
        if not name.startswith("C18_") or not os.path.exists(patch):
            continue
        files = [l.split()[1][2:] for l in open(patch) if l.startswith("+++ ")]
        if T.SRC_REL not in files:
            continue
        d = os.path.join(SCRATCH, "seeded_src_" + name)
        shutil.rmtree(d, ignore_errors=True)
        os.makedirs(os.path.join(d, "sigpy", "mri"))
        open(os.path.join(d, T.SRC_REL), "w").write(src0)
        p = subprocess.run(["patch", "-p1", "-s", "--no-backup-if-mismatch", "-d", d, "-i", patch],
                           stdout=subprocess.PIPE, stderr=subprocess.STDOUT, text=True)
        if p.returncode:
            out.append(("seeded:" + name, None, "does not apply"))
            continue
        out.append(("seeded:" + name, open(os.path.join(d, T.SRC_REL)).read(), "info"))
        shutil.rmtree(d, ignore_errors=True)
    return out


def main():
    pos = [a for a in sys.argv[1:] if not a.startswith("--")]
    repo = pos[0] if pos else core.REPO
    t0 = time.time()
    ok, log = core.coq_make(["model/PoissonFront.vo"], timeout=900)
    if not ok:
        print("cannot build the hand model:\n" + log[-1500:])
        return 2
    src0 = open(os.path.join(repo, T.SRC_REL)).read()
    jobs = [("UNMODIFIED", src0, "pass")]
    for name, old, new, k, expect in MUTATIONS:
        jobs.append((name, nth_replace(src0, old, new, k), expect))
    if "--no-seeded" not in sys.argv:
        jobs += [j for j in seeded_patches(src0) if j[1] is not None]
    with concurrent.futures.ThreadPoolExecutor(max_workers=8) as ex:
        results = list(ex.map(lambda j: one(j[0], j[1]), jobs))
    bad = 0
    tally = {}
    print("%-34s %-8s %-9s %s" % ("mutation", "expected", "verdict", "how"))
    for (name, _, expect), (how, detail) in zip(jobs, results):
        verdict = "pass" if how == "ok" else "caught"
        good = expect == "info" or verdict == {"caught": "caught", "breaks": "caught", "pass": "pass"}[expect]
        bad += 0 if good else 1
        tally[(expect, how)] = tally.get((expect, how), 0) + 1
        print("%-34s %-8s %-9s %s%s" % (name, expect, verdict + ("" if good else " (!!)"), how, (": " + detail[:230]) if detail else ""))
    print("; ".join("%s/%s: %d" % (e, h, n) for (e, h), n in sorted(tally.items())))
    print("%d cases, %d unexpected, %.1fs" % (len(jobs), bad, time.time() - t0))
    return 1 if bad else 0


if __name__ == "__main__":
    sys.exit(main())
